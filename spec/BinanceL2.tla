------------------------------ MODULE BinanceL2 ------------------------------
(***************************************************************************)
(* Binance L2 order-book streams: REST snapshot + websocket depth updates, *)
(* sequenced per instrument on a shared connection (C06).                  *)
(*                                                                         *)
(* Code transcribed:                                                       *)
(*  barter-data/src/exchange/binance/spot/l2.rs                            *)
(*     BinanceSpotOrderBooksL2Transformer::{init, transform}               *)
(*     BinanceSpotOrderBookL2Sequencer::validate_sequence                  *)
(*        (drop test, is_first_update, validate_first_update,              *)
(*         validate_next_update, metadata advance only on success)         *)
(*  barter-data/src/exchange/binance/futures/l2.rs   (same, futures rule)  *)
(*  barter-data/src/exchange/binance/book/l2.rs      (snapshot -> book)    *)
(*  barter-data/src/books/mod.rs                     (INSTANCE OrderBook)  *)
(*  barter-data/src/error.rs    DataError::InvalidSequence is_terminal     *)
(*  barter-data/src/streams/reconnect/stream.rs  with_termination_on_error *)
(*     ends the connection, with_reconnection_events emits ONE notice,     *)
(*     the next connection is initialised from fresh snapshots (Reinit)    *)
(*                                                                         *)
(* Ground truth (the exchange): elementary changes id 1..M, each setting   *)
(* one level of one side - or, side "n", consuming an update id without    *)
(* touching any level of this book: Binance does send depth updates whose  *)
(* b and a are both empty, and they are links of the U/u/pu chain like any *)
(* other - (`chg`), grouped into diff events k = 1..K by the *)
(* cut points `cut` (u_k = cut[k], U_k = u_{k-1}+1, pu_k = u_{k-1}); event *)
(* k carries, for every level touched by ids U_k..u_k, its absolute amount *)
(* at u_k.  Truth(n) = book after changes 1..n.  A snapshot is taken at    *)
(* any id S in 0..M.                                                       *)
(*                                                                         *)
(* Nondeterminism = the property's quantifier and nothing else: the        *)
(* evolution, the grouping, the snapshot ids, and WHICH event is delivered *)
(* next to WHICH instrument (any event at any time: drop, duplicate, swap, *)
(* replay of an old prefix, late / early start).  The sequencer and the    *)
(* book are deterministic functions of that.                               *)
(* After an Error the transformer is discarded, as the reconnect does.     *)
(*                                                                         *)
(* Connection establishment (barter-data/src/lib.rs ExchangeWsStream::init,*)
(* subscriber/validator.rs WebSocketSubValidator::validate):               *)
(*   subscribe -> wait for `expected` confirmations; a depth frame that    *)
(*   arrives BEFORE the first confirmation is discarded, one that arrives  *)
(*   between the first and the last expected confirmation is buffered      *)
(*   (Binance: expected_responses = 1, so nothing is ever buffered)        *)
(*   -> REST snapshots -> Transformer::init(map, snapshots)                *)
(*   -> process_buffered_events(transformer, buffered): every buffered     *)
(*      frame goes through the sequencer (Dropped / Admitted / Error)      *)
(*   -> the consumer is handed the snapshot events and the admitted        *)
(*      buffered updates.                                                  *)
(* What the consumer receives, per instrument and IN ORDER, is state       *)
(* (`emitted`); the local book is the fold of it (ConsumerFold), and       *)
(* BookValid speaks about that book.  The specification's emission order   *)
(* is snapshot first (InitOrder = "snapshot-first"); the other order is    *)
(* kept as a constant only so that TLC can show it violates BookValid.     *)
(***************************************************************************)
EXTENDS Integers, Sequences, FiniteSets, TLC

CONSTANTS INSTR,       \* instruments sharing one connection
          PRICE, AMOUNT,
          RULES,       \* subset of {"Spot", "Futures"}
          EVOLUTIONS,  \* set of change sequences  <<[side, p, a], ...>>  (all of one length M)
          MaxEvents,   \* most diff events an evolution is grouped into
          MaxDeliver,  \* MC bound: deliveries per behaviour
          MaxReinit,   \* MC bound: re-initialisations per behaviour
          EXPECTED,    \* MC: possible numbers of expected subscription confirmations (Binance: {1})
          MaxBuf,      \* MC bound: frames buffered during one subscription validation
          InitOrder    \* "snapshot-first" (the specification) | "buffered-first" (negative test only)

VARIABLES rule,        \* "Spot" | "Futures"
          chg,         \* [INSTR -> evolution]
          cut,         \* [INSTR -> strictly increasing sequence of u_k, last = M]
          snap,        \* [INSTR -> snapshot id S of the current connection]
          sq,          \* [INSTR -> [processed, lastId, status]]  the sequencer (+ error latch)
          book,        \* [INSTR -> [bids, asks, seq]]            the local book
          expected,    \* confirmations the validator waits for (fixed per behaviour)
          emitted,     \* [INSTR -> what the consumer received on this connection, in order]
          conn,        \* "up" | "down"  (shared connection)
          notices,     \* reconnect notices emitted so far
          nreinit,     \* re-initialisations so far
          ndeliv,      \* deliveries so far (bound only)
          admitted,    \* ghost: [INSTR -> sequence of event indices admitted on this connection]
          clean,       \* ghost: [INSTR -> [phase, next]] is the delivery so far a clean one?
          last         \* observation: the step that produced this state

vars == <<rule, chg, cut, snap, sq, book, expected, emitted, conn, notices, nreinit, ndeliv, admitted, clean, last>>

\* the local book is an OrderBook; pure operators of that module are used through OB
OB == INSTANCE OrderBook WITH bids <- << >>, asks <- << >>, seq <- 0, last <- 0,
                              SEQS <- {0}, MaxLong <- 0, MaxShort <- 0, MaxSnap <- 0, StableUpTo <- 20

(***************************************************************************)
(* Ground truth                                                            *)
(***************************************************************************)
Lv(p, a) == [p |-> p, a |-> a]
LenM(i)  == Len(chg[i])
NEv(i)   == Len(cut[i])
EvU(i, k)  == IF k = 1 THEN 1 ELSE cut[i][k - 1] + 1        \* "U"  first update id in event
Evu(i, k)  == cut[i][k]                                     \* "u"  final update id in event
Evpu(i, k) == IF k = 1 THEN 0 ELSE cut[i][k - 1]            \* "pu" final update id of previous event

RECURSIVE TruthOf(_, _)
TruthOf(ch, n) ==
  IF n = 0 THEN OB!MkBook(OB!EmptyMap, OB!EmptyMap, 0)
  ELSE LET b == TruthOf(ch, n - 1)  c == ch[n]
       IN CASE c.side = "b" -> OB!MkBook(OB!ApplyLevel(b.bids, Lv(c.p, c.a)), b.asks, n)
            [] c.side = "a" -> OB!MkBook(b.bids, OB!ApplyLevel(b.asks, Lv(c.p, c.a)), n)
            [] OTHER        -> OB!MkBook(b.bids, b.asks, n)          \* side "n": no level changes
Truth(i, n) == TruthOf(chg[i], n)

AmountAt(m, p) == IF p \in DOMAIN m THEN m[p] ELSE 0
Touched(i, k, side) == {chg[i][j].p : j \in {x \in EvU(i, k)..Evu(i, k) : chg[i][x].side = side}}

RECURSIVE AscSeq(_)
AscSeq(S) == IF S = {} THEN << >> ELSE LET x == CHOOSE y \in S : \A z \in S : y <= z IN <<x>> \o AscSeq(S \ {x})

\* absolute amounts at u_k of the levels the event touched (0 = level gone)
EvList(i, k, side) ==
  LET t == Truth(i, Evu(i, k))  m == IF side = "b" THEN t.bids ELSE t.asks  ps == AscSeq(Touched(i, k, side))
  IN [j \in DOMAIN ps |-> Lv(ps[j], AmountAt(m, ps[j]))]

Event(i, k) == [i |-> i, k |-> k, U |-> EvU(i, k), u |-> Evu(i, k), pu |-> Evpu(i, k),
                b |-> EvList(i, k, "b"), a |-> EvList(i, k, "a")]

\* all groupings of ids 1..m into at most n contiguous events
Cuts(m, n) == {c \in UNION {[1..k -> 1..m] : k \in 1..n} :
                 /\ c[Len(c)] = m
                 /\ \A j \in 1..(Len(c) - 1) : c[j] < c[j + 1]}

(***************************************************************************)
(* The sequencers (validate_sequence), rule by rule                        *)
(***************************************************************************)
\* step 4: drop                spot: u <= lastUpdateId            futures: u < lastUpdateId
Stale(r, e, s) == IF r = "Spot" THEN e.u <= s.lastId ELSE e.u < s.lastId
\* step 5: first update        spot: U <= lastUpdateId+1 <= u     futures: U <= lastUpdateId <= u
FirstOK(r, e, s) == IF r = "Spot" THEN e.U <= s.lastId + 1 /\ e.u >= s.lastId + 1
                                  ELSE e.U <= s.lastId /\ e.u >= s.lastId
\* step 6: next update         spot: U = previous u + 1           futures: pu = previous u
NextOK(r, e, s) == IF r = "Spot" THEN e.U = s.lastId + 1 ELSE e.pu = s.lastId

Outcome(r, e, s) ==
  IF Stale(r, e, s) THEN "Dropped"
  ELSE IF s.processed = 0 THEN (IF FirstOK(r, e, s) THEN "Admitted" ELSE "Error")
  ELSE (IF NextOK(r, e, s) THEN "Admitted" ELSE "Error")

Fresh(S) == [processed |-> 0, lastId |-> S, status |-> "ok"]

\* ghost automaton of "a gap-free in-order delivery preceded by strictly older messages"
Older(r, i, k, S) == IF r = "Spot" THEN Evu(i, k) <= S ELSE Evu(i, k) < S
Covers(r, i, k, S) == IF r = "Spot" THEN EvU(i, k) <= S + 1 /\ S + 1 <= Evu(i, k)
                                    ELSE EvU(i, k) <= S /\ S <= Evu(i, k)
CleanStart == [phase |-> "pre", next |-> 0]
CleanStep(c, r, i, k, S) ==
  CASE c.phase = "pre" -> IF Older(r, i, k, S) THEN c
                          ELSE IF Covers(r, i, k, S) THEN [phase |-> "run", next |-> k + 1]
                          ELSE [phase |-> "dirty", next |-> 0]
    [] c.phase = "run" -> IF k = c.next THEN [phase |-> "run", next |-> k + 1] ELSE [phase |-> "dirty", next |-> 0]
    [] OTHER           -> c

(***************************************************************************)
(* Behaviour                                                               *)
(***************************************************************************)
Obs(a, i, k, out) == [a |-> a, i |-> i, k |-> k, out |-> out]

(***************************************************************************)
(* What the consumer receives.  "S": snapshot event (k = snapshot id),     *)
(* "U": update built from event k, "E": the sequence error raised by k.    *)
(***************************************************************************)
EItem(t, i, k) == [t |-> t, i |-> i, k |-> k]

\* OrderBook::update applied by the consumer (event lists built from the ground truth never repeat a
\* price, so the update has exactly one result)
ApplyItem(b, it) ==
  CASE it.t = "S" -> Truth(it.i, it.k)                         \* *self = snapshot
    [] it.t = "U" -> LET e == Event(it.i, it.k) IN CHOOSE nb \in OB!UpdateResults(b, e.b, e.a, e.u) : TRUE
    [] OTHER      -> b
RECURSIVE FoldItems(_, _)
FoldItems(b, items) == IF items = << >> THEN b ELSE FoldItems(ApplyItem(b, Head(items)), Tail(items))

(***************************************************************************)
(* Establishing a connection with snapshot ids S after `buf` = the frames  *)
(* <<[i, k], ..>> the validator buffered: Transformer::init, then          *)
(* process_buffered_events runs every buffered frame through the sequencer.*)
(* (After an Error the consumer sees nothing more of this connection.)     *)
(***************************************************************************)
Frame(i, k) == [i |-> i, k |-> k]

ConnStart(S) == [sq |-> [i \in INSTR |-> Fresh(S[i])],                  \* Sequencer::new(snapshot.sequence)
                 res |-> [i \in INSTR |-> << >>],
                 admitted |-> [i \in INSTR |-> << >>],
                 clean |-> [i \in INSTR |-> CleanStart],
                 down |-> FALSE]

StepBuffered(st, S, f) ==
  IF st.down THEN st
  ELSE LET i == f.i  k == f.k  e == Event(i, k)  o == Outcome(rule, e, st.sq[i])
           cl == [st.clean EXCEPT ![i] = CleanStep(@, rule, i, k, S[i])]
       IN CASE o = "Dropped"  -> [st EXCEPT !.clean = cl]
            [] o = "Admitted" -> [st EXCEPT !.clean = cl,
                                            !.sq[i] = [processed |-> @.processed + 1, lastId |-> e.u, status |-> "ok"],
                                            !.res[i] = Append(@, EItem("U", i, k)),
                                            !.admitted[i] = Append(@, k)]
            [] OTHER          -> [st EXCEPT !.clean = cl, !.sq[i].status = "err",
                                            !.res[i] = Append(@, EItem("E", i, k)), !.down = TRUE]

RECURSIVE RunBuffered(_, _, _)
RunBuffered(st, S, buf) == IF buf = << >> THEN st ELSE RunBuffered(StepBuffered(st, S, Head(buf)), S, Tail(buf))

\* the connection as the consumer finds it; prev = the books the consumer held before
Connected(S, buf, prev) ==
  LET st == RunBuffered(ConnStart(S), S, buf)
      em == [i \in INSTR |-> IF InitOrder = "snapshot-first" THEN <<EItem("S", i, S[i])>> \o st.res[i]
                                                               ELSE st.res[i] \o <<EItem("S", i, S[i])>>]
  IN [sq |-> st.sq, emitted |-> em, admitted |-> st.admitted, clean |-> st.clean,
      book |-> [i \in INSTR |-> FoldItems(prev[i], em[i])],
      conn |-> IF st.down THEN "down" ELSE "up",
      notice |-> IF st.down THEN 1 ELSE 0]

ValidBuffer(x, buf) == /\ (x = 1 => buf = << >>)                       \* validation ends with the first confirmation
                       /\ \A j \in DOMAIN buf : buf[j].i \in INSTR /\ buf[j].k \in 1..NEv(buf[j].i)

NoBooks == [i \in INSTR |-> OB!MkBook(OB!EmptyMap, OB!EmptyMap, 0)]   \* OrderBook::default()

InitWithBuf(r, ch, ct, S, x, buf) ==
  /\ rule = r /\ chg = ch /\ cut = ct /\ snap = S /\ expected = x
  /\ ValidBuffer(x, buf)
  /\ LET c == Connected(S, buf, NoBooks) IN
       /\ sq = c.sq /\ book = c.book /\ emitted = c.emitted /\ admitted = c.admitted /\ clean = c.clean
       /\ conn = c.conn /\ notices = c.notice
  /\ nreinit = 0 /\ ndeliv = 0
  /\ last = Obs("Init", "", 0, "")

InitWith(r, ch, ct, S) == InitWithBuf(r, ch, ct, S, 1, << >>)

M == Len(CHOOSE e \in EVOLUTIONS : TRUE)      \* (bounded runs: all evolutions have one length)

Frames == {Frame(i, k) : i \in INSTR, k \in 1..MaxEvents}
Bufs == UNION {[1..n -> Frames] : n \in 0..MaxBuf}

Init == \E r \in RULES, ch \in [INSTR -> EVOLUTIONS], ct \in [INSTR -> Cuts(M, MaxEvents)], S \in [INSTR -> 0..M],
           x \in EXPECTED, buf \in Bufs :
          InitWithBuf(r, ch, ct, S, x, buf)

Deliverable(i, k) == conn = "up" /\ k \in 1..NEv(i)

Ghosts(i, k, out) ==
  /\ clean' = [clean EXCEPT ![i] = CleanStep(@, rule, i, k, snap[i])]
  /\ ndeliv' = ndeliv + 1
  /\ last' = Obs("Deliver", i, k, out)
  /\ UNCHANGED <<rule, chg, cut, snap, nreinit, expected>>

\* Ok(None): the transformer emits nothing
DeliverDropped(i, k) ==
  /\ Deliverable(i, k)
  /\ Outcome(rule, Event(i, k), sq[i]) = "Dropped"
  /\ UNCHANGED <<sq, book, emitted, conn, notices, admitted>>
  /\ Ghosts(i, k, "Dropped")

\* Ok(Some(update)): metadata advances, OrderBookEvent::Update(OrderBook::new(u, .., bids, asks))
\* is emitted and applied to the instrument's local book
DeliverAdmitted(i, k) ==
  /\ Deliverable(i, k)
  /\ Outcome(rule, Event(i, k), sq[i]) = "Admitted"
  /\ LET e == Event(i, k) IN
       /\ sq' = [sq EXCEPT ![i] = [processed |-> @.processed + 1, lastId |-> e.u, status |-> "ok"]]
       /\ \E nb \in OB!UpdateResults(book[i], e.b, e.a, e.u) : book' = [book EXCEPT ![i] = nb]
  /\ admitted' = [admitted EXCEPT ![i] = Append(@, k)]
  /\ emitted' = [emitted EXCEPT ![i] = Append(@, EItem("U", i, k))]
  /\ UNCHANGED <<conn, notices>>
  /\ Ghosts(i, k, "Admitted")

\* Err(DataError::InvalidSequence): metadata untouched, nothing applied; the error is terminal:
\* the connection ends and exactly one reconnect notice is emitted
DeliverError(i, k) ==
  /\ Deliverable(i, k)
  /\ Outcome(rule, Event(i, k), sq[i]) = "Error"
  /\ sq' = [sq EXCEPT ![i].status = "err"]
  /\ conn' = "down" /\ notices' = notices + 1
  /\ emitted' = [emitted EXCEPT ![i] = Append(@, EItem("E", i, k))]
  /\ UNCHANGED <<book, admitted>>
  /\ Ghosts(i, k, "Error")

\* the (re)connection: new snapshots (any ids), new transformer, buffered frames processed, the
\* consumer receives the snapshot events (which replace its books) and the admitted updates
ReinitWithBuf(S, buf) ==
  /\ conn = "down"
  /\ ValidBuffer(expected, buf)
  /\ snap' = S
  /\ LET c == Connected(S, buf, book) IN
       /\ sq' = c.sq /\ book' = c.book /\ emitted' = c.emitted /\ admitted' = c.admitted /\ clean' = c.clean
       /\ conn' = c.conn /\ notices' = notices + c.notice
  /\ nreinit' = nreinit + 1
  /\ last' = Obs("Reinit", "", 0, "")
  /\ UNCHANGED <<rule, chg, cut, ndeliv, expected>>

ReinitWith(S) == ReinitWithBuf(S, << >>)

Dropped  == \E i \in INSTR : \E k \in 1..NEv(i) : ndeliv < MaxDeliver /\ DeliverDropped(i, k)
Admitted == \E i \in INSTR : \E k \in 1..NEv(i) : ndeliv < MaxDeliver /\ DeliverAdmitted(i, k)
Error    == \E i \in INSTR : \E k \in 1..NEv(i) : ndeliv < MaxDeliver /\ DeliverError(i, k)
Reinit   == /\ nreinit < MaxReinit
            /\ \E S \in [INSTR -> 0..M], buf \in Bufs : ReinitWithBuf(S, buf)

Next == Dropped \/ Admitted \/ Error \/ Reinit

Spec == Init /\ [][Next]_vars

(***************************************************************************)
(* The property C06                                                        *)
(***************************************************************************)
TypeOK ==
  /\ rule \in {"Spot", "Futures"}
  /\ conn \in {"up", "down"}
  /\ \A i \in INSTR : /\ sq[i].status \in {"ok", "err"}
                      /\ sq[i].lastId \in 0..LenM(i)
                      /\ snap[i] \in 0..LenM(i)
                      /\ book[i].seq = sq[i].lastId

LastOf(s) == s[Len(s)]

\* the admitted updates form an unbroken chain under the venue's rule, anchored at the snapshot
Chain == \A i \in INSTR :
  LET ad == admitted[i] IN
  /\ \A j \in 1..(Len(ad) - 1) : ad[j + 1] = ad[j] + 1
  /\ (Len(ad) > 0 => Covers(rule, i, ad[1], snap[i]))
  /\ sq[i].processed = Len(ad)
  /\ sq[i].lastId = (IF Len(ad) = 0 THEN snap[i] ELSE Evu(i, LastOf(ad)))

\* the book equals the exchange's book as of the sequence number it reports, or the consumer has
\* been told (status err / connection down / notice)
BookValid == \A i \in INSTR : sq[i].status = "ok" => book[i] = Truth(i, book[i].seq)
\* (stronger, also true: an error never touches the book)
BookNeverWrong == \A i \in INSTR : book[i] = Truth(i, sq[i].lastId)

\* the consumer's book is the fold, in emission order, of what it received on this connection
ConsumerFold == \A i \in INSTR : book[i] = FoldItems(OB!MkBook(OB!EmptyMap, OB!EmptyMap, 0), emitted[i])

\* ... which starts with the snapshot and continues with exactly the admitted updates
EmissionOrder == \A i \in INSTR :
  /\ Len(emitted[i]) >= 1 /\ emitted[i][1] = EItem("S", i, snap[i])
  /\ \A j \in 2..Len(emitted[i]) : emitted[i][j].t \in {"U", "E"} /\ (emitted[i][j].t = "E" => j = Len(emitted[i]))
  /\ [j \in 1..Len(admitted[i]) |-> emitted[i][j + 1].k] = admitted[i]

\* the local book is always a well-formed map
BookIsMap == \A i \in INSTR : OB!IsSide(book[i].bids) /\ OB!IsSide(book[i].asks)

\* exactly one notice per broken connection, and a broken connection delivers nothing more
Told == /\ notices = nreinit + (IF conn = "down" THEN 1 ELSE 0)
        /\ (conn = "up" <=> \A i \in INSTR : sq[i].status = "ok")

IsNextLink(i, k) == IF admitted[i] = << >> THEN Covers(rule, i, k, snap[i]) ELSE k = LastOf(admitted[i]) + 1

\* a break surfaces: an event that is neither stale nor the next link of the chain yields Error
\* (= DataError::InvalidSequence, is_terminal), which ends the connection with one notice;
\* only the next link is ever admitted; only stale events are ever dropped
BreakSurfacesA ==
  last'.a = "Deliver" =>
    LET i == last'.i  k == last'.k  stale == Stale(rule, Event(i, k), sq[i])  link == IsNextLink(i, k) IN
    /\ ~(stale /\ link)
    /\ (last'.out = "Dropped"  <=> stale)
    /\ (last'.out = "Admitted" <=> link)
    /\ (last'.out = "Error"    <=> ~stale /\ ~link)
    /\ (last'.out = "Error" => conn' = "down" /\ notices' = notices + 1 /\ sq'[i].status = "err"
                               /\ sq'[i].lastId = sq[i].lastId /\ sq'[i].processed = sq[i].processed)
    /\ (last'.out # "Error" => conn' = conn /\ notices' = notices)
    /\ conn = "up"

\* a gap-free in-order delivery, preceded by any number of strictly older messages, never errors
\* (and admits every event from the first covering one on)
CleanNeverErrors == \A i \in INSTR :
  clean[i].phase # "dirty" =>
    /\ sq[i].status = "ok"
    /\ (clean[i].phase = "pre" => admitted[i] = << >>)
    /\ (clean[i].phase = "run" => /\ Len(admitted[i]) > 0
                                  /\ LastOf(admitted[i]) = clean[i].next - 1
                                  /\ Covers(rule, i, admitted[i][1], snap[i]))

\* deliveries to one instrument never change another's sequencer or book
IsolationA ==
  last'.a = "Deliver" => \A j \in INSTR \ {last'.i} :
     /\ sq'[j] = sq[j] /\ book'[j] = book[j] /\ admitted'[j] = admitted[j] /\ clean'[j] = clean[j]

\* state advances only on admission
AdvanceOnlyOnAdmissionA ==
  last'.a = "Deliver" /\ last'.out # "Admitted" => book' = book /\ admitted' = admitted
                                                  /\ sq'[last'.i].lastId = sq[last'.i].lastId

StepProps == BreakSurfacesA /\ IsolationA /\ AdvanceOnlyOnAdmissionA

BreakSurfaces          == [][BreakSurfacesA]_vars
Isolation              == [][IsolationA]_vars
AdvanceOnlyOnAdmission == [][AdvanceOnlyOnAdmissionA]_vars

View == <<rule, chg, cut, snap, sq, book, expected, emitted, conn, notices, nreinit, ndeliv, admitted, clean>>
=============================================================================
