"""C06 - Binance L2 streams never leave a silently wrong local book (spec/BinanceL2.tla)."""
import json
import vlib

MODULE = "BinanceL2"
META = {
    "technique": "TLA+ model of exchange ground truth, diff-event grouping, snapshot point and arbitrary delivery "
                 "(drop/duplicate/swap/replay/late start) with the spot and USD-futures sequencer rules, model-checked "
                 "with TLC (Chain, BookValid, BreakSurfaces, CleanNeverErrors, Isolation); scenarios replayed into the "
                 "real transformers (JSON payloads -> WebSocketParser -> Transformer::transform -> OrderBook::update), "
                 "also through ExchangeStream + with_termination_on_error + with_reconnection_events, and through the real "
                 "ExchangeWsStream::init (subscribe / validate / snapshot / process_buffered_events) over a loopback websocket "
                 "with Binance's own connector settings; random perturbation traces validated step by step by TLC",
}
ASSUMPTIONS = [
    "exchange update ids are contiguous per instrument (U_{k+1} = u_k + 1 and pu_{k+1} = u_k), each diff event carries "
    "the absolute amounts at u_k of every level touched by its ids; a REST snapshot equals the exchange book at its lastUpdateId",
    "after an Error the transformer is discarded and re-initialised from fresh snapshots, as the reconnecting stream does",
    "futures: a duplicate of the last admitted event (u = lastUpdateId) yields Error rather than a drop - allowed, it is "
    "not a clean delivery",
    "a clean delivery starts with the event covering snapshot id + 1 (spot) / snapshot id (futures); with the futures rule "
    "and a snapshot at id 0 no such event exists",
    "mode init runs the real ExchangeWsStream::init against a loopback websocket: the connector is Binance<Server> with a "
    "harness ExchangeServer (only the url differs), the REST snapshot comes from a scripted SnapshotFetcher, the transformer "
    "is a wrapper delegating init/transform to the real Binance transformers",
    "Binance's expected_responses is 1, so WebSocketSubValidator never buffers a depth frame (frames before the confirmation "
    "are discarded = a drop); the ordering of buffered outputs vs snapshot events in the generic init is therefore not "
    "reachable for Binance - it is exercised with a harness connector (trait-default expected_responses) as a labelled "
    "demonstration that is reported as a NOTE and never enters the verdict",
    "wire values: ids shifted by a per-world base (up to 2^62), prices / amounts scaled by powers of ten",
    "update ids may change no level of the book (side 'n'): events made only of such ids are depth updates with empty b and a, "
    "and they are links of the chain like any other",
    "three instruments share the transformer; the REST snapshots (modes direct/stream) resp. the subscriptions (mode init) are "
    "given in every one of the six orders (scenario n starts with permutation n mod 6, reconnects draw one)",
]
INSTR = ("i1", "i2", "i3")


def anomaly(line):
    if line.get("a") == "Reset":
        return None
    post = line.get("post")
    if str(line.get("out", "")).startswith("Anomaly"):
        return "harness anomaly: %s %s" % (line.get("out"), line.get("err") if line.get("err") != "none" else "")
    if not isinstance(post, dict):
        return "no post state"
    for i in INSTR:
        b, q = post["book"].get(i), post["sq"].get(i)
        if not isinstance(b, dict) or not isinstance(q, dict):
            return "instrument %s has no book / sequencer after the step (the consumer never received its snapshot)" % i
        for lv in b["bids"] + b["asks"]:
            if not isinstance(lv.get("p"), int) or not isinstance(lv.get("a"), int):
                return "non-integral level in spec units: %s" % json.dumps(lv)
    return None


def expected_outcome(rule, ev, sq):
    """Descriptive only (signature / message): the venue rule as the property states it."""
    U, u, pu, last, first = ev["U"], ev["u"], ev["pu"], sq["lastId"], sq["processed"] == 0
    if rule == "Spot":
        if u <= last:
            return "Dropped"
        ok = (U <= last + 1 <= u) if first else (U == last + 1)
    else:
        if u < last:
            return "Dropped"
        ok = (U <= last <= u) if first else (pu == last)
    return "Admitted" if ok else "Error"


def truth(chg, n):
    """Exchange book after changes 1..n as {bids, asks, seq} (replay files only: the REST snapshot contents)."""
    sides = {"b": {}, "a": {}}
    for c in chg[:n]:
        if c["side"] == "n":
            continue
        if c["a"] == 0:
            sides[c["side"]].pop(c["p"], None)
        else:
            sides[c["side"]][c["p"]] = c["a"]
    return {"bids": [{"p": p, "a": a} for p, a in sorted(sides["b"].items(), reverse=True)],
            "asks": [{"p": p, "a": a} for p, a in sorted(sides["a"].items())], "seq": n}


def scenario_of(seg):
    """Rebuild a replayable scenario from a trace segment (Reset .. offending line)."""
    w = seg[0]["world"]
    world = {i: {"chg": w["chg"][i], "cut": w["cut"][i], "events": w["events"][i]} for i in INSTR}
    steps, first = [], True
    for l in seg[1:]:
        if l["a"] == "Connect":
            steps.append({"a": "Init" if first else "Reinit", "snap": l["snap"], "pre": l["pre"], "buf": l["buf"], "order": l.get("order", []),
                          "books": {i: truth(w["chg"][i], l["snap"][i]) for i in INSTR}})
            first = False
        else:
            steps.append({"a": "Deliver", "i": l["i"], "k": l["k"]})
    return {"rule": w["rule"], "expected": w.get("expected", 1), "world": world, "steps": steps}


def emission_kind(line):
    for i in INSTR:
        ts = [e["t"] for e in line.get("emit", []) if e.get("i") == i]
        if "S" in ts and ts.index("S") > 0:
            return "update-emitted-before-snapshot"
        if "S" not in ts:
            return "no-snapshot-emitted"
    return "state"


def validate(ctx, traces, label, variant="binance"):
    """traces: [(mode, path)]; the traces of all modes are validated in ONE TLC run (every segment starts
    with its own Reset line) and rejected lines are mapped back to their mode."""
    keep_all, origin = [], []
    for mode, path in traces:
        lines = ctx.read_trace(path)
        clean = ctx.path("clean_%s_%s.ndjson" % (label.replace("/", "_"), mode))
        found, keep = ctx.screen_anomalies(lines, clean, anomaly)
        for n, d, seg in found:
            ctx.violation("anomaly:" + d.split(":")[0][:60], "%s [%s/%s, line %d]" % (d, label, mode, n),
                          {"mode": mode, "variant": variant, "scenario": scenario_of(seg)})
        keep_all += keep
        origin += [mode] * len(keep)
    joined = ctx.path("clean_%s_all.ndjson" % label.replace("/", "_"))
    with open(joined, "w") as f:
        for l in keep_all:
            f.write(json.dumps(l) + "\n")
    n, bad, truncated = ctx.tlc_trace("Trace_" + MODULE, "Trace_" + MODULE + ".cfg", joined, timeout=1500)
    for b in bad:
        seg = ctx.segment(keep_all, b)
        line, mode = keep_all[b - 1], origin[b - 1]
        rule = seg[0]["world"]["rule"] if isinstance(seg[0].get("world"), dict) else "?"
        pre = seg[-2].get("post") if len(seg) >= 2 else None
        if line["a"] == "Deliver" and isinstance(pre, dict) and rule != "?":
            ev = seg[0]["world"]["events"][line["i"]][line["k"] - 1]
            sq = pre["sq"][line["i"]]
            exp = expected_outcome(rule, ev, sq)
            what = "outcome" if exp != line["out"] else "state"
            sig = "trace:%s:%s:%s:%s->%s" % (rule, "first" if sq["processed"] == 0 else "next", what, exp, line["out"])
            desc = ("%s rule, instrument %s sequencer %s book seq %s, event k=%d U=%d u=%d pu=%d -> observed %s%s, consumer received %s, "
                    "post %s; the venue rule gives %s - not a step BinanceL2 allows [%s/%s, line %d]") % (
                rule, line["i"], json.dumps(sq), pre["book"][line["i"]]["seq"], line["k"], ev["U"], ev["u"], ev["pu"], line["out"],
                "" if line["err"] == "none" else " (%s, terminal=%s)" % (line["err"], line["term"]), json.dumps(line["emit"]),
                json.dumps({"book": line["post"]["book"][line["i"]], "sq": line["post"]["sq"][line["i"]], "conn": line["post"]["conn"],
                            "notices": line["post"]["notices"]}), exp, label, mode, b)
        else:
            sig = "trace:%s:%s:%s" % (rule, line["a"], emission_kind(line) if line["a"] == "Connect" else "world")
            desc = ("%s rule, %s with snapshots %s, frames before the confirmation %s, buffered frames %s -> consumer received %s and holds %s: "
                    "not what BinanceL2 allows [%s/%s, line %d]") % (
                rule, line["a"], json.dumps(line.get("snap")), json.dumps(line.get("pre")), json.dumps(line.get("buf")),
                json.dumps(line.get("emit")), json.dumps(line.get("post"))[:500], label, mode, b)
        ctx.violation(sig, desc, {"mode": mode, "variant": variant, "scenario": scenario_of(seg)})
    ctx.cov["traces_validated_against_impl"] += sum(1 for l in keep_all if l.get("a") == "Reset")
    return n


def check_results(ctx, results_path, scns, mode, label):
    for r in ctx.read_results(results_path):
        if r.get("ok"):
            continue
        ev = r.get("event") or {}
        err = r.get("error", "")
        kind = err.split(":")[0].split("[")[0]
        ctx.violation("replay:%s:%s:%s" % (r.get("rule"), ev.get("a"), "outcome %s" % err.split(": ", 1)[-1] if kind == "outcome" else kind),
                      "%s rule, state %s, step %s: %s [%s scenario %d step %s]" % (
                          r.get("rule"), json.dumps(r.get("pre"))[:700], json.dumps({k: ev.get(k) for k in ("a", "i", "k", "out", "snap") if k in ev}),
                          err, label, r["scn"], r.get("step")),
                      {"mode": mode, "variant": "binance", "scenario": scns[r["scn"]]})


MODES = ("direct", "stream", "init")


def validate_all(ctx, traces, label, variant="binance"):
    """quick: one TLC run for the traces of all modes; thorough: one per mode (the traces are large)."""
    if ctx.quick or len(traces) == 1:
        validate(ctx, traces, label, variant)
    else:
        for t in traces:
            validate(ctx, [t], label + "-" + t[0], variant)


def run_scenarios(ctx, scn_path, scns, modes, label, variant="binance"):
    traces = []
    for mode in modes:
        res, tr = ctx.path("results_%s_%s.ndjson" % (label, mode)), ctx.path("trace_%s_%s.ndjson" % (label, mode))
        ctx.harness("c06", "run", "--scenarios", scn_path, "--results", res, "--trace", tr, "--mode", mode, "--variant", variant,
                    "--seed", ctx.seed)
        check_results(ctx, res, scns, mode, label + "/" + mode)
        traces.append((mode, tr))
        ctx.cov["scenarios_replayed"] += len(scns)
    validate_all(ctx, traces, label, variant)


def spec_rejects_wrong_emission_order(ctx):
    """Self-test of the specification: with the emission order 'buffered updates before the snapshot event'
    TLC must find BookValid violated (else BookValid would not speak about the consumer's book)."""
    rc, out, dt = ctx._tlc("MC_" + MODULE, "MC_BinanceL2_initbad.cfg", [], 2, 600, tag="neg")
    if "Invariant BookValid is violated" not in out:
        raise vlib.ToolError("the buffered-first emission order does not violate BookValid in MC_BinanceL2_initbad.cfg\n" + out[-2000:])
    ctx.cov["tlc_runs"].append({"module": "MC_" + MODULE, "cfg": "MC_BinanceL2_initbad.cfg", "mode": "negative test",
                                "expected": "Invariant BookValid is violated", "observed": True, "wall_s": round(dt, 2)})
    vlib.log("TLC MC_BinanceL2_initbad.cfg: BookValid violated by the buffered-first emission order, as it must be (%.0fs)" % dt)


def latent_generic_init_order(ctx):
    """DEMONSTRATION, never part of the verdict: the generic ExchangeWsStream::init queues the outputs of
    process_buffered_events BEFORE the snapshot events. Unreachable for Binance (expected_responses = 1: the
    validator never buffers); shown here with a harness connector that waits for one confirmation per
    subscription (the trait default), so that frames between two confirmations are buffered."""
    try:
        p, scns = ctx.tlc_gen("Gen_" + MODULE, "GenI_BinanceL2.cfg", "buffered.ndjson", timeout=600)
        res, tr = ctx.path("results_buffered.ndjson"), ctx.path("trace_buffered.ndjson")
        info = ctx.harness("c06", "run", "--scenarios", p, "--results", res, "--trace", tr, "--mode", "init", "--variant", "multi",
                           "--seed", ctx.seed)
        bad = [r for r in ctx.read_results(res) if not r.get("ok")]
        order = sum(1 for l in ctx.read_trace(tr) if l.get("a") == "Connect" and emission_kind(l) != "state")
        note = {"scenarios": len(scns), "diverging": len(bad), "connections_with_wrong_emission_order": order,
                "buffered_frames": info.get("arms", {}).get("frames_buffered"),
                "example": ({"rule": bad[0].get("rule"), "step": bad[0].get("event"), "error": bad[0].get("error")} if bad else None),
                "where": "barter-data/src/lib.rs ExchangeWsStream::init: process_buffered_events(..) then processed.extend(initial_snapshots)",
                "reachable_for_binance": False}
        ctx.cov["latent_generic_init_order"] = note
        if bad:
            print("NOTE property=C06 (not a violation; unreachable with Binance's expected_responses = 1): with a connector that buffers "
                  "frames during subscription validation, %d of %d scenarios diverge - %d connection(s) hand the consumer an admitted buffered "
                  "update BEFORE the snapshot event (or no snapshot at all after a buffered sequence error)" % (len(bad), len(scns), order), flush=True)
        else:
            vlib.log("demonstration variant (buffering connector): all %d scenarios agree with the specification" % len(scns))
    except vlib.ToolError as e:
        ctx.cov["latent_generic_init_order"] = {"tool_error": str(e)[:500]}
        vlib.log("demonstration variant skipped: %s" % str(e)[:200])


def check(ctx):
    ctx.assumptions += ASSUMPTIONS
    ctx.build("c06")
    # exhaustive: one instrument, fixed evolutions, reconnect (every action covered) ...
    ctx.tlc_mc("MC_" + MODULE, "MC_BinanceL2_actions.cfg", timeout=600)          # vacuity: every action taken (with -coverage)
    ctx.tlc_mc("MC_" + MODULE, "MC_BinanceL2.cfg", timeout=900, coverage=False)
    # ... connection establishment with buffered frames (expected confirmations 1 and 2); two instruments on one
    # connection; all evolutions of a small book (content x sequencing)
    ctx.tlc_mc("MC_" + MODULE, "MC_BinanceL2_init.cfg", timeout=900, coverage=False)
    spec_rejects_wrong_emission_order(ctx)
    if ctx.quick:
        ctx.tlc_mc("MC_" + MODULE, "MC_BinanceL2_two.cfg", timeout=900, coverage=False)
        ctx.tlc_mc("MC_" + MODULE, "MC_BinanceL2_content.cfg", timeout=900, coverage=False)
    else:
        ctx.tlc_mc("MC_" + MODULE, "MC_BinanceL2_two_thorough.cfg", timeout=1800, coverage=False)
        ctx.tlc_mc("MC_" + MODULE, "MC_BinanceL2_thorough.cfg", timeout=1800, coverage=False)
        ctx.tlc_mc("MC_" + MODULE, "MC_BinanceL2_long.cfg", timeout=1800, coverage=False)
    p_t, scn_t = ctx.tlc_gen("Gen_" + MODULE, "GenT_BinanceL2.cfg" if ctx.quick else "GenT_BinanceL2_thorough.cfg", "transitions.ndjson", timeout=900)
    nb = 100 if ctx.quick else 1000
    p_b, scn_b = ctx.tlc_gen("Gen_" + MODULE, "GenB_BinanceL2.cfg", "behaviours.ndjson", simulate=(nb, 50), timeout=1200)
    t0 = dict(scn_t[len(scn_t) // 2])
    ctx.sample({"kind": "TLC delivery sequence (one instrument, exhaustive)", "scenario": t0})
    b0 = dict(scn_b[0])
    b0["steps"] = b0["steps"][:6]
    ctx.sample({"kind": "TLC simulated behaviour, two instruments (first 6 of %d steps)" % len(scn_b[0]["steps"]), "scenario": b0})
    segments = 8 if ctx.quick else 120
    # (mode init = mode stream + the real connection establishment: the exhaustive set skips stream in quick)
    run_scenarios(ctx, p_t, scn_t, ("direct", "init") if ctx.quick else MODES, "transitions")
    run_scenarios(ctx, p_b, scn_b, MODES, "behaviours")
    traces = []
    for mode in MODES:
        out = ctx.path("trace_random_%s.ndjson" % mode)
        ctx.harness("c06", "random", "--seed", ctx.seed, "--segments", segments, "--trace", out, "--mode", mode)
        traces.append((mode, out))
    validate_all(ctx, traces, "random")
    latent_generic_init_order(ctx)
    return ctx.finish()


def replay(ctx, rp):
    ctx.build("c06")
    scn = ctx.path("replay_scn.ndjson")
    with open(scn, "w") as f:
        f.write(json.dumps(rp["scenario"]) + "\n")
    run_scenarios(ctx, scn, [rp["scenario"]], [rp["mode"]], "replay", rp.get("variant", "binance"))
    return ctx.finish(write_evidence=False)
