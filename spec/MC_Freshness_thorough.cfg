SPECIFICATION Spec
CONSTANTS
  ITEMS = {"bal0", "l1_0", "ord_c1"}
  TIMES = {1, 2, 3}
  VALUES = {7, 8}
INVARIANT Latest
PROPERTY NoRollback
CONSTRAINT Bound
VIEW View
CHECK_DEADLOCK FALSE
