//! The standard instrument universe used by engine-level drivers.
//!
//! Two exchanges x two underlyings:
//!   index 0: BinanceSpot btc/usdt   index 1: BinanceSpot eth/usdt
//!   index 2: Kraken      btc/usdt   index 3: Kraken      eth/usdt
//! (indices follow the builder's sort order; `world()` asserts them).
use barter::engine::state::{
    EngineState, global::DefaultGlobalData, instrument::data::DefaultInstrumentMarketData,
    trading::TradingState,
};
use barter_instrument::{
    Underlying,
    exchange::ExchangeId,
    index::IndexedInstruments,
    instrument::Instrument,
};

pub type State = EngineState<DefaultGlobalData, DefaultInstrumentMarketData>;

pub const EXCHANGES: [ExchangeId; 2] = [ExchangeId::BinanceSpot, ExchangeId::Kraken];

pub fn instruments() -> IndexedInstruments {
    let mut b = IndexedInstruments::builder();
    for (e, en) in [(ExchangeId::BinanceSpot, "binance_spot"), (ExchangeId::Kraken, "kraken")] {
        for (base, quote) in [("btc", "usdt"), ("eth", "usdt")] {
            b = b.add_instrument(Instrument::spot(
                e,
                format!("{en}_{base}_{quote}"),
                format!("{}{}", base.to_uppercase(), quote.to_uppercase()),
                Underlying::new(base, quote),
                None,
            ));
        }
    }
    b.build()
}

pub fn engine_state(trading: TradingState) -> State {
    let instruments = instruments();
    EngineState::builder(&instruments, DefaultGlobalData::default(), DefaultInstrumentMarketData::default)
        .time_engine_start(crate::util::time(0))
        .trading_state(trading)
        .build()
}
