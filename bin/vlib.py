"""Shared machinery of /verif/bin/check (python3 stdlib only).

Pipeline per property:  build harness -> TLC model-check the spec (invariants / action
properties, every action covered) -> TLC generates scenarios -> the Rust harness executes them
(and its own seeded random drivers) against /repo's working tree and records traces -> TLC
validates the traces against the spec (Trace_*.tla) -> evidence + exit code.

Exit codes: 0 held, 1 VIOLATION (line printed, replay file written), 2 tool error.
"""
import hashlib
import json
import os
import re
import shutil
import subprocess
import sys
import time

VERIF = os.path.dirname(os.path.dirname(os.path.abspath(__file__)))
SPEC = os.path.join(VERIF, "spec")
HARNESS = os.path.join(VERIF, "harness")
WORKROOT = os.path.join(VERIF, "work")
EVIDENCE = os.path.join(VERIF, "evidence")
KNOWN = os.path.join(VERIF, "known_findings.txt")
TRACE_JAVA_OPTS = "-Xss1g -Dtlc2.tool.queue.IStateQueue=StateDeque"


class ToolError(Exception):
    pass


def log(*a):
    print("[check]", *a, flush=True)


def run(cmd, cwd=None, env=None, timeout=None, check=False):
    e = dict(os.environ)
    if env:
        e.update(env)
    t0 = time.time()
    try:
        p = subprocess.run(cmd, cwd=cwd, env=e, stdout=subprocess.PIPE, stderr=subprocess.STDOUT,
                           timeout=timeout, text=True, errors="replace")
    except subprocess.TimeoutExpired as ex:
        raise ToolError("timeout after %ss: %s" % (timeout, " ".join(cmd[:6])))
    if check and p.returncode != 0:
        raise ToolError("command failed (%d): %s\n%s" % (p.returncode, " ".join(cmd), p.stdout[-4000:]))
    return p.returncode, p.stdout, time.time() - t0


class Violation:
    def __init__(self, sig, desc, replay):
        self.sig = sig          # stable signature used to match known findings
        self.desc = desc        # one line for humans
        self.replay = replay    # JSON-able object: enough to re-run the failing case


class Ctx:
    def __init__(self, pid, tier, seed):
        self.pid = pid
        self.tier = tier
        self.seed = seed
        self.t0 = time.time()
        self.work = os.path.join(WORKROOT, "%s.%d" % (pid, os.getpid()))
        shutil.rmtree(self.work, ignore_errors=True)
        os.makedirs(self.work, exist_ok=True)
        self.violations = []
        self.cov = {"states": 0, "transitions": 0, "traces_validated_against_impl": 0,
                    "samples": [], "tlc_runs": [], "harness_runs": [], "trace_events_validated": 0,
                    "scenarios_replayed": 0}
        self.assumptions = []
        self.quick = tier == "quick"

    def path(self, name):
        return os.path.join(self.work, name)

    # ------------------------------------------------------------------ build
    def build(self, *bins):
        cmd = ["cargo", "build", "--offline", "--quiet"]
        for b in bins:
            cmd += ["--bin", b]
        rc, out, dt = run(cmd, cwd=HARNESS, timeout=1800,
                          env={"CARGO_NET_OFFLINE": "true"})
        if rc != 0:
            raise ToolError("harness build failed (does /repo still compile?)\n" + out[-6000:])
        log("built %s in %.0fs" % (",".join(bins), dt))

    def harness(self, binname, *args, timeout=1200, env=None):
        # VERIF_HARNESS_BIN_DIR: survey-only override (bin/cov-survey runs instrumented copies of the
        # same binaries); registered commands never set it.
        exe = os.path.join(os.environ.get("VERIF_HARNESS_BIN_DIR") or os.path.join(HARNESS, "target", "debug"), binname)
        rc, out, dt = run([exe] + [str(a) for a in args], cwd=self.work, timeout=timeout, env=env)
        if rc != 0:
            raise ToolError("harness %s %s exited %d\n%s" % (binname, " ".join(map(str, args)), rc, out[-4000:]))
        last = [l for l in out.strip().splitlines() if l.startswith("{")]
        info = json.loads(last[-1]) if last else {}
        self.cov["harness_runs"].append({"bin": binname, "args": [str(a) for a in args], "wall_s": round(dt, 2), **info})
        return info

    # ------------------------------------------------------------------ TLC
    def _tlc(self, module, cfg, extra, workers, timeout, env=None, tag=""):
        meta = self.path("tlc_%s_%s" % (cfg.replace(".cfg", ""), tag))
        cmd = ["timeout", str(timeout), "tlc", "-workers", str(workers), "-metadir", meta, "-cleanup",
               "-noGenerateSpecTE", "-config", cfg] + extra + [module + ".tla"]
        env = dict(env or {})
        env["JAVA_TOOL_OPTIONS"] = (env.get("JAVA_TOOL_OPTIONS", "") + " -Xmx8g").strip()
        for attempt in (1, 2, 3):
            rc, out, dt = run(cmd, cwd=SPEC, env=env, timeout=timeout + 30)
            shutil.rmtree(meta, ignore_errors=True)
            if rc == 124:
                raise ToolError("TLC timed out after %ss on %s/%s" % (timeout, module, cfg))
            # TLC ended without a verdict (no completion line, no violation report): a transient tool
            # failure (seen rarely under heavy load). Keep its output and retry; never a verdict.
            finished = ("Model checking completed" in out or "violated" in out or "Finished in" in out
                        or "The number of states generated" in out)
            if finished:
                break
            os.makedirs(WORKROOT, exist_ok=True)
            with open(os.path.join(WORKROOT, "tlc_incomplete_%s_%d_%d.log" % (cfg.replace(".cfg", ""), os.getpid(), attempt)), "w") as f:
                f.write(" ".join(cmd) + "\n" + out)
            log("TLC run on %s/%s ended without a verdict (rc=%s), attempt %d - retrying" % (module, cfg, rc, attempt))
        return rc, out, dt

    def tlc_mc(self, module, cfg, timeout=600, workers=None, must_cover=True, ignore_uncovered=(), coverage=True):
        """Exhaustive model check; every invariant/property of the cfg must hold and every action
        must have been taken."""
        workers = workers or (6 if self.quick else 14)
        # (-coverage makes TLC up to 10x slower on specs with heavy action properties: such specs
        #  pass coverage=False for the big run and check action coverage on a small configuration)
        rc, out, dt = self._tlc(module, cfg, ["-coverage", "1"] if coverage else [], workers, timeout, tag="mc")
        must_cover = must_cover and coverage
        m = re.search(r"(\d+) states generated, (\d+) distinct states found, (\d+) states left", out)
        if "Model checking completed. No error has been found." not in out or not m:
            tail = "\n".join(l for l in out.splitlines() if not l.startswith(("  |", "  line")))[-5000:]
            os.makedirs(WORKROOT, exist_ok=True)
            with open(os.path.join(WORKROOT, "tlc_failed_%s_%d.log" % (cfg.replace(".cfg", ""), os.getpid())), "w") as f:
                f.write(out)
            raise ToolError("TLC did not verify %s with %s (spec-level failure: the *design* in the "
                            "specification admits a bad state, or a tool problem)\n%s" % (module, cfg, tail))
        actions = {}
        for a in re.finditer(r"^<(\w+) line \d+, col \d+ to line \d+, col \d+ of module (\w+)(?: \([\d ]+\))?>: (\d+):(\d+)", out, re.M):
            actions[a.group(1)] = actions.get(a.group(1), 0) + int(a.group(4))
        uncovered = [k for k, v in actions.items() if v == 0 and k not in ignore_uncovered]
        if must_cover and uncovered:
            raise ToolError("TLC never took action(s) %s in %s/%s (vacuous run)" % (uncovered, module, cfg))
        depth = re.search(r"depth of the complete state graph search is (\d+)", out)
        res = {"module": module, "cfg": cfg, "mode": "exhaustive", "states_generated": int(m.group(1)),
               "distinct_states": int(m.group(2)), "depth": int(depth.group(1)) if depth else None,
               "actions": actions, "wall_s": round(dt, 2)}
        self.cov["tlc_runs"].append(res)
        self.cov["states"] += res["distinct_states"]
        self.cov["transitions"] += res["states_generated"]
        log("TLC %s/%s: %d distinct states, %d transitions, %d actions covered, %.0fs" % (
            module, cfg, res["distinct_states"], res["states_generated"], len(actions), dt))
        return res

    def tlc_actions(self, module, cfg, expected, timeout=300):
        """Vacuity check without -coverage: dump the (small) state graph of `cfg` with action labels
        and require every action name in `expected` on at least one edge."""
        dot = self.path("graph_%s.dot" % cfg.replace(".cfg", ""))
        rc, out, dt = self._tlc(module, cfg, ["-dump", "dot,actionlabels", dot], 1, timeout, tag="dump")
        if "Model checking completed. No error has been found." not in out:
            raise ToolError("TLC failed on %s/%s\n%s" % (module, cfg, out[-3000:]))
        counts = {}
        with open(dot) as f:
            for m in re.finditer(r'-> -?\d+ \[label="(\w+)(?:\([^"]*\))?"', f.read()):
                counts[m.group(1)] = counts.get(m.group(1), 0) + 1
        os.remove(dot)
        missing = [a for a in expected if counts.get(a, 0) == 0]
        if missing:
            raise ToolError("TLC never took action(s) %s in %s/%s (vacuous run)" % (missing, module, cfg))
        self.cov["tlc_runs"].append({"module": module, "cfg": cfg, "mode": "action-coverage (state graph dump)",
                                     "actions": counts, "wall_s": round(dt, 2)})
        log("TLC %s/%s: actions on edges %s" % (module, cfg, counts))
        return counts

    def tlc_expect_violation(self, module, cfg, what, timeout=600):
        """Non-vacuity self-test: `cfg` is a deliberately weakened specification (e.g. fairness removed);
        TLC must find the stated violation. Anything else is a tool error."""
        rc, out, dt = self._tlc(module, cfg, [], 4, timeout, tag="neg")
        if what not in out or "Error:" not in out:
            raise ToolError("expected TLC to report '%s' for %s/%s (non-vacuity self-test) but it did not\n%s" % (what, module, cfg, out[-2500:]))
        self.cov["tlc_runs"].append({"module": module, "cfg": cfg, "mode": "negative self-test (violation expected and found)",
                                     "expected": what, "wall_s": round(dt, 2)})
        log("TLC %s/%s: expected violation found (%s)" % (module, cfg, what))

    def tlc_gen(self, module, cfg, out_name, simulate=None, timeout=600, tagline="SCN", dedup=True, workers=1):
        """Let TLC print behaviours as JSON lines `<<"SCN", "<json>">>`; returns the scenario list.
        simulate=(num, depth) uses random simulation seeded by VERIF_SEED, else exhaustive BFS."""
        extra = []
        if simulate:
            num, depth = simulate
            extra = ["-simulate", "num=%d" % num, "-depth", str(depth), "-seed", str(self.seed)]
        rc, out, dt = self._tlc(module, cfg, extra, workers, timeout, tag="gen")
        if "Error:" in out and "Invariant" not in out.split("Error:")[1][:200] and not simulate:
            raise ToolError("TLC generation failed for %s/%s\n%s" % (module, cfg, out[-3000:]))
        prefix = '<<"%s", "' % tagline
        seen, scns = set(), []
        for line in out.splitlines():
            if line.startswith(prefix) and line.endswith('">>'):
                s = line[len(prefix):-3]
                s = s.replace('\\"', '"').replace("\\\\", "\\")
                if dedup:
                    if s in seen:
                        continue
                    seen.add(s)
                scns.append(json.loads(s))
        if not scns:
            raise ToolError("TLC generated no scenarios for %s/%s\n%s" % (module, cfg, out[-3000:]))
        p = self.path(out_name)
        with open(p, "w") as f:
            for s in scns:
                f.write(json.dumps(s) + "\n")
        self.cov["tlc_runs"].append({"module": module, "cfg": cfg, "mode": "simulate" if simulate else "enumerate",
                                     "scenarios": len(scns), "wall_s": round(dt, 2)})
        log("TLC generated %d scenarios from %s/%s in %.0fs" % (len(scns), module, cfg, dt))
        return p, scns

    def tlc_trace(self, module, cfg, trace_path, timeout=900):
        """Validate a recorded trace. The trace spec prints <<"TRACE_DONE", diameter, len, bad>>.
        Returns (n_lines, bad_line_numbers[1-based])."""
        rc, out, dt = self._tlc(module, cfg, [], 1, timeout,
                                env={"TRACE": trace_path, "JAVA_TOOL_OPTIONS": TRACE_JAVA_OPTS}, tag="trace")
        m = re.search(r'<<"TRACE_DONE", (\d+), (\d+)>>', out)
        if not m:
            raise ToolError("trace validation of %s did not complete\n%s" % (trace_path, out[-4000:]))
        if "Model checking completed. No error has been found." not in out:
            raise ToolError("trace validation of %s: TLC reported an error\n%s" % (trace_path, out[-4000:]))
        diameter, n = int(m.group(1)), int(m.group(2))
        e = re.search(r'"TRACE_END",\s*"(.*?)"\s*>>', out, re.S)
        raw = json.loads(e.group(1).replace('\\"', '"').replace("\\\\", "\\")) if e else []
        # entries are line numbers, or [line, tags] for specs that attribute mismatches
        self.last_tags = {}
        bad = []
        for x in raw:
            if isinstance(x, list):
                bad.append(int(x[0]))
                self.last_tags[int(x[0])] = sorted(x[1])
            else:
                bad.append(int(x))
        if diameter != n + 1:
            # the trace could not be consumed to its end: first unmatched line = diameter
            bad = sorted(set(bad + [diameter]))
            if diameter > n + 1:
                raise ToolError("trace diameter %d exceeds trace length %d" % (diameter, n))
        self.cov["tlc_runs"].append({"module": module, "cfg": cfg, "mode": "trace-validation",
                                     "lines": n, "rejected_lines": len(bad), "wall_s": round(dt, 2)})
        self.cov["trace_events_validated"] += n
        log("TLC validated trace %s: %d lines, %d rejected, %.0fs" % (os.path.basename(trace_path), n, len(bad), dt))
        return n, bad, diameter != n + 1

    # ------------------------------------------------------------------ traces
    @staticmethod
    def read_results(path):
        """Pattern B: result lines written by a harness `replay` run."""
        with open(path) as f:
            return [json.loads(l) for l in f if l.strip()]

    @staticmethod
    def read_trace(path):
        with open(path) as f:
            return [json.loads(l) for l in f if l.strip()]

    @staticmethod
    def segment(lines, idx1, reset_field="a", reset_value="Reset"):
        """Lines of the segment containing 1-based line idx1: from the last reset up to idx1."""
        j = idx1 - 1
        start = j
        while start > 0 and lines[start].get(reset_field) != reset_value:
            start -= 1
        return lines[start:j + 1]

    def screen_anomalies(self, lines, out_path, anomaly_of, reset_value="Reset"):
        """Harness-side anomalies (panic / projection could not express the state) cannot be shown
        to TLC as well-typed states: record them here and cut the rest of their segment.
        anomaly_of(line) -> None | description. Returns list of (line_no, desc, segment)."""
        found, keep, skipping, seg = [], [], False, []
        for n, line in enumerate(lines, 1):
            if line.get("a") == reset_value:
                skipping, seg = False, []
            seg.append(line)
            if skipping:
                continue
            d = anomaly_of(line)
            if d:
                found.append((n, d, list(seg)))
                skipping = True
                continue
            keep.append(line)
        with open(out_path, "w") as f:
            for l in keep:
                f.write(json.dumps(l) + "\n")
        return found, keep

    # ------------------------------------------------------------------ results
    def violation(self, sig, desc, replay):
        self.violations.append(Violation(sig, desc, replay))

    def sample(self, obj):
        if len(self.cov["samples"]) < 4:
            self.cov["samples"].append(obj)

    def finish(self, level_text="", extra=None, write_evidence=True):
        known = load_known(self.pid)
        new, shown = [], set()
        for v in self.violations:
            k = next((k for k in known if k["sig"] == v.sig), None)
            if k:
                if k["sig"] not in shown:
                    print("KNOWN-FINDING: property=%s %s" % (self.pid, k["desc"]), flush=True)
                    shown.add(k["sig"])
            else:
                new.append(v)
        os.makedirs(EVIDENCE, exist_ok=True)
        cov = dict(self.cov)
        if extra:
            cov.update(extra)
        cov["exhaustive"] = any(r.get("mode") == "exhaustive" for r in cov["tlc_runs"])
        cov["exhaustive_note"] = "exhaustive for the bounded TLC model(s) listed in tlc_runs; implementation runs are sampled/enumerated scenarios validated against the spec"
        cov["checker_cmd"] = "bin/check %s --tier %s" % (self.pid, self.tier)
        ev = {"property_id": self.pid, "tier": self.tier, "seed": self.seed, "level": "model_checking",
              "coverage": cov, "assumptions": self.assumptions,
              "wall_s": round(time.time() - self.t0, 2), "violations": len(new),
              "known_findings_reported": sorted(shown)}
        rc = 0
        if new:
            rc = 1
            os.makedirs(os.path.join(VERIF, "replays"), exist_ok=True)
            by_sig = {}
            for v in new:
                by_sig.setdefault(v.sig, []).append(v)
            first = True
            for sig, vs in by_sig.items():
                h = hashlib.sha1(sig.encode()).hexdigest()[:10]
                rp = os.path.join(VERIF, "replays", "%s_%s.json" % (self.pid, h))
                with open(rp, "w") as f:
                    json.dump({"property": self.pid, "signature": sig, "count": len(vs),
                               "description": vs[0].desc, "replay": vs[0].replay}, f, indent=1)
                print("VIOLATION property=%s replay=%s" % (self.pid, rp), flush=True)
                print("  %s  (%d occurrence(s))" % (vs[0].desc, len(vs)), flush=True)
            ev["violation_signatures"] = sorted(by_sig)
        if write_evidence and os.environ.get("VERIF_NO_EVIDENCE") != "1":   # survey runs (bin/cov-survey, bin/mutant-run) leave evidence alone
            with open(os.path.join(EVIDENCE, "%s.json" % self.pid), "w") as f:
                json.dump(ev, f, indent=1)
        if os.environ.get("VERIF_KEEP_WORK") != "1":
            shutil.rmtree(self.work, ignore_errors=True)
        log("%s %s: %s in %.0fs" % (self.pid, self.tier, "HELD" if rc == 0 else "VIOLATED", time.time() - self.t0))
        return rc


def load_known(pid):
    """known_findings.txt lines:
         known: property=<id> sig=<signature> <what fails>
         fixed: property=<id> <commit> <what failed>        (suppresses nothing)"""
    out = []
    if not os.path.exists(KNOWN):
        return out
    for line in open(KNOWN):
        line = line.strip()
        m = re.match(r"known:\s+property=(\S+)\s+sig=(\S+)\s+(.*)", line)
        if m and m.group(1) == pid:
            out.append({"sig": m.group(2), "desc": m.group(3)})
    return out
