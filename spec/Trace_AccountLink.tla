------------------------- MODULE Trace_AccountLink -------------------------
(* Trace validation (impl -> spec) of the account link: every line recorded while the REAL            *)
(* `ExecutionManager::init` + `run` worked a scripted exchange client (harness/src/bin/acctlink.rs)    *)
(* must be a step of AccountLink.  All lines carry the same fields                                     *)
(*   a, at, k, v, ex, kex, idx, kind, xid, as, is                                                      *)
(*   {"a":"Reset", x, cc, pol, T, script, reqs, tab, rin}  a new scenario: the input of the spec; the  *)
(*                      name tables `tab` are read off the implementation's IndexedInstruments          *)
(*   {"a":"Subscribe","at":t}   the client's account_stream() was called at t                           *)
(*   {"a":"Wait","at":t}        ... after a failed attempt: the back-off sleep is over at t             *)
(*   {"a":"Early","v":v}        the exchange produced update v between subscription and snapshot       *)
(*   {"a":"Snap","at":t}        the client's account_snapshot() was called at t                          *)
(*   {"a":"Emit","k":Snapshot|Update|Notice|Resp, v, at, ex, kex, idx, kind, xid, as, is}              *)
(*                              the consumer of the merged stream received this at t (projection:      *)
(*                              emit_line in the harness)                                              *)
(*   {"a":"Accept","v":i,"at":t}  request i was handed to the manager at t                              *)
(*   {"a":"Stop","k":quiet|nostream|ended|noend}  how the observation ended: nothing for a long         *)
(*                              time / init returned an error / the stream ended although the          *)
(*                              manager was running / it did not end after the manager stopped         *)
(*   {"a":"Shutdown"} {"a":"Ended"}   the driver sent Shutdown; the merged stream ended                  *)
(* One line = one action of the spec (the spec's own action conjoined with the logged data).  The      *)
(* instants of the calls, the end of a wait, hand-over and responses must be exactly the spec's; the   *)
(* instant of a delivery on the account side may be any t not before its availability (Slack of the    *)
(* configuration is effectively unbounded).  A line that is no step of the spec is recorded in `bad`   *)
(* with the property that answers for it (`Why`):                                                      *)
(*   C12  order, loss, duplication, notice count, call order, back-off instants, never-ends            *)
(*   C14  the notice is due but names another ExchangeId than the instrument map's                     *)
(*   C07  a response is missing / late / duplicated / of the wrong kind (whatever the link does)       *)
(*   C04  the right item with wrong indices, an unindexable update delivered, a client of another      *)
(*        exchange accepted                                                                            *)
(* the rest of that scenario is skipped (the log carries no state to resynchronise on).               *)
EXTENDS AccountLink, Json, IOUtils

Rec == ndJsonDeserialize(IOEnv.TRACE)

VARIABLES l, bad, rej
tvars == <<vars, l, bad, rej>>

R == Rec[l]
Last(s) == s[Len(s)]

TInit == /\ l = 1 /\ bad = <<>> /\ rej = TRUE
         /\ script = <<>> /\ policy = [b0 |-> 0, mult |-> 1, max |-> 0]
         /\ tab = [ex |-> 0, xid |-> "none", assets |-> <<>>, insts |-> <<>>] /\ cc = "none"
         /\ reqs = <<>> /\ rin = "none"
         /\ phase = "Init" /\ pos = 0 /\ k = 0 /\ early = 0 /\ cur = 0 /\ fails = 0
         /\ lt = 0 /\ live = 0 /\ wake = 0 /\ now = 0 /\ born = 0 /\ mgr = "none" /\ ended = FALSE
         /\ acc = {} /\ done = {} /\ out = <<>> /\ calls = <<>> /\ waits = <<>>

\* Init of the spec, for the logged input
TReset == /\ R.a = "Reset"
          /\ script' = R.script /\ policy' = R.pol /\ tab' = R.tab /\ cc' = R.cc
          /\ reqs' = R.reqs /\ rin' = R.rin
          /\ phase' = "Init" /\ pos' = 0 /\ k' = 0 /\ early' = 0
          /\ cur' = R.pol.b0 /\ fails' = 0
          /\ lt' = 0 /\ live' = 0 /\ wake' = 0 /\ now' = 0
          /\ born' = 0 /\ mgr' = "none" /\ ended' = FALSE
          /\ acc' = {} /\ done' = {}
          /\ out' = <<>> /\ calls' = <<>> /\ waits' = <<>>
          \* a scenario the configuration cannot judge (another request timeout) is skipped and reported
          /\ rej' = (R.T # T)
          /\ bad' = IF R.T # T THEN Append(bad, <<l, {"harness"}>>) ELSE bad

IsReset == R.a = "Reset"
IsEmit(kd) == R.a = "Emit" /\ R.k = kd

Matches(o) == /\ o.k = R.k /\ o.v = R.v /\ o.ex = R.ex /\ o.kex = R.kex /\ o.idx = R.idx
              /\ o.kind = R.kind /\ o.xid = R.xid /\ o.as = Range(R.as) /\ o.is = Range(R.is)

TSubscribe == /\ R.a = "Subscribe" /\ R.at = lt
              /\ (Subscribe \/ SubscribeFails \/ InitPend)
TWait  == /\ R.a = "Wait" /\ R.at = wake
          /\ WaitElapsed
TEarly == /\ R.a = "Early"
          /\ UpdateArrivesBetweenSubscribeAndSnapshot
          /\ Body[early + 1].v = R.v
TSnap  == /\ R.a = "Snap" /\ R.at = lt
          /\ (FetchSnapshot \/ SnapshotFails)
TEmit  == /\ R.a = "Emit"
          /\ \/ R.k = "Snapshot" /\ EmitSnapshot(R.at)
             \/ R.k = "Update" /\ EmitUpdate(R.at)
             \/ R.k = "Notice" /\ ConnectionEnds(R.at)
             \/ R.k = "Resp" /\ R.v \in 1..Len(reqs) /\ ManagerResponse(R.v) /\ R.at = Due(R.v)
          /\ Matches(Last(out'))
TAccept == /\ R.a = "Accept" /\ R.v \in 1..Len(reqs)
           /\ Accept(R.v) /\ R.at = born + reqs[R.v].at
\* how the observation ended.  "quiet": only acceptable once everything scripted has happened - the
\* script is worked off (account_stream() pends) and every request handed over is answered; in
\* particular the stream must still be there (NeverEnds).  "nostream": init returned an error.
TStop == /\ R.a = "Stop"
         /\ \/ /\ R.k = "quiet" /\ phase = "Pend" /\ mgr = "running" /\ done = 1..Len(reqs)
               /\ UNCHANGED vars
            \/ /\ R.k = "nostream" /\ phase = "NoStream"
               /\ UNCHANGED vars
            \/ /\ R.k = "nostream" /\ ConfigRefused
TShutdown == R.a = "Shutdown" /\ Shutdown
TEnded    == R.a = "Ended" /\ StreamEnds

Step == TSubscribe \/ TWait \/ TEarly \/ TSnap \/ TEmit \/ TAccept \/ TStop \/ TShutdown \/ TEnded
Accept1 == Step /\ UNCHANGED <<l, bad, rej>>

(***************************************************************************)
(* Which property answers for a line that is no step of the spec.          *)
(***************************************************************************)
LinkLine == R.a \in {"Subscribe", "Wait", "Early", "Snap"} \/ (R.a = "Emit" /\ R.k \in {"Snapshot", "Update", "Notice"})
\* the line is the next step of its process, whatever its instant and payload
ShapeOK ==
    CASE R.a = "Subscribe" -> phase = "Init" /\ CfgOK
      [] R.a = "Wait"      -> phase = "Wait"
      [] R.a = "Early"     -> phase = "Subscribed" /\ early < NumEarly(Body) /\ Body[early + 1].v = R.v
      [] R.a = "Snap"      -> phase = "Subscribed" /\ early = NumEarly(Body)
      [] IsEmit("Snapshot") -> phase = "Snapped" /\ R.v = pos
      [] IsEmit("Update")   -> phase = "Conn" /\ HasGood /\ Body[NextGood].v = R.v
      [] IsEmit("Notice")   -> phase = "Conn" /\ ~HasGood
      [] IsEmit("Resp")     -> mgr = "running" /\ R.v \in acc \ done
      [] R.a = "Accept"     -> mgr = "running" /\ R.v \in (1..Len(reqs)) \ acc
      [] OTHER -> FALSE
\* ... at an instant its own process allows
TimeOK ==
    /\ R.at >= now
    /\ CASE R.a \in {"Subscribe", "Snap", "Early"} -> R.at = lt
         [] R.a = "Wait"       -> R.at = wake
         [] IsEmit("Snapshot") -> R.at >= lt
         [] IsEmit("Update")   -> R.at >= Max(lt, Avail(NextGood))
         [] IsEmit("Notice")   -> R.at >= Max(lt, CloseTime)
         [] IsEmit("Resp")     -> R.at = Due(R.v)
         [] R.a = "Accept"     -> R.at = born + reqs[R.v].at
         [] OTHER -> TRUE
Unindexable == IF phase = "Conn" THEN {Body[i].v : i \in {j \in (k + 1)..N : ~Known(Body[j])}} ELSE {}
ShapeTags ==
    IF IsEmit("Update") /\ R.v \in Unindexable THEN {"C04"}                \* an update the map cannot index was delivered
    ELSE IF IsEmit("Resp") \/ R.a = "Accept" THEN {"C07"}                  \* a second / phantom response
    ELSE IF R.a = "Subscribe" /\ phase = "Init" /\ pos = 0 /\ ~CfgOK THEN {"C04"}    \* a client of another exchange accepted
    ELSE {"C12"}
PayloadTags ==
    IF IsEmit("Notice") THEN {"C14"}
    ELSE IF IsEmit("Resp") /\ R.kind # RespKind(R.v) THEN {"C07"}
    ELSE IF R.a = "Emit" THEN {"C04"}
    ELSE {"C12"}
StopTags ==
    IF R.k = "quiet"
    THEN LET a == IF phase # "Pend" THEN {"C12"} ELSE {}
             b == IF mgr = "running" /\ done # 1..Len(reqs) THEN {"C07"} ELSE {}
         IN IF a \cup b = {} THEN {"C12"} ELSE a \cup b
    ELSE {"C12"}
Why ==
    IF R.a = "Stop" THEN StopTags
    ELSE IF R.a \in {"Shutdown", "Ended"} THEN {"C12"}
    ELSE IF ~ShapeOK THEN ShapeTags
    ELSE IF ~TimeOK THEN (IF LinkLine THEN {"C12"} ELSE {"C07"})
    \* in time for its own process, but something of the OTHER process is overdue
    ELSE IF ReqOverdue(R.at) THEN {"C07"}
    ELSE IF LinkOverdue(R.at) THEN {"C12"}
    ELSE PayloadTags

TStepOK  == /\ ~rej /\ ~IsReset
            /\ Step
            /\ UNCHANGED <<bad, rej>>
TStepBad == /\ ~rej /\ ~IsReset
            /\ ~ENABLED Accept1
            /\ bad' = Append(bad, <<l, Why>>) /\ rej' = TRUE
            /\ UNCHANGED vars
TSkip    == /\ rej /\ ~IsReset
            /\ UNCHANGED <<vars, bad, rej>>

TNext == /\ l <= Len(Rec)
         /\ l' = l + 1
         /\ (TReset \/ TStepOK \/ TStepBad \/ TSkip)

TSpec == TInit /\ [][TNext]_tvars

\* the formulas of the specification on the implementation's own behaviour (scripts beyond the model-checked bound)
TInv == rej \/ ( /\ InputOK /\ TypeOK /\ SnapshotFirst /\ Ordered /\ UpdatesInOrderOnce /\ IndexedRight /\ OnlyOwn
                 /\ NoUpdateLostAcrossSnapshot /\ OneNoticePerDrop /\ NoticeNames /\ FailedInitSilent
                 /\ Causal /\ TimeOrdered /\ BackoffClosedForm /\ BackoffTimes /\ WaitsClosedForm
                 /\ FirstFailure /\ NoStreamSilent /\ ResponsesOnce /\ ResponsesExact /\ NothingOverdue
                 /\ NeverEnds /\ Exhausted )

Done == l = Len(Rec) + 1 => PrintT(<<"TRACE_END", ToJson(bad)>>)
Post == PrintT(<<"TRACE_DONE", TLCGet("stats").diameter, Len(Rec)>>)
=============================================================================
