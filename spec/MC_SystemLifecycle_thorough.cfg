SPECIFICATION Spec
CONSTANTS
  EXCH = {"x1", "x2"}
  NMarket = 3
  CMDS = {"c1", "c2"}
  MaxAcct = 1
  MaxTakes = 2
  FEEDMODES = {"stream", "iter"}
  AUDITMODES = {"on", "off"}
  STOPS = {"shutdown", "abort", "backtest"}
  EarlyShutdown = FALSE
INVARIANTS TypeOK EngineAlive Fifo CommandsBeforeStop ShutdownLast BacktestDrains AllStopped AuditOnce AuditGapFree AuditComplete SeqCounts
PROPERTIES NothingAfterShutdown
CHECK_DEADLOCK FALSE
