SPECIFICATION Spec
CONSTANTS
  CID = {"c1", "c2", "c3"}
  QTY = {2}
  SV = {1, 2}
  TIME = {0, 1, 2}
  OID = {1}
INVARIANT TypeOK
PROPERTIES Becomes Stops Monotone Delivered Isolated Immutable InFlightOnlyWhenSaid
VIEW View
CHECK_DEADLOCK FALSE
