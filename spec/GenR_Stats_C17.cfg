SPECIFICATION G17R
CONSTANTS
  Instr = {}
  Asset = {}
  PnLs = {}
  Costs = {}
  Bals = {}
  Vals <- ValsWide
  MaxClosed = 0
  MaxBal = 0
  MaxVals = 8
  Gaps = {}
  RFs = {}
  Ivs = {}
INVARIANT Emit17
CHECK_DEADLOCK FALSE
