SPECIFICATION WideSpec
CONSTANTS
  CIDS = {"c1", "c2", "x"}
  EVENTS = {}
  ENVS = {}
  MaxSeq = 1
  Mode = "wide"
INVARIANTS ConnIff ConnInv
PROPERTIES ConnIndSpec Labelled ConnStepProps ConnHealedByNext ConnStep
VIEW View
CHECK_DEADLOCK FALSE
