SPECIFICATION Spec
CONSTANTS
  CID = {"c1", "c2"}
  MaxSends = 2
INVARIANTS TypeOK AtMostOnce InFlightBacked
PROPERTY Resolved
CHECK_DEADLOCK FALSE
