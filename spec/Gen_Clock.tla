------------------------------ MODULE Gen_Clock ------------------------------
(* Behaviour generation for the engine clock (spec -> impl): random behaviours *)
(* of Clock - new clocks, clones, events of every kind of the decision table   *)
(* (newer, equal, late, untimed; full account snapshots), wall-clock advances  *)
(* - each step carrying what the specification expects of EVERY handle after   *)
(* it: the object it refers to (aliasing), the exchange time held (ex), the    *)
(* restart count (gen: the binding takes the elapsed part from its own         *)
(* measurement of the step at which gen last changed), live and the reading    *)
(* Time(h) in spec units (Time - ex = the ticks the elapsed part must at least *)
(* show: a WallAdvance(d) is a sleep of d ticks), and rel = how a processed    *)
(* event related to the time held (newer / equal / late / untimed).            *)
(* harness/src/bin/clock.rs replays them into real HistoricalClock objects,    *)
(* real Engines and engines built by the real SystemBuilder.                   *)
(* (WallBack is not generated: the implementation reads the machine's clock.)  *)
EXTENDS MC_Clock, Json
CONSTANT MaxLen
VARIABLES hist, done
gvars == <<obj, clk, seen, origin, nobj, wall, last, hist, done>>

GInit == Init /\ hist = <<>> /\ done = FALSE

ExpectOf(obj_, clk_, wall_) ==
  [h \in HANDLES |-> IF obj_[h] = 0 THEN [o |-> 0, ex |-> 0, gen |-> 0, live |-> 0, time |-> 0]
                     ELSE LET c == clk_[obj_[h]] IN
                          [o |-> obj_[h], ex |-> c.ex, gen |-> c.gen, live |-> c.live, time |-> TimeOf(c, wall_)]]

\* (category first, so that the three families are drawn about equally often; the parameter keeps TLC
\*  from evaluating this once as a constant)
RandomEvent(c, n) ==
  IF c <= 3 THEN Ev(RandomElement(TimedKinds), RandomElement(TIMES))
  ELSE IF c = 4 THEN Ev(RandomElement(UntimedKinds), 0)
  ELSE SnapEv(RandomElement(ITEMLISTS))

GStep == /\ ~done /\ Len(hist) < MaxLen
         \* (draws bound through singleton sets: a LET would re-draw at every reference)
         /\ \E k \in {RandomElement(1..12)}, h \in {RandomElement(HANDLES)}, g \in {RandomElement(HANDLES)},
               s \in {RandomElement(TIMES)}, c \in {RandomElement(1..6)}, d \in {RandomElement(1..2)} :
             \E ev \in {RandomEvent(c, Len(hist))} :
               IF Used = {} \/ (k <= 2 /\ ~InUse(h)) THEN New(h, s)
               ELSE IF k <= 4 /\ InUse(h) /\ ~InUse(g) THEN Clone(h, g)
               ELSE IF k <= 6 THEN WallAdvance(d)
               ELSE IF InUse(h) THEN Process(h, ev)
               ELSE Process(CHOOSE x \in Used : TRUE, ev)
         /\ hist' = Append(hist, [step |-> last', exp |-> ExpectOf(obj', clk', wall'),
                                   rel |-> IF last'.a = "Process" THEN Relation(clk[obj[last'.h]], EventTime(last'.ev)) ELSE "-"])
         /\ UNCHANGED done

GFinish == /\ ~done /\ Len(hist) = MaxLen
           /\ done' = TRUE
           /\ UNCHANGED <<obj, clk, seen, origin, nobj, wall, last, hist>>

GSpec == GInit /\ [][GStep \/ GFinish]_gvars
Emit == done => PrintT(<<"SCN", ToJson([steps |-> hist])>>)
=============================================================================
