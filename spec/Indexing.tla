------------------------------ MODULE Indexing ------------------------------
(***************************************************************************)
(* Index spaces of barter: building them (C11) and translating between the  *)
(* engine's global indices and one exchange's own names (C04).              *)
(*                                                                         *)
(* Code transcribed                                                        *)
(*   barter-instrument/src/index/builder.rs                                *)
(*     IndexedInstrumentsBuilder::add_instrument  -> AddInstrument(d)      *)
(*     IndexedInstrumentsBuilder::build           -> Build                 *)
(*       (three vectors; sort, dedup, enumerate; instruments' exchange /   *)
(*        asset keys re-mapped with find_exchange_by_exchange_id and       *)
(*        find_asset_by_exchange_and_name_internal = FindExchange /        *)
(*        FindAsset, first match)                                          *)
(*   barter-instrument/src/index/mod.rs   find_*  -> Find* below           *)
(*   barter/src/engine/state/{instrument,asset,connectivity}/mod.rs        *)
(*     generate_indexed_instrument_states, generate_empty_indexed_asset_   *)
(*     states, generate_empty_indexed_connectivity_states: insertion-      *)
(*     ordered maps (IndexMap) filled in table order and then read         *)
(*     *positionally* -> InstrumentStates / AssetStates / Connectivity     *)
(*   barter/src/execution/builder.rs  ExecutionBuilder::build -> ExecTx    *)
(*   barter-execution/src/map.rs                                           *)
(*     generate_execution_instrument_map -> MapFor(t, e)                   *)
(*     find_{asset,instrument}_name_exchange -> *IndexToName               *)
(*     find_{asset,instrument}_index         -> *NameToIndex               *)
(*   barter-execution/src/indexer.rs, barter/src/execution/manager.rs      *)
(*     AccountEventIndexer::order_request (called by ExecutionManager::run *)
(*     for every Open / Cancel)            -> OrderRequest(e, x, i)        *)
(*     AccountEventIndexer::{asset_balance, order_key (order snapshot,     *)
(*     cancel response), trade, account_event} -> IndexEvent(e,k,from,n)   *)
(*     AccountEventIndexer::snapshot       -> IndexSnapshot(e,from,xa,xi)  *)
(*                                                                         *)
(* Abstraction.  Exchanges, asset names and instrument names are small     *)
(* positive integers; the harness concretises them order-preservingly      *)
(* (Rust orders ExchangeId by declaration order and names as strings).     *)
(* An index of the specification is a *position* 1..n in a table; the      *)
(* implementation's index is position - 1.  0 stands for "none".           *)
(*                                                                         *)
(* A definition  d = [id, ex, ni, nx, base, quote, kind, settle, unit]     *)
(*   ex: exchange; ni / nx: internal / exchange name of the instrument;    *)
(*   base, quote, settle, unit: Asset records [a |-> internal name,        *)
(*   nx |-> exchange name] (NoAsset where absent); kind: "spot" | "perp" | *)
(*   "future" | "option" (the three contract kinds carry a settlement      *)
(*   asset; expiry / strike / option style are constants of the harness).  *)
(*   `unit` is the asset of OrderQuantityUnits::Asset in the optional spec.*)
(*                                                                         *)
(* Ordering.  The builder sorts with the derived `Ord` of the Rust types:  *)
(* lexicographic over the fields in declaration order (ExKey, EAKey,       *)
(* DefKey).  `dedup` after `sort` leaves the distinct elements.            *)
(*                                                                         *)
(* Nondeterminism: none in the tables (the properties fix them            *)
(* completely).  The only free choices are the environment's: which        *)
(* definitions are inserted in which order (AddInstrument), which          *)
(* exchanges get an execution link (quantified in Aligned), and which      *)
(* request / event the manager of which exchange is handed.                *)
(*                                                                         *)
(* Environment assumptions (ASSUME EnvOK): an asset has one exchange name   *)
(* per exchange and two assets of one exchange do not share an exchange    *)
(* name.  Instrument names are NOT assumed unique: two distinct            *)
(* definitions of one exchange may share their internal name (spot and     *)
(* perpetual of one underlying) or their exchange name.  The documented    *)
(* uniqueness only restricts WHAT IS JUDGED - these are the open points,   *)
(* written as explicit sets:                                               *)
(*  - a look-up by a name that several instruments of the exchange share   *)
(*    may return any of them (FindInstrumentSet, NameToIndexSet);          *)
(*  - the index -> exchange-name translation of an instrument whose        *)
(*    exchange name is shared within its exchange yields that name or is   *)
(*    refused (IndexToNameSet) - never another name; every index whose     *)
(*    name is unique within its exchange translates exactly;               *)
(*  - InstrumentStates is keyed by the internal name alone, so its         *)
(*    alignment is claimed only for collections whose internal names are   *)
(*    distinct (Aligned).                                                  *)
(* Position = index, index -> entity, Dense, Unique, Resolve, OrderFree    *)
(* and Sorted are stated for every collection.                             *)
(***************************************************************************)
EXTENDS Naturals, Sequences, FiniteSets, TLC

CONSTANTS Universe,   \* the definitions that may be inserted
          MaxLen      \* bound on the number of insertions

VARIABLES defs,       \* builder.instruments = the insertions so far, in order
          bx,         \* builder.exchanges   (vector of exchanges, with repeats)
          ba,         \* builder.assets      (vector of exchange-assets, with repeats)
          built,      \* build() has been called
          tables,     \* its result [ex, as, ins]
          last        \* the last translation call and its result (observation only)

vars == <<defs, bx, ba, built, tables, last>>

None == 0
NoAsset == [a |-> 0, nx |-> 0]
Asset(a, nx) == [a |-> a, nx |-> nx]
EA(e, asset) == [ex |-> e, a |-> asset.a, nx |-> asset.nx]      \* ExchangeAsset<Asset>

Range(s) == {s[i] : i \in DOMAIN s}

(***************************************************************************)
(* Derived Ord of the Rust types as integer keys, compared lexicographically*)
(***************************************************************************)
LexLess(s, t) == \E i \in DOMAIN s : s[i] < t[i] /\ \A j \in 1..(i - 1) : s[j] = t[j]

ExKey(e)  == <<e>>
EAKey(x)  == <<x.ex, x.a, x.nx>>
\* Instrument { exchange, name_internal, name_exchange, underlying{base,quote}, quote,
\*              kind (Spot < Perpetual < Future < Option, each contract {contract_size,
\*              settlement_asset, ..}), spec (None < Some) }
KindRank(k) == CASE k = "spot" -> 0 [] k = "perp" -> 1 [] k = "future" -> 2 [] k = "option" -> 3
HasSettlement(d) == d.kind # "spot"
DefKey(d) == <<d.ex, d.ni, d.nx, d.base.a, d.base.nx, d.quote.a, d.quote.nx,
               KindRank(d.kind), d.settle.a, d.settle.nx,
               IF d.unit = NoAsset THEN 0 ELSE 1, d.unit.a, d.unit.nx>>

\* sort + dedup of a vector whose elements form the set S
SortSet(S, Key(_)) ==
    [i \in 1..Cardinality(S) |->
        CHOOSE x \in S : Cardinality({y \in S : LexLess(Key(y), Key(x))}) = i - 1]

\* iter().find_map(..): the first position satisfying P, or none
First(P(_), n) == IF \E p \in 1..n : P(p)
                  THEN CHOOSE p \in 1..n : P(p) /\ \A q \in 1..(p - 1) : ~P(q)
                  ELSE None

\* iter().filter_map(..).collect(): the positions satisfying P, in order, mapped by F
Filter(n, P(_), F(_)) ==
    LET S == {p \in 1..n : P(p)}
    IN  [k \in 1..Cardinality(S) |-> F(CHOOSE p \in S : Cardinality({q \in S : q < p}) = k - 1)]

(***************************************************************************)
(* add_instrument: what is pushed for one definition                       *)
(***************************************************************************)
AssetsOfDef(d) == <<EA(d.ex, d.base), EA(d.ex, d.quote)>>
                  \o (IF HasSettlement(d) THEN <<EA(d.ex, d.settle)>> ELSE <<>>)   \* perpetual, future, option
                  \o (IF d.unit # NoAsset THEN <<EA(d.ex, d.unit)>> ELSE <<>>)

(***************************************************************************)
(* find_* of IndexedInstruments                                            *)
(***************************************************************************)
FindExchange(X, e)      == First(LAMBDA p : X[p] = e, Len(X))
FindAsset(A, e, a)      == First(LAMBDA p : A[p].ex = e /\ A[p].a = a, Len(A))    \* by internal name
FindInstrument(I, e, n) == First(LAMBDA p : I[p].ex = e /\ I[p].ni = n, Len(I))   \* by internal name
\* what a look-up by internal name may return when several instruments of e bear the name
FindInstrumentSet(I, e, n) == LET S == {p \in DOMAIN I : I[p].ex = e /\ I[p].ni = n} IN IF S = {} THEN {None} ELSE S

(***************************************************************************)
(* build(): sort, dedup, enumerate, re-map the instruments' keys            *)
(***************************************************************************)
BuildFromSets(XS, AS, DS) ==
    LET X == SortSet(XS, ExKey)
        A == SortSet(AS, EAKey)
        D == SortSet(DS, DefKey)
        Ins(p) == LET d == D[p] IN
            [id |-> d.id, ex |-> d.ex, xk |-> FindExchange(X, d.ex), ni |-> d.ni, nx |-> d.nx,
             kind   |-> d.kind,
             base   |-> FindAsset(A, d.ex, d.base.a),
             quote  |-> FindAsset(A, d.ex, d.quote.a),
             settle |-> IF HasSettlement(d) THEN FindAsset(A, d.ex, d.settle.a) ELSE None,
             unit   |-> IF d.unit # NoAsset THEN FindAsset(A, d.ex, d.unit.a) ELSE None]
    IN  [ex |-> X, as |-> A, ins |-> [p \in 1..Len(D) |-> Ins(p)]]

NoTables == [ex |-> <<>>, as |-> <<>>, ins |-> <<>>]

\* the tables as a function of the *set* of definitions
Canonical(S) == BuildFromSets({d.ex : d \in S}, UNION {Range(AssetsOfDef(d)) : d \in S}, S)

(***************************************************************************)
(* Tables derived by the engine: insertion-ordered maps filled in table    *)
(* order (a repeated key would overwrite in place instead of appending)    *)
(* and read by position.                                                   *)
(***************************************************************************)
RECURSIVE IndexMapFrom(_, _)
IndexMapFrom(pairs, n) ==      \* FromIterator for IndexMap over pairs[1..n]
    IF n = 0 THEN <<>>
    ELSE LET m  == IndexMapFrom(pairs, n - 1)
             kv == pairs[n]
         IN  IF \E p \in DOMAIN m : m[p][1] = kv[1]
             THEN [m EXCEPT ![CHOOSE p \in DOMAIN m : m[p][1] = kv[1]] = kv]
             ELSE Append(m, kv)

\* InstrumentStates: keyed by the instrument's internal name
InstrumentStates(t) ==
    IndexMapFrom([p \in 1..Len(t.ins) |-> <<t.ins[p].ni, [key |-> p, id |-> t.ins[p].id]>>], Len(t.ins))
\* AssetStates: keyed by (exchange, internal asset name)
AssetStates(t) ==
    IndexMapFrom([p \in 1..Len(t.as) |-> << <<t.as[p].ex, t.as[p].a>>, [a |-> t.as[p].a, nx |-> t.as[p].nx] >>], Len(t.as))
\* ConnectivityStates.exchanges: keyed by exchange
Connectivity(t) ==
    IndexMapFrom([p \in 1..Len(t.ex) |-> <<t.ex[p], "reconnecting">>], Len(t.ex))
\* MultiExchangeTxMap for execution links on the exchanges L (a link knows the index
\* generate_execution_instrument_map gave it; build() asserts it equals the position)
ExecTx(t, L) ==
    IndexMapFrom([p \in 1..Len(t.ex) |->
        <<t.ex[p], IF t.ex[p] \in L THEN FindExchange(t.ex, t.ex[p]) ELSE None>>], Len(t.ex))

(***************************************************************************)
(* The execution link of exchange e (C04)                                  *)
(*   MapFor(t, e) = the restriction of the global tables to e: the pairs   *)
(*   (global index, exchange name) of e's assets / instruments in table    *)
(*   order, as handed to ExecutionInstrumentMap::new.                      *)
(***************************************************************************)
MapFor(t, e) ==
    [ex  |-> e,
     xk  |-> FindExchange(t.ex, e),
     as  |-> Filter(Len(t.as),  LAMBDA p : t.as[p].ex = e,  LAMBDA p : <<p, t.as[p].nx>>),
     ins |-> Filter(Len(t.ins), LAMBDA p : t.ins[p].ex = e, LAMBDA p : <<p, t.ins[p].nx>>)]

\* index -> name and name -> index over such a list of pairs (the indices are distinct; a name
\* may occur more than once)
SharedIn(m, n) == Cardinality({k \in DOMAIN m : m[k][2] = n}) > 1
NameToIndexSet(m, n) == LET S == {m[k][1] : k \in {j \in DOMAIN m : m[j][2] = n}} IN IF S = {} THEN {None} ELSE S
IndexToNameSet(m, i) == IF \E k \in DOMAIN m : m[k][1] = i
                        THEN LET n == m[CHOOSE k \in DOMAIN m : m[k][1] = i][2]
                             IN  IF SharedIn(m, n) THEN {n, None} ELSE {n}
                        ELSE {None}
\* the deterministic readings (used where the name is unique)
IndexToName(m, i) == IF \E k \in DOMAIN m : m[k][1] = i
                     THEN m[CHOOSE k \in DOMAIN m : m[k][1] = i][2] ELSE None
NameToIndex(m, n) == IF \E k \in DOMAIN m : m[k][2] = n
                     THEN m[CHOOSE k \in DOMAIN m : m[k][2] = n][1] ELSE None

AssetIndexToName(t, e, i) == IndexToName(MapFor(t, e).as, i)     \* find_asset_name_exchange
AssetNameToIndex(t, e, n) == NameToIndex(MapFor(t, e).as, n)     \* find_asset_index
InsIndexToName(t, e, i)   == IndexToName(MapFor(t, e).ins, i)    \* find_instrument_name_exchange
InsNameToIndex(t, e, n)   == NameToIndex(MapFor(t, e).ins, n)    \* find_instrument_index

ExchangesOf(t) == Range(t.ex)
AssetNames == UNION {{d.base.nx, d.quote.nx, d.settle.nx, d.unit.nx} : d \in Universe} \ {0}
InsNames   == {d.nx : d \in Universe}
AllExchanges == {d.ex : d \in Universe}

(***************************************************************************)
(* Calls and their results                                                 *)
(***************************************************************************)
Call(op, e, x, n, ok, re, rn, ra, ri) ==
    [op |-> op, e |-> e, x |-> x, n |-> n, ok |-> ok, re |-> re, rn |-> rn, ra |-> ra, ri |-> ri]
NoCall == Call("none", 0, 0, 0, FALSE, 0, 0, <<>>, <<>>)

\* AccountEventIndexer::order_request: key (exchange index x, instrument index i) ->
\* (ExchangeId, &InstrumentNameExchange) or KeyError (the manager then panics by design)
OrderRequestResults(t, e, x, i) ==
    LET m == MapFor(t, e) IN
    {IF x = m.xk /\ n # None THEN [ok |-> TRUE, e |-> e, n |-> n] ELSE [ok |-> FALSE, e |-> 0, n |-> 0]
       : n \in IndexToNameSet(m.ins, i)}

\* asset_balance / order_key / trade / order_response_cancel, reached through account_event:
\* an event of exchange `from` naming n (an asset name for "balance", else an instrument name)
EventKinds == {"balance", "order", "trade", "cancel"}
IndexEventResults(t, e, k, from, n) ==
    LET m == MapFor(t, e) IN
    {IF from = e /\ idx # None THEN [ok |-> TRUE, x |-> m.xk, i |-> idx] ELSE [ok |-> FALSE, x |-> 0, i |-> 0]
       : idx \in IF k = "balance" THEN NameToIndexSet(m.as, n) ELSE NameToIndexSet(m.ins, n)}

\* snapshot: every own asset and instrument of e, plus optionally one further asset / instrument name
\* (a shared name is resolved to one representative here; Inbound only asks for membership)
IndexSnapshotResult(t, e, from, xa, xi) ==
    LET m  == MapFor(t, e)
        an == [k \in 1..Len(m.as) |-> m.as[k][2]] \o (IF xa = None THEN <<>> ELSE <<xa>>)
        nn == [k \in 1..Len(m.ins) |-> m.ins[k][2]] \o (IF xi = None THEN <<>> ELSE <<xi>>)
        ai == [k \in DOMAIN an |-> NameToIndex(m.as, an[k])]
        ii == [k \in DOMAIN nn |-> NameToIndex(m.ins, nn[k])]
    IN  IF from = e /\ (\A k \in DOMAIN ai : ai[k] # None) /\ (\A k \in DOMAIN ii : ii[k] # None)
        THEN [ok |-> TRUE, x |-> m.xk, a |-> ai, i |-> ii]
        ELSE [ok |-> FALSE, x |-> 0, a |-> <<>>, i |-> <<>>]

(***************************************************************************)
(* Actions.  Translation is stateless, so one call per built collection     *)
(* is all there is to explore (the call actions start from last = NoCall).  *)
(***************************************************************************)
Init == /\ defs = <<>> /\ bx = <<>> /\ ba = <<>>
        /\ built = FALSE /\ tables = NoTables /\ last = NoCall

AddInstrument(d) ==
    /\ ~built /\ Len(defs) < MaxLen
    /\ bx' = Append(bx, d.ex)
    /\ ba' = ba \o AssetsOfDef(d)
    /\ defs' = Append(defs, d)
    /\ UNCHANGED <<built, tables, last>>

Build ==
    /\ ~built
    /\ built' = TRUE
    /\ tables' = BuildFromSets(Range(bx), Range(ba), Range(defs))
    /\ UNCHANGED <<defs, bx, ba, last>>

OrderRequest(e, x, i) ==
    /\ built /\ last = NoCall
    /\ \E r \in OrderRequestResults(tables, e, x, i) :
           last' = Call("request", e, x, i, r.ok, r.e, r.n, <<>>, <<>>)
    /\ UNCHANGED <<defs, bx, ba, built, tables>>

IndexEvent(e, k, from, n) ==
    /\ built /\ last = NoCall
    /\ \E r \in IndexEventResults(tables, e, k, from, n) :
           last' = Call(k, e, from, n, r.ok, r.x, r.i, <<>>, <<>>)
    /\ UNCHANGED <<defs, bx, ba, built, tables>>

IndexSnapshot(e, from, xa, xi) ==
    /\ built /\ last = NoCall
    /\ LET r == IndexSnapshotResult(tables, e, from, xa, xi)
       IN  last' = Call("snapshot", e, from, <<xa, xi>>, r.ok, r.x, 0, r.a, r.i)
    /\ UNCHANGED <<defs, bx, ba, built, tables>>

AddInstrumentAny == \E d \in Universe : AddInstrument(d)

NextBuild == AddInstrumentAny \/ Build

\* one named action per entry point (the quantifiers are the environment's free choices; an
\* event may claim to come from any exchange, also one that is not part of the collection)
OrderRequestAny ==
    \E e \in ExchangesOf(tables), x \in 1..(Len(tables.ex) + 1), i \in 1..(Len(tables.ins) + 1) :
        OrderRequest(e, x, i)
IndexBalanceAny ==
    \E e \in ExchangesOf(tables), from \in AllExchanges, n \in AssetNames :
        IndexEvent(e, "balance", from, n)
IndexOrderAny ==
    \E e \in ExchangesOf(tables), from \in AllExchanges, n \in InsNames : IndexEvent(e, "order", from, n)
IndexTradeAny ==
    \E e \in ExchangesOf(tables), from \in AllExchanges, n \in InsNames : IndexEvent(e, "trade", from, n)
IndexCancelAny ==
    \E e \in ExchangesOf(tables), from \in AllExchanges, n \in InsNames : IndexEvent(e, "cancel", from, n)
IndexSnapshotAny ==
    \E e \in ExchangesOf(tables), from \in AllExchanges :
        \/ \E xa \in AssetNames \cup {None} : IndexSnapshot(e, from, xa, None)
        \/ \E xi \in InsNames : IndexSnapshot(e, from, None, xi)

NextCall == \/ OrderRequestAny \/ IndexBalanceAny \/ IndexOrderAny
            \/ IndexTradeAny \/ IndexCancelAny \/ IndexSnapshotAny

Next == NextBuild \/ NextCall
Spec == Init /\ [][Next]_vars
\* construction alone (C11)
SpecBuild == Init /\ [][NextBuild]_vars

(***************************************************************************)
(* C11 - stated on the freshly built tables                                *)
(***************************************************************************)
AtBuild == built /\ last = NoCall

DefSet == Range(defs)
ExSet  == {d.ex : d \in DefSet}
EASet  == UNION {Range(AssetsOfDef(d)) : d \in DefSet}
\* the entity an asset table entry stands for: (exchange, internal name)
EAEntity(x) == <<x.ex, x.a>>

\* every distinct exchange / exchange-asset / instrument receives exactly one index = its
\* position, and nothing else does (positions 1..n are by construction dense: the formula
\* says the n's are right and every entity is present)
Dense == AtBuild =>
    /\ Len(tables.ex)  = Cardinality(ExSet)  /\ Range(tables.ex) = ExSet
    /\ Len(tables.as)  = Cardinality({EAEntity(x) : x \in EASet})
    /\ {EAEntity(x) : x \in Range(tables.as)} = {EAEntity(x) : x \in EASet}
    /\ Len(tables.ins) = Cardinality(DefSet) /\ {i.id : i \in Range(tables.ins)} = {d.id : d \in DefSet}

Unique == AtBuild =>
    /\ \A p, q \in DOMAIN tables.ex  : p # q => tables.ex[p] # tables.ex[q]
    /\ \A p, q \in DOMAIN tables.as  : p # q => EAEntity(tables.as[p]) # EAEntity(tables.as[q])
    /\ \A p, q \in DOMAIN tables.ins : p # q => tables.ins[p].id # tables.ins[q].id

\* find by name o find by index = id, both ways (and names that were never inserted are not found)
Inverse == AtBuild =>
    /\ \A p \in DOMAIN tables.ex  : FindExchange(tables.ex, tables.ex[p]) = p
    /\ \A e \in AllExchanges : LET p == FindExchange(tables.ex, e) IN
           IF e \in ExSet THEN p # None /\ tables.ex[p] = e ELSE p = None
    /\ \A p \in DOMAIN tables.as  : FindAsset(tables.as, tables.as[p].ex, tables.as[p].a) = p
    /\ \A e \in AllExchanges, a \in {x.a : x \in UNION {Range(AssetsOfDef(d)) : d \in Universe}} :
           LET p == FindAsset(tables.as, e, a) IN
           IF <<e, a>> \in {EAEntity(x) : x \in EASet}
           THEN p # None /\ EAEntity(tables.as[p]) = <<e, a>> ELSE p = None
    \* by internal name: exact where the name is unique within its exchange, else one of the bearers
    /\ \A p \in DOMAIN tables.ins : FindInstrument(tables.ins, tables.ins[p].ex, tables.ins[p].ni)
                                         \in FindInstrumentSet(tables.ins, tables.ins[p].ex, tables.ins[p].ni)
    /\ \A p \in DOMAIN tables.ins : FindInstrumentSet(tables.ins, tables.ins[p].ex, tables.ins[p].ni) = {p}
                                    \/ Cardinality({d \in DefSet : d.ex = tables.ins[p].ex /\ d.ni = tables.ins[p].ni}) > 1
    /\ \A e \in AllExchanges, n \in {d.ni : d \in Universe} :
           LET p == FindInstrument(tables.ins, e, n) IN
           IF \E d \in DefSet : d.ex = e /\ d.ni = n
           THEN p # None /\ tables.ins[p].ex = e /\ tables.ins[p].ni = n ELSE p = None

\* each instrument's exchange / base / quote / settlement / unit keys point at the entries it
\* was defined with
Resolve == AtBuild => \A p \in DOMAIN tables.ins :
    LET i == tables.ins[p]
        d == CHOOSE d \in DefSet : d.id = i.id
        At(k, asset) == k # None /\ k \in DOMAIN tables.as /\ tables.as[k] = EA(d.ex, asset)
    IN  /\ i.xk # None /\ tables.ex[i.xk] = d.ex /\ i.ex = d.ex
        /\ i.ni = d.ni /\ i.nx = d.nx /\ i.kind = d.kind
        /\ At(i.base, d.base) /\ At(i.quote, d.quote)
        /\ IF HasSettlement(d) THEN At(i.settle, d.settle) ELSE i.settle = None
        /\ IF d.unit # NoAsset THEN At(i.unit, d.unit) ELSE i.unit = None

\* the result depends only on the set of definitions (not on order or multiplicity)
OrderFree == AtBuild => tables = Canonical(DefSet)

\* the tables are sorted (index order = the documented order: exchange, then name)
Sorted == AtBuild =>
    /\ \A p, q \in DOMAIN tables.ex  : p < q => tables.ex[p] < tables.ex[q]
    /\ \A p, q \in DOMAIN tables.as  : p < q => LexLess(EAKey(tables.as[p]), EAKey(tables.as[q]))
    /\ \A p, q \in DOMAIN tables.ins : p < q =>
          LexLess(<<tables.ins[p].ex, tables.ins[p].ni, tables.ins[p].nx, KindRank(tables.ins[p].kind)>>,
                  <<tables.ins[q].ex, tables.ins[q].ni, tables.ins[q].nx, KindRank(tables.ins[q].kind)>>)

\* engine instrument states, asset states, connectivity table and execution-link table hold at
\* position i the entity with index i (for every choice L of linked exchanges)
InternalNamesDistinct(S) == \A d1, d2 \in S : d1 # d2 => d1.ni # d2.ni
Aligned == AtBuild =>
    /\ InternalNamesDistinct(DefSet) => LET s == InstrumentStates(tables) IN
          /\ Len(s) = Len(tables.ins)
          /\ \A p \in DOMAIN s : s[p][1] = tables.ins[p].ni /\ s[p][2].key = p /\ s[p][2].id = tables.ins[p].id
    /\ LET s == AssetStates(tables) IN
          /\ Len(s) = Len(tables.as)
          /\ \A p \in DOMAIN s : s[p][1] = EAEntity(tables.as[p]) /\ s[p][2].nx = tables.as[p].nx
    /\ LET s == Connectivity(tables) IN
          /\ Len(s) = Len(tables.ex)
          /\ \A p \in DOMAIN s : s[p][1] = tables.ex[p]
    /\ \A L \in SUBSET ExSet : LET s == ExecTx(tables, L) IN
          /\ Len(s) = Len(tables.ex)
          /\ \A p \in DOMAIN s : s[p][1] = tables.ex[p]
                              /\ s[p][2] = (IF tables.ex[p] \in L THEN p ELSE None)

C11 == Dense /\ Unique /\ Inverse /\ Resolve /\ OrderFree /\ Sorted /\ Aligned

(***************************************************************************)
(* C04 - on the built tables (RoundTrip, OnlyOwn) and on every call         *)
(* (Outbound, Inbound)                                                     *)
(***************************************************************************)
RoundTrip == AtBuild => \A e \in ExchangesOf(tables) :
    /\ \A i \in DOMAIN tables.as : tables.as[i].ex = e =>
          AssetNameToIndex(tables, e, AssetIndexToName(tables, e, i)) = i
    /\ \A i \in DOMAIN tables.ins : (tables.ins[i].ex = e /\ ~SharedIn(MapFor(tables, e).ins, tables.ins[i].nx)) =>
          /\ IndexToNameSet(MapFor(tables, e).ins, i) = {InsIndexToName(tables, e, i)}
          /\ InsNameToIndex(tables, e, InsIndexToName(tables, e, i)) = i
    /\ \A n \in AssetNames : AssetNameToIndex(tables, e, n) # None =>
          AssetIndexToName(tables, e, AssetNameToIndex(tables, e, n)) = n
    /\ \A n \in InsNames : \A i \in NameToIndexSet(MapFor(tables, e).ins, n) : i # None =>
          InsIndexToName(tables, e, i) = n

\* only the indices / names of e translate at all, and they translate to the entity itself
OnlyOwn == AtBuild => \A e \in ExchangesOf(tables) :
    /\ \A i \in 1..(Len(tables.as) + 1) :
          IF i \in DOMAIN tables.as /\ tables.as[i].ex = e
          THEN AssetIndexToName(tables, e, i) = tables.as[i].nx
          ELSE AssetIndexToName(tables, e, i) = None
    /\ \A i \in 1..(Len(tables.ins) + 1) :
          IF i \in DOMAIN tables.ins /\ tables.ins[i].ex = e
          THEN InsIndexToName(tables, e, i) = tables.ins[i].nx
          ELSE InsIndexToName(tables, e, i) = None
    /\ \A n \in AssetNames : LET i == AssetNameToIndex(tables, e, n) IN
          IF \E p \in DOMAIN tables.as : tables.as[p].ex = e /\ tables.as[p].nx = n
          THEN i # None /\ tables.as[i].ex = e /\ tables.as[i].nx = n ELSE i = None
    /\ \A n \in InsNames : \A i \in NameToIndexSet(MapFor(tables, e).ins, n) :
          IF \E p \in DOMAIN tables.ins : tables.ins[p].ex = e /\ tables.ins[p].nx = n
          THEN i # None /\ tables.ins[i].ex = e /\ tables.ins[i].nx = n ELSE i = None

\* a request for instrument i reaches the client of e = ExchangeOf(i), addressed to Name(i);
\* any other key is refused
Outbound == (built /\ last.op = "request") =>
    LET own == /\ last.n \in DOMAIN tables.ins /\ tables.ins[last.n].ex = last.e
               /\ last.x \in DOMAIN tables.ex /\ tables.ex[last.x] = last.e
        \* an instrument whose exchange name is shared within its exchange may be refused (open point)
        exact == own /\ ~SharedIn(MapFor(tables, last.e).ins, tables.ins[last.n].nx)
    IN  /\ last.ok => own
        /\ exact => last.ok
        /\ last.ok => last.re = tables.ins[last.n].ex /\ last.rn = tables.ins[last.n].nx

\* balance / order / trade / cancel events of exchange e naming n are indexed to the entity
\* they name; foreign exchanges and foreign names fail
Inbound ==
    /\ (built /\ last.op \in EventKinds) =>
          LET tbl == IF last.op = "balance" THEN tables.as ELSE tables.ins
              own == last.x = last.e /\ \E p \in DOMAIN tbl : tbl[p].ex = last.e /\ tbl[p].nx = last.n
          IN  /\ last.ok <=> own
              /\ last.ok => /\ tables.ex[last.re] = last.e
                            /\ tbl[last.rn].ex = last.e /\ tbl[last.rn].nx = last.n
    /\ (built /\ last.op = "snapshot" /\ last.ok) =>
          /\ tables.ex[last.re] = last.e /\ last.x = last.e
          /\ \A k \in DOMAIN last.ra : tables.as[last.ra[k]].ex = last.e
          /\ \A k \in DOMAIN last.ri : tables.ins[last.ri[k]].ex = last.e
          /\ {p \in DOMAIN tables.as : tables.as[p].ex = last.e} \subseteq Range(last.ra)
          /\ {p \in DOMAIN tables.ins : tables.ins[p].ex = last.e /\ ~SharedIn(MapFor(tables, last.e).ins, tables.ins[p].nx)}
                \subseteq Range(last.ri)
    /\ (built /\ last.op = "snapshot" /\ ~last.ok) =>
          \/ last.x # last.e
          \/ last.n[1] # None /\ ~\E p \in DOMAIN tables.as : tables.as[p].ex = last.e /\ tables.as[p].nx = last.n[1]
          \/ last.n[2] # None /\ ~\E p \in DOMAIN tables.ins : tables.ins[p].ex = last.e /\ tables.ins[p].nx = last.n[2]

C04 == RoundTrip /\ OnlyOwn /\ Outbound /\ Inbound

(***************************************************************************)
(* Environment assumptions on a universe                                   *)
(***************************************************************************)
EnvOKFor(U) ==
    LET eas == UNION {Range(AssetsOfDef(d)) : d \in U} IN
    /\ \A d1, d2 \in U : d1 # d2 => d1.id # d2.id /\ DefKey(d1) # DefKey(d2)      \* distinct definitions
    \* (the harness identifies a table entry by exchange, both names and kind)
    /\ \A d1, d2 \in U : d1 # d2 => <<d1.ex, d1.ni, d1.nx, d1.kind>> # <<d2.ex, d2.ni, d2.nx, d2.kind>>
    /\ \A x, y \in eas : (x.ex = y.ex /\ x.a = y.a) => x.nx = y.nx               \* one name per (e, asset)
    /\ \A x, y \in eas : (x.ex = y.ex /\ x.nx = y.nx) => x.a = y.a               \* injective per exchange
    /\ \A d \in U : d.kind \in {"spot", "perp", "future", "option"} /\ (HasSettlement(d) <=> d.settle # NoAsset)

ASSUME EnvOK == EnvOKFor(Universe)

(***************************************************************************)
(* Universes.  Exchanges 1..4 = Mock, BinanceSpot, Kraken, Okx (declaration *)
(* order of ExchangeId); assets 1..5 = btc eth sol usdc usdt with exchange   *)
(* names 1..5 = BTC ETH SOL USDC USDt, 6 = XBT (Kraken's name for btc, so    *)
(* that exchange-name order differs from internal-name order); instrument   *)
(* internal names ins01.., exchange names SYM01.. (shared across exchanges;   *)
(* on Kraken one internal name and one exchange name are borne by two        *)
(* distinct definitions each).                                              *)
(***************************************************************************)
A(e, a) == Asset(a, IF e = 3 /\ a = 1 THEN 6 ELSE a)
Def(id, e, ni, nx, b, q, kind, s, u) ==
    [id |-> id, ex |-> e, ni |-> ni, nx |-> nx, base |-> A(e, b), quote |-> A(e, q), kind |-> kind,
     settle |-> IF s = 0 THEN NoAsset ELSE A(e, s), unit |-> IF u = 0 THEN NoAsset ELSE A(e, u)]

U7 == { Def(1, 2, 5, 1, 1, 5, "spot", 0, 0),     \* BinanceSpot ins05 SYM01 btc/usdt
        Def(2, 2, 2, 2, 2, 5, "future", 4, 0),   \* BinanceSpot ins02 SYM02 eth/usdt future settled in usdc
        Def(3, 3, 4, 3, 1, 5, "spot", 0, 0),     \* Kraken      ins04 SYM03 btc(XBT)/usdt
        Def(4, 3, 1, 4, 2, 1, "spot", 0, 0),     \* Kraken      ins01 SYM04 eth/btc(XBT)  - exchange name shared with def 5
        Def(5, 3, 4, 4, 1, 5, "perp", 4, 0),     \* Kraken      ins04 SYM04 btc/usdt perpetual settled in usdc - internal
                                                 \*   name shared with def 3; index order on Kraken: 4, 3, 5 (the bearers
                                                 \*   of SYM04 enclose an instrument with a name of its own)
        Def(6, 1, 3, 2, 3, 4, "spot", 0, 3),     \* Mock        ins03 SYM02 sol/usdc, quantity in sol
        Def(7, 1, 7, 5, 2, 5, "option", 4, 1) }  \* Mock        ins07 SYM05 eth/usdt option settled in usdc, quantity in btc

U9 == U7 \cup { Def(8, 4, 8, 3, 2, 5, "spot", 0, 0),     \* Okx ins08 SYM03 eth/usdt
                Def(9, 4, 9, 6, 3, 5, "perp", 1, 3) }    \* Okx ins09 SYM06 sol/usdt perpetual settled in btc, quantity in sol
=============================================================================
