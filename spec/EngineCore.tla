----------------------------- MODULE EngineCore -----------------------------
(***************************************************************************)
(* One step of barter's Engine:  Engine::process(event)  followed by the    *)
(* audit tick.  Serves C03 (sent => delivered once + in flight; failed /    *)
(* refused => neither; trading disabled => silent), C19 (cancel-orders /    *)
(* close-positions act on exactly the filtered scope), C14 (connectivity),  *)
(* C10 (one tick per event, consecutive sequence numbers).                  *)
(*                                                                         *)
(* Code transcribed (barter/src/engine):                                    *)
(*   mod.rs  Engine::process / action / update_from_{account,market}_stream *)
(*   action/send_requests.rs     Send, batches                              *)
(*   action/generate_algo_orders.rs  Algo (strategy -> risk -> send ->      *)
(*                                   record in flight)                      *)
(*   action/cancel_orders.rs, close_positions.rs, strategy/close_positions  *)
(*   execution_tx.rs  MultiExchangeTxMap::find                              *)
(*   state/connectivity, state/trading, state/order (abstracted to kinds),  *)
(*   state/position (abstracted to the signed net quantity)                 *)
(*                                                                         *)
(* World (harness/src/world2.rs): exchanges 0,1,2; instruments 0..5 with    *)
(* ExOf = <<0,0,0,0,1,2>>; instruments 0 and 1 share an underlying, 2       *)
(* shares only their base asset, 3 only their quote asset; 4 and 5 are the  *)
(* same pair on the other two exchanges (an underlying is a pair of asset   *)
(* indices, and those are per exchange: three different underlyings).       *)
(* THREE exchanges so that a by-exchange filter can name non-adjacent       *)
(* exchanges (<<0, 2>>: the instruments it selects are not one contiguous   *)
(* block), the exchange in the middle can be the one whose link is missing, *)
(* and an exchange position that is off by one is still an exchange.        *)
(*                                                                         *)
(* The step is a FUNCTION of (state, event, env): env = what the            *)
(* environment contributes in this step - fault state of each execution    *)
(* link, the strategy's output, the ids the risk manager refuses.  The only *)
(* freedom left to the code is the order of requests inside one batch       *)
(* (batches are compared as sets; driver batches never repeat a request).   *)
(* Environment assumptions: a request names the exchange of its instrument  *)
(* or a non-existent exchange index; instrument indices exist.              *)
(***************************************************************************)
EXTENDS Integers, Sequences, FiniteSets, SequencesExt, TLC

CONSTANTS CIDS,        \* client order ids (strings); "x" is the close-positions id
          EVENTS,      \* events explored by the model checker
          ENVS         \* environments explored by the model checker

VARIABLES st,          \* engine state  [trading, conn, inst]
          seq,         \* next audit sequence number
          tick,        \* the audit tick of the last step
          dl,          \* what each execution link received in the last step
          last         \* [ev, env] of the last step

vars == <<st, seq, tick, dl, last>>

NEX   == 3
NI    == 6
INST  == 0..(NI - 1)
ExOf(i)  == CASE i = 4 -> 1 [] i = 5 -> 2 [] OTHER -> 0
UndOf(i) == IF i = 1 THEN 0 ELSE i
CLOSE == "x"

Sign(n) == IF n > 0 THEN 1 ELSE IF n < 0 THEN -1 ELSE 0
AbsN(n) == IF n < 0 THEN -n ELSE n

(***************************************************************************)
(* Requests, events, environments (uniform records = uniform JSON).         *)
(***************************************************************************)
Req(k, ex, inst, cid, side, qty, hasId) ==
  [k |-> k, ex |-> ex, inst |-> inst, cid |-> cid, side |-> side, qty |-> qty, hasId |-> hasId]
OpenReq(i, cid, side, qty)  == Req("open", ExOf(i), i, cid, side, qty, FALSE)
CancelReq(i, cid, hasId)    == Req("cancel", ExOf(i), i, cid, "-", 0, hasId)
WithFlag(r, u) == [k |-> r.k, ex |-> r.ex, inst |-> r.inst, cid |-> r.cid, side |-> r.side,
                   qty |-> r.qty, hasId |-> r.hasId, unrec |-> u]

NoFilter == [k |-> "None", set |-> <<>>]
Ev(a, ex, inst, cid, kind, side, qty, ok, to, reqs, filter) ==
  [a |-> a, ex |-> ex, inst |-> inst, cid |-> cid, kind |-> kind, side |-> side, qty |-> qty,
   ok |-> ok, to |-> to, reqs |-> reqs, filter |-> filter]
NoEvent == Ev("Init", 0, 0, "", "", "-", 0, FALSE, "-", <<>>, NoFilter)

Env(link, algoC, algoO, refuse) == [link |-> link, algoC |-> algoC, algoO |-> algoO, refuse |-> refuse]
NoEnv == Env(<<"healthy", "healthy", "healthy">>, <<>>, <<>>, <<>>)

Matches(f, i) ==
  CASE f.k = "None"        -> TRUE
    [] f.k = "Exchanges"   -> ExOf(i) \in ToSet(f.set)
    [] f.k = "Instruments" -> i \in ToSet(f.set)
    [] f.k = "Underlyings" -> \E u \in ToSet(f.set) : UndOf(u) = UndOf(i)

(***************************************************************************)
(* State                                                                    *)
(***************************************************************************)
Kinds == {"U", "OIF", "Open", "CIFn", "CIFo"}
InstInit == [orders |-> [c \in CIDS |-> "U"], net |-> 0, priced |-> FALSE]
StInit(tr) == [trading |-> tr,
               conn |-> [global |-> "Reconnecting",
                         ex |-> [e \in 1..NEX |-> [market |-> "Reconnecting", account |-> "Reconnecting"]]],
               inst |-> [i \in 1..NI |-> InstInit]]

OrderKind(s, i, c) == s.inst[i + 1].orders[c]
SetKind(s, i, c, k) == [s EXCEPT !.inst[i + 1].orders[c] = k]

AllHealthy(ex) == \A e \in DOMAIN ex : ex[e].market = "Healthy" /\ ex[e].account = "Healthy"
Heal(s, e, which) ==
  LET ex2 == [s.conn.ex EXCEPT ![e + 1] =
                 IF which = "market" THEN [@ EXCEPT !.market = "Healthy"] ELSE [@ EXCEPT !.account = "Healthy"]]
  IN [s EXCEPT !.conn = [global |-> IF AllHealthy(ex2) THEN "Healthy" ELSE "Reconnecting", ex |-> ex2]]
Down(s, e, which) ==
  LET ex2 == [s.conn.ex EXCEPT ![e + 1] =
                 IF which = "market" THEN [@ EXCEPT !.market = "Reconnecting"] ELSE [@ EXCEPT !.account = "Reconnecting"]]
  IN [s EXCEPT !.conn = [global |-> "Reconnecting", ex |-> ex2]]

(***************************************************************************)
(* Send: one request on the link of the exchange it names.                  *)
(***************************************************************************)
SendResult(env, r) ==
  IF r.ex \notin 0..(NEX - 1) THEN "unrec"                     \* unknown exchange index
  ELSE CASE env.link[r.ex + 1] = "healthy"   -> "sent"
         [] env.link[r.ex + 1] = "unhealthy" -> "rec"        \* recoverable
         [] OTHER                            -> "unrec"      \* closed channel / no link

Sent(env, R)   == {r \in R : SendResult(env, r) = "sent"}
Failed(env, R) == {WithFlag(r, SendResult(env, r) = "unrec") : r \in {x \in R : SendResult(env, x) # "sent"}}
NUnrec(env, R) == Cardinality({r \in R : SendResult(env, r) = "unrec"})

\* in-flight recording (C01's RecordOpen / RecordCancel on kinds)
RecCancelKind(k) == CASE k = "OIF" -> "CIFn" [] k = "Open" -> "CIFo" [] OTHER -> k
RecordCancels(s, R) ==
  [s EXCEPT !.inst = [i \in 1..NI |-> [@[i] EXCEPT !.orders = [c \in CIDS |->
       IF \E r \in R : r.inst = i - 1 /\ r.cid = c THEN RecCancelKind(@[c]) ELSE @[c]]]]]
RecordOpens(s, R) ==
  [s EXCEPT !.inst = [i \in 1..NI |-> [@[i] EXCEPT !.orders = [c \in CIDS |->
       IF \E r \in R : r.inst = i - 1 /\ r.cid = c THEN "OIF" ELSE @[c]]]]]

\* an output record of the audit tick (batches are sets)
Out(k, sentO, sentC, errO, errC, refO, refC, ex) ==
  [k |-> k, sentO |-> sentO, sentC |-> sentC, errO |-> errO, errC |-> errC, refO |-> refO, refC |-> refC, ex |-> ex]
Plain(k, ex) == Out(k, {}, {}, {}, {}, {}, {}, ex)

\* send cancels then opens, record in flight exactly what was sent
Batch(s, env, C, O, k, refC, refO) ==
  [st   |-> RecordOpens(RecordCancels(s, Sent(env, C)), Sent(env, O)),
   out  |-> Out(k, Sent(env, O), Sent(env, C), Failed(env, O), Failed(env, C), refO, refC, -1),
   nerr |-> NUnrec(env, C) + NUnrec(env, O),
   sent |-> Sent(env, C) \cup Sent(env, O)]

(***************************************************************************)
(* ApplyEvent: state update / command, before any algo generation.          *)
(***************************************************************************)
CancelScope(s, f) ==
  {CancelReq(i, c, OrderKind(s, i, c) = "Open") :
      <<i, c>> \in {p \in INST \X CIDS : Matches(f, p[1]) /\ OrderKind(s, p[1], p[2]) \in {"OIF", "Open"}}}
CloseScope(s, f) ==
  {OpenReq(i, CLOSE, IF s.inst[i + 1].net > 0 THEN "sell" ELSE "buy", AbsN(s.inst[i + 1].net)) :
      i \in {j \in INST : Matches(f, j) /\ s.inst[j + 1].net # 0 /\ s.inst[j + 1].priced}}

SnapKind(k, rep) ==
  IF rep = "Inactive" THEN "U"
  ELSE CASE k \in {"CIFn", "CIFo"} -> "CIFo" [] OTHER -> "Open"      \* an open report, nothing filled
CancelRespKind(k, ok) ==
  IF ok THEN "U" ELSE CASE k = "CIFo" -> "Open" [] k = "CIFn" -> "U" [] OTHER -> k

Res(s, outs, nerr, stop, sent) == [st |-> s, outs |-> outs, nerr |-> nerr, stop |-> stop, sent |-> sent]

ApplyEvent(s, ev, env) ==
  CASE ev.a = "Shutdown" -> Res(s, <<>>, 0, TRUE, {})
    [] ev.a = "Market" ->
         Res([Heal(s, ev.ex, "market") EXCEPT !.inst[ev.inst + 1].priced = TRUE], <<>>, 0, FALSE, {})
    \* a market item that carries no price of its own (one-sided or empty top of book, candle,
    \* liquidation): the link is alive, whether the instrument has a price does not change
    [] ev.a = "MarketNoPrice" -> Res(Heal(s, ev.ex, "market"), <<>>, 0, FALSE, {})
    [] ev.a = "MarketReconnecting"  -> Res(Down(s, ev.ex, "market"),  <<Plain("MarketDisconnect", ev.ex)>>, 0, FALSE, {})
    [] ev.a = "AccountReconnecting" -> Res(Down(s, ev.ex, "account"), <<Plain("AccountDisconnect", ev.ex)>>, 0, FALSE, {})
    [] ev.a = "OrderSnap" ->
         Res(SetKind(Heal(s, ev.ex, "account"), ev.inst, ev.cid, SnapKind(OrderKind(s, ev.inst, ev.cid), ev.kind)),
             <<>>, 0, FALSE, {})
    [] ev.a = "CancelResp" ->
         Res(SetKind(Heal(s, ev.ex, "account"), ev.inst, ev.cid, CancelRespKind(OrderKind(s, ev.inst, ev.cid), ev.ok)),
             <<>>, 0, FALSE, {})
    [] ev.a = "Trade" ->
         LET n  == s.inst[ev.inst + 1].net
             n2 == IF ev.side = "buy" THEN n + ev.qty ELSE n - ev.qty
             exit == n # 0 /\ Sign(n2) # Sign(n)
         IN Res([Heal(s, ev.ex, "account") EXCEPT !.inst[ev.inst + 1].net = n2],
                IF exit THEN <<Plain("PositionExit", ev.inst)>> ELSE <<>>, 0, FALSE, {})
    [] ev.a = "Balance" -> Res(Heal(s, ev.ex, "account"), <<>>, 0, FALSE, {})
    [] ev.a = "TradingState" ->
         Res([s EXCEPT !.trading = ev.to],
             IF s.trading = "Enabled" /\ ev.to = "Disabled" THEN <<Plain("OnTradingDisabled", -1)>> ELSE <<>>,
             0, FALSE, {})
    \* ClosePositionsCF: the close-positions command handled by a CUSTOM close strategy (the trait
    \* allows cancels): it first cancels the resting orders of the matching instruments, then closes
    \* with the default market orders.  C19 speaks about the default strategy only (ScopeA); C03's
    \* delivery / in-flight rules hold for whatever the strategy asks for.
    [] ev.a \in {"SendOpens", "SendCancels", "CancelOrders", "ClosePositions", "ClosePositionsCF"} ->
         LET C == CASE ev.a = "SendCancels"  -> ToSet(ev.reqs)
                    [] ev.a \in {"CancelOrders", "ClosePositionsCF"} -> CancelScope(s, ev.filter)
                    [] OTHER -> {}
             O == CASE ev.a = "SendOpens"      -> ToSet(ev.reqs)
                    [] ev.a \in {"ClosePositions", "ClosePositionsCF"} -> CloseScope(s, ev.filter)
                    [] OTHER -> {}
             b == Batch(s, env, C, O, "Commanded", {}, {})
         IN Res(b.st, <<b.out>>, b.nerr, b.nerr > 0, b.sent)

(***************************************************************************)
(* Algo generation (only while trading is enabled, and not after Shutdown   *)
(* or a command that hit an unrecoverable error).                           *)
(***************************************************************************)
Refused(env, R)  == {r \in R : r.cid \in ToSet(env.refuse)}
Approved(env, R) == R \ Refused(env, R)

Step(s, ev, env) ==
  LET a == ApplyEvent(s, ev, env)
      algo == ~a.stop /\ a.st.trading = "Enabled"
      C == ToSet(env.algoC)  O == ToSet(env.algoO)
      b == Batch(a.st, env, Approved(env, C), Approved(env, O), "Algo", Refused(env, C), Refused(env, O))
      empty == C = {} /\ O = {}
      fatal == b.nerr > 0
      s2 == IF algo THEN b.st ELSE a.st
      outs == IF algo /\ ~empty /\ ~fatal THEN Append(a.outs, b.out) ELSE a.outs
      nerr == a.nerr + (IF algo THEN b.nerr ELSE 0)
      sent == a.sent \cup (IF algo THEN b.sent ELSE {})
  IN [st   |-> s2,
      tick |-> [terminal |-> (ev.a = "Shutdown" \/ nerr > 0), errs |-> nerr, outputs |-> outs],
      dl   |-> [e \in 1..NEX |-> {r \in sent : r.ex = e - 1}],
      \* number of deliveries per link (a command and the algo may send identical requests in one step)
      dln  |-> [e \in 1..NEX |-> Cardinality({r \in a.sent : r.ex = e - 1})
                                  + (IF algo THEN Cardinality({r \in b.sent : r.ex = e - 1}) ELSE 0)]]

(***************************************************************************)
(* Behaviour                                                                *)
(***************************************************************************)
NoTick == [seq |-> -1, terminal |-> FALSE, errs |-> 0, outputs |-> <<>>]

Init == /\ st \in {StInit("Enabled"), StInit("Disabled")}
        /\ seq = 0
        /\ tick = NoTick
        /\ dl = [e \in 1..NEX |-> {}]
        /\ last = [ev |-> NoEvent, env |-> NoEnv]

\* events must name tracked-able ids / existing instruments (environment assumption)
\* (the step is bound through a singleton set: TLC re-evaluates a LET of an action at every reference)
Process(ev, env) ==
  \E r \in {Step(st, ev, env)} :
     /\ st' = r.st
     /\ tick' = [seq |-> seq, terminal |-> r.tick.terminal, errs |-> r.tick.errs, outputs |-> r.tick.outputs]
     /\ seq' = seq + 1
     /\ dl' = r.dl
     /\ last' = [ev |-> ev, env |-> env]

IsCmd(a) == a \in {"SendOpens", "SendCancels", "CancelOrders", "ClosePositions", "ClosePositionsCF"}

MarketItem   == ~tick.terminal /\ \E ev \in {x \in EVENTS : x.a \in {"Market", "MarketNoPrice"}}, env \in ENVS : Process(ev, env)
Disconnects  == ~tick.terminal /\ \E ev \in {x \in EVENTS : x.a \in {"MarketReconnecting", "AccountReconnecting"}}, env \in ENVS : Process(ev, env)
AccountItem  == ~tick.terminal /\ \E ev \in {x \in EVENTS : x.a \in {"OrderSnap", "CancelResp", "Trade", "Balance"}}, env \in ENVS : Process(ev, env)
TradingState == ~tick.terminal /\ \E ev \in {x \in EVENTS : x.a = "TradingState"}, env \in ENVS : Process(ev, env)
Commands     == ~tick.terminal /\ \E ev \in {x \in EVENTS : IsCmd(x.a)}, env \in ENVS : Process(ev, env)
Shutdown     == ~tick.terminal /\ \E ev \in {x \in EVENTS : x.a = "Shutdown"}, env \in ENVS : Process(ev, env)

\* a terminal tick ends the run
Next == MarketItem \/ Disconnects \/ AccountItem \/ TradingState \/ Commands \/ Shutdown

Spec == Init /\ [][Next]_vars

(***************************************************************************)
(* Properties.  All are statements about one step (st, last', tick', dl',   *)
(* st'), written independently of the definitions above where possible.     *)
(***************************************************************************)
TickSent(t) == UNION {o.sentO \cup o.sentC : o \in ToSet(t.outputs)}
TickErrs(t) == UNION {o.errO \cup o.errC : o \in ToSet(t.outputs)}
TickRefs(t) == UNION {o.refO \cup o.refC : o \in ToSet(t.outputs)}
Delivered(d) == UNION {d[e] : e \in DOMAIN d}
Strip(r) == Req(r.k, r.ex, r.inst, r.cid, r.side, r.qty, r.hasId)

\* C03: what the tick reports as sent was delivered, exactly once (sets + the driver's
\* no-duplicates discipline), on the link of the exchange it names; equal unless fatal
SentDeliveredA ==
  /\ \A r \in TickSent(tick') : r.ex \in 0..(NEX - 1) /\ r \in dl'[r.ex + 1]
  /\ \A e \in DOMAIN dl' : \A r \in dl'[e] : r.ex = e - 1
  /\ (tick'.errs = 0 => Delivered(dl') = TickSent(tick'))
\* C03: each sent open is shown in flight; each sent cancel of a tracked order is cancel-in-flight
SentInFlightA ==
  \A r \in Delivered(dl') :
     /\ (r.k = "open" => OrderKind(st', r.inst, r.cid) \in {"OIF", "CIFn"})   \* CIFn: cancelled again by the algo in the same step
     /\ (r.k = "cancel" /\ ~(\E o \in Delivered(dl') : o.k = "open" /\ o.inst = r.inst /\ o.cid = r.cid)
           => OrderKind(st', r.inst, r.cid) \in {"CIFn", "CIFo", "U"})
\* C03: failed => reported with its error class, not delivered, fatal => terminal tick
FailedNeitherA ==
  LET env == last'.env IN
  /\ \A r \in TickErrs(tick') :
        /\ (Strip(r) \in Delivered(dl') => Strip(r) \in TickSent(tick'))   \* (an identical request may have been sent by the command or the algo of the same step)
        /\ r.unrec = (r.ex \notin 0..(NEX - 1) \/ env.link[r.ex + 1] \in {"closed", "missing"})
        /\ (r.unrec => tick'.terminal /\ tick'.errs > 0)
  /\ \A r \in TickRefs(tick') : r \in Delivered(dl') => r \in TickSent(tick')
  /\ (tick'.errs > 0 => tick'.terminal)
\* C03: no in-flight marker appears without a delivery
NoPhantomInFlightA ==
  \A i \in INST, c \in CIDS :
     /\ (OrderKind(st', i, c) = "OIF" /\ OrderKind(st, i, c) # "OIF"
           => \E r \in Delivered(dl') : r.k = "open" /\ r.inst = i /\ r.cid = c)
     /\ (OrderKind(st', i, c) \in {"CIFn", "CIFo"} /\ OrderKind(st, i, c) \notin {"CIFn", "CIFo"}
           => \E r \in Delivered(dl') : r.k = "cancel" /\ r.inst = i /\ r.cid = c)
\* C03: while trading is disabled only commands cause requests; enabling resumes on that event
DisabledSilentA ==
  LET ev == last'.ev IN
  /\ (st'.trading = "Disabled" => \A o \in ToSet(tick'.outputs) : o.k # "Algo")
  /\ (st'.trading = "Disabled" /\ ~IsCmd(ev.a) => Delivered(dl') = {})
  /\ (ev.a = "TradingState" /\ ev.to = "Enabled" /\ tick'.errs = 0
        => Delivered(dl') = Sent(last'.env, Approved(last'.env, ToSet(last'.env.algoC) \cup ToSet(last'.env.algoO))))

\* C19: scope of the two filter commands (trading disabled so that only the command acts)
ScopeA ==
  LET ev == last'.ev
      asked == {Strip(r) : r \in TickSent(tick') \cup TickErrs(tick')}
  IN (ev.a \in {"CancelOrders", "ClosePositions"} /\ st.trading = "Disabled") =>
     /\ (ev.a = "CancelOrders" =>
           /\ \A i \in INST, c \in CIDS :
                 (Matches(ev.filter, i) /\ OrderKind(st, i, c) \in {"OIF", "Open"})
                    <=> (\E r \in asked : r.k = "cancel" /\ r.inst = i /\ r.cid = c /\ r.ex = ExOf(i)
                                          /\ r.hasId = (OrderKind(st, i, c) = "Open"))
           /\ \A r \in asked : r.k = "cancel"
           /\ Cardinality(asked) = Cardinality({p \in INST \X CIDS : Matches(ev.filter, p[1]) /\ OrderKind(st, p[1], p[2]) \in {"OIF", "Open"}}))
     /\ (ev.a = "ClosePositions" =>
           /\ \A i \in INST :
                 (Matches(ev.filter, i) /\ st.inst[i + 1].net # 0 /\ st.inst[i + 1].priced)
                    <=> (\E r \in asked : r.k = "open" /\ r.inst = i /\ r.ex = ExOf(i)
                                          /\ r.qty = AbsN(st.inst[i + 1].net)
                                          /\ r.side = (IF st.inst[i + 1].net > 0 THEN "sell" ELSE "buy"))
           /\ Cardinality(asked) = Cardinality({j \in INST : Matches(ev.filter, j) /\ st.inst[j + 1].net # 0 /\ st.inst[j + 1].priced}))
     /\ \A i \in INST : ~Matches(ev.filter, i) => st'.inst[i + 1] = st.inst[i + 1]      \* untouched
     /\ \A i \in INST : st'.inst[i + 1].net = st.inst[i + 1].net                        \* positions change only through fills
     /\ \A i \in INST, c \in CIDS : OrderKind(st, i, c) \in {"CIFn", "CIFo"}           \* already cancelling: left alone
                                       => (OrderKind(st', i, c) = OrderKind(st, i, c) \/ (c = CLOSE /\ ev.a = "ClosePositions"))

\* C14: global health is healthy exactly when every link is; a notice marks exactly that link;
\* the next event from the link heals it; one disconnect output per notice, naming the exchange
ConnIff == (st.conn.global = "Healthy") <=> AllHealthy(st.conn.ex)
ConnStepA ==
  LET ev == last'.ev
      Notices == {o \in ToSet(tick'.outputs) : o.k \in {"MarketDisconnect", "AccountDisconnect"}}
  IN /\ (ev.a = "MarketReconnecting" =>
           /\ st'.conn.ex[ev.ex + 1].market = "Reconnecting"
           /\ st'.conn.ex[ev.ex + 1].account = st.conn.ex[ev.ex + 1].account
           /\ \A e \in DOMAIN st.conn.ex : e # ev.ex + 1 => st'.conn.ex[e] = st.conn.ex[e]
           /\ Notices = {Plain("MarketDisconnect", ev.ex)})
     /\ (ev.a = "AccountReconnecting" =>
           /\ st'.conn.ex[ev.ex + 1].account = "Reconnecting"
           /\ st'.conn.ex[ev.ex + 1].market = st.conn.ex[ev.ex + 1].market
           /\ \A e \in DOMAIN st.conn.ex : e # ev.ex + 1 => st'.conn.ex[e] = st.conn.ex[e]
           /\ Notices = {Plain("AccountDisconnect", ev.ex)})
     /\ (ev.a \in {"Market", "MarketNoPrice"} => st'.conn.ex[ev.ex + 1].market = "Healthy")
     /\ (ev.a \in {"OrderSnap", "CancelResp", "Trade", "Balance"} => st'.conn.ex[ev.ex + 1].account = "Healthy")
     /\ (ev.a \notin {"MarketReconnecting", "AccountReconnecting"} => Notices = {})

\* C10 (sequence part): one tick per processed event, consecutive numbers, nothing after a terminal tick
TickSeqA == tick'.seq = seq /\ seq' = seq + 1 /\ ~tick.terminal

StepProps == SentDeliveredA /\ SentInFlightA /\ FailedNeitherA /\ NoPhantomInFlightA /\ DisabledSilentA
             /\ ScopeA /\ ConnStepA /\ TickSeqA

SentDelivered     == [][SentDeliveredA]_vars
SentInFlight      == [][SentInFlightA]_vars
FailedNeither     == [][FailedNeitherA]_vars
NoPhantomInFlight == [][NoPhantomInFlightA]_vars
DisabledSilent    == [][DisabledSilentA]_vars
Scope             == [][ScopeA]_vars
ConnStep          == [][ConnStepA]_vars
TickSeq           == [][TickSeqA]_vars

View == <<st, seq, tick.terminal>>
=============================================================================
