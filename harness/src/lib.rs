//! Shared helpers of the conformance harness (`vh`).
//!
//! Every area has one binary under `src/bin/`; they share argument parsing, NDJSON I/O, the
//! seeded RNG, the time/decimal conventions and the standard instrument "world".
pub mod cmp;
pub mod engine_gen;
pub mod engine_kit;
pub mod util;
pub mod world;
pub mod world2;
