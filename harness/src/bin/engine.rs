//! Engine-level conformance driver for spec/EngineCore.tla (C03, C19, C14, C10-sequence).
//!
//! `engine run    --scenarios f.ndjson --out trace.ndjson`   TLC-generated behaviours
//! `engine random --seed S --steps N --out trace.ndjson`     seeded random histories with faults
//!
//! Every step goes through the real `process_with_audit(&mut engine, event)`; the line records the
//! event, the environment installed for the step (link faults, strategy script, risk refusals),
//! the audit tick, what each execution link received, and the projected engine state.
//! World: harness/src/world2.rs - three exchanges, six instruments.
use barter::engine::{process_with_audit, state::trading::TradingState};
use rand::Rng;
use serde_json::{Value, json};
use vh::{engine_gen::*, engine_kit::*, util::*};

fn trading_of(s: &str) -> TradingState {
    if s == "Enabled" { TradingState::Enabled } else { TradingState::Disabled }
}

struct Driver {
    kit: Kit,
    out: Out,
    t: i64,
    steps: usize,
    terminal: bool,
    persists: usize,
}

impl Driver {
    fn reset(&mut self, trading: &str) {
        self.kit = Kit::new(trading_of(trading));
        self.terminal = false;
        self.out.line(&json!({"a": "Reset", "post": project_state(&self.kit.engine.state), "seq": 0}));
    }

    fn step(&mut self, ev: &Value, env: &Value) {
        // (replay files recorded in the two-exchange world: the third link is healthy)
        let env = &Kit::normalise_env(env);
        self.t += 1;
        self.steps += 1;
        let mut evt = ev.clone();
        evt["t"] = json!(self.t);
        evt["price"] = json!(100 + (self.t % 7));
        self.kit.set_env(env);
        self.kit.set_close_mode(ev);
        // Persist (a stutter of EngineCore): now and then the parts of the engine state that have a JSON form -
        // connectivity, trading state, the instrument states - are stored and restored before the event is
        // processed (state shipped to a replica / kept across a restart). A stored and restored state is the
        // same state, so the step that follows must be the step of the specification from the state BEFORE.
        if self.t % 4 == 1 {
            let st = &mut self.kit.engine.state;
            let r = catch(|| -> Result<(), String> {
                let text = serde_json::to_string(&st.connectivity).map_err(|e| format!("serialise connectivity: {e}"))?;
                st.connectivity = serde_json::from_str(&text).map_err(|e| format!("deserialise connectivity: {e}"))?;
                let text = serde_json::to_string(&st.trading).map_err(|e| format!("serialise trading state: {e}"))?;
                st.trading = serde_json::from_str(&text).map_err(|e| format!("deserialise trading state: {e}"))?;
                let text = serde_json::to_string(&st.instruments).map_err(|e| format!("serialise instrument states: {e}"))?;
                st.instruments = serde_json::from_str(&text).map_err(|e| format!("deserialise instrument states: {e}"))?;
                Ok(())
            });
            let failed = match r { Ok(Ok(())) => None, Ok(Err(e)) => Some(e), Err(p) => Some(format!("panic: {p}")) };
            if let Some(e) = failed {
                self.terminal = true;
                self.out.line(&json!({"a": "Step", "ev": ev, "env": env, "anomaly": format!("store / restore of the engine state failed: {e}")}));
                return;
            }
            self.persists += 1;
        }
        let _ = self.kit.links.take();
        self.kit.script.lock().disconnects.clear();
        let engine = &mut self.kit.engine;
        let res = catch(|| process_with_audit(engine, make_event(&evt)));
        let line = match res {
            Ok(tick) => {
                let t = project_tick(&tick);
                self.terminal = t["terminal"].as_bool().unwrap_or(false);
                let dl: Vec<Vec<Value>> = self.kit.links.take().iter().map(|l| l.iter().map(exec_json).collect()).collect();
                // on-disconnect strategy invocations of this step (exchange indices, in call order)
                let disc: Vec<i64> = self.kit.script.lock().disconnects.iter()
                    .map(|e| vh::world2::EXCHANGES.iter().position(|x| x == e).map(|p| p as i64).unwrap_or(-1)).collect();
                json!({"a": "Step", "ev": ev, "env": env, "tick": t, "dl": dl, "disc": disc, "post": project_state(&self.kit.engine.state)})
            }
            Err(p) => {
                self.terminal = true;
                json!({"a": "Step", "ev": ev, "env": env, "anomaly": format!("panic: {p}")})
            }
        };
        self.out.line(&line);
    }
}

fn main() {
    let args = Args::parse();
    // The specification's world (which instrument lives on which exchange, shared underlyings, index order) is what
    // the real index construction must yield for the definitions of harness/src/world2.rs. If it does not, no step of
    // the engine can be compared with EngineCore: that deviation is reported as data (a violation of every property
    // decided on this world), not as a crash of the harness.
    if let Err(p) = catch(|| { let _ = Kit::new(TradingState::Disabled); }) {
        let mut out = Out::create(args.req("out"));
        out.line(&json!({"a": "World", "anomaly": format!("the engine world cannot be built as specified: {p}")}));
        let n = out.finish();
        println!("{}", json!({"lines": n, "steps": 0, "world_error": p}));
        return;
    }
    let mut d = Driver { kit: Kit::new(TradingState::Disabled), out: Out::create(args.req("out")), t: 0, steps: 0, terminal: false, persists: 0 };
    match args.cmd.as_str() {
        "run" => {
            for scn in read_ndjson(args.req("scenarios")) {
                d.reset(s(&scn, "init"));
                for st in scn["steps"].as_array().expect("steps") {
                    if d.terminal {
                        break;
                    }
                    d.step(&st["ev"], &st["env"]);
                }
            }
        }
        "random" => {
            let mut rng = rng(args.u64("seed", 1));
            let steps = args.usize("steps", 3000);
            let mut since = usize::MAX;
            while d.steps < steps {
                if d.terminal || since >= 60 {
                    d.reset(if rng.random_bool(0.5) { "Enabled" } else { "Disabled" });
                    since = 0;
                }
                since += 1;
                let e = random_event(&mut rng);
                let env = random_env(&mut rng);
                d.step(&e, &env);
            }
        }
        c => usage(&format!("unknown command {c}")),
    }
    let n = d.out.finish();
    println!("{}", json!({"lines": n, "steps": d.steps, "persists": d.persists}));
}
