SPECIFICATION GSpec
CONSTANTS
  Runs = {1}
  Params <- GenParams
  OrderKinds = {"balance", "trade"}
  NS = {3, 4}
  RECS = {{}, {3}, {1}, {1, 2}}
  MaxOrders = 2
INVARIANT Emit PrefixAlways CompleteInOrder
CHECK_DEADLOCK FALSE
