"""C12 - reconnecting streams deliver every item once, in order, with one notice per drop; back-off
policy; never ends; merge keeps each input's order (spec/Reconnect.tla, spec/Merge.tla)."""
import json
import vlib

MODULE = ["Reconnect", "WireStream", "Merge", "AccountLink"]
META = {
    "spec": MODULE,
    "level_text": "TLC decides the property exhaustively on the bounded TLA+ models spec/Reconnect.tla (all scripts of "
                  "connection outcomes up to the bound x back-off policies x error modes, safety and progress) and "
                  "spec/Merge.tla (all send/close/poll interleavings), every action covered; the models are bound to the code by "
                  "running every TLC-generated script and seeded random long scripts through the real init_market_stream "
                  "chain (and forward_to + channel + with_error_handler) and the real merge, and validating every recorded "
                  "step, with its virtual-time stamp, against the specification.",
    "technique": "TLA+ specs Reconnect and Merge model-checked with TLC (all scripts of connection outcomes up to a "
                 "bound x back-off policies; all send/close/poll interleavings); two-way conformance: every TLC-generated "
                 "script becomes the init of a scripted exchange consumed through the real init_market_stream chain under "
                 "tokio's paused clock and is compared with the spec's expected observations, and every recorded trace "
                 "(init-call instants, back-off waits, emissions with virtual-time stamps; merge polls) is validated by TLC "
                 "against the spec's own actions",
    "level_note": "Trusted: TLC, the scripted exchange / projection in harness/src/bin/c12.rs, tokio's paused clock, the "
                  "environment assumptions listed in the evidence file.",
}
ASSUMPTIONS = [
    "wire level: a connection's items are the frames received after the FIRST subscription confirmation (what arrives before "
    "any confirmation is discarded by the validator by design); a message that does not parse is an error item only once the "
    "stream exists - while confirmations are outstanding it is logged and dropped by process_buffered_events (by design); "
    "errors that merely report the socket closing (close frame / reset) are not items and are skipped by the projection; "
    "instants are not observed at the wire level (real clock)",
    "back-off policies are well formed: backoff_ms_initial <= backoff_ms_max and backoff_multiplier >= 1 (otherwise the "
    "code's first wait is the initial value even above the maximum - outside the closed form min(b0*mult^(n-1), max))",
    "the instant at which an available item is delivered is left open (any instant not before its availability); the waits "
    "between a failed init and the next attempt, and the immediate attempt after a connection ended, are exact",
    "terminal / non-terminal is decided by the production classifier DataError::is_terminal (InvalidSequence is terminal, "
    "Socket is not); a scripted connection that is silent for ever is represented by the exhausted script (init pends)",
    "runs of consecutive init failures in the random driver are mostly at most 10 long; one script in eight has a run of 60-80 (the law is evaluated with saturation, inside TLC's 32-bit integers)",
    "merge: which side a poll takes when both have items, and whether a poll returns an item of the other side or the end "
    "once one input has ended, is left open (DESIGN 5.4); a send after the merged stream ended may be refused",
]

WIRE_ARMS = ["InitCall", "Emit/Item/stream", "Emit/Err/stream", "Emit/Err/handler", "Emit/Notice/stream", "Stop/cut"]
RECONNECT_ARMS = ["InitCall", "Wait", "Emit/Item/stream", "Emit/Err/stream", "Emit/Err/handler", "Emit/Notice/stream",
                  "Stop/quiet", "Stop/nostream"]
MERGE_ARMS = ["SendL", "SendR", "CloseL", "CloseR", "Poll/Item", "Poll/Pending", "Poll/End"]


def kind(line):
    a = line.get("a")
    if a == "Emit":
        return "Emit/%s/%s" % (line.get("k"), line.get("via"))
    if a == "Stop":
        return "Stop/%s" % line.get("k")
    return str(a)


def mkind(line):
    a = line.get("a")
    if a == "Poll":
        return "Poll/%s" % line.get("r")
    return a + ("/refused" if line.get("r") == "refused" else "")


def anomaly(line):
    if line.get("a") == "Stop" and line.get("k") == "panic":
        return "the stream chain panicked"
    if line.get("a") == "Stop" and line.get("k") == "runaway":
        return "the stream produced far more events than the script contains"
    at = line.get("at", 0)
    if not isinstance(at, int) or at < 0 or at > 2_000_000_000:
        return "virtual instant out of range: %s" % at
    v = line.get("v", 0)
    if not isinstance(v, int) or abs(v) > 2_000_000_000:
        return "value out of range: %s" % v
    return None


def count_arms(ctx, lines, kind_of, key):
    arms = ctx.arms.setdefault(key, {})
    for l in lines:
        if l.get("a") != "Reset":
            k = kind_of(l)
            arms[k] = arms.get(k, 0) + 1


def ordinal(keep, b):
    return sum(1 for l in keep[:b] if l.get("a") == "Reset") - 1


def validate_reconnect(ctx, trace_path, label, wire=False):
    """wire=True: a wire-level trace (segments start with ResetWire and carry the frames of every connection)."""
    reset = "ResetWire" if wire else "Reset"
    rkind = "wire" if wire else "reconnect"
    lines = ctx.read_trace(trace_path)
    clean = ctx.path("clean_" + label + ".ndjson")
    found, keep = ctx.screen_anomalies(lines, clean, anomaly, reset_value=reset)
    for n, d, seg in found:
        ctx.violation(("wire-" if wire else "") + "anomaly:" + d.split(":")[0],
                      "%s [%s, line %d] scenario %s" % (d, label, n, json.dumps(scenario_of(seg))),
                      {"kind": rkind, "scenario": scenario_of(seg)})
    count_arms(ctx, [l for l in keep if l.get("a") != reset], kind, rkind)
    n, bad, _ = ctx.tlc_trace("Trace_Reconnect", "Trace_Reconnect.cfg", clean)
    for b in bad:
        seg = ctx.segment(keep, b, reset_value=reset)
        line = keep[b - 1]
        prev = seg[-2] if len(seg) >= 2 else {"a": "?"}
        scn = scenario_of(seg)
        sig = "%s:%s->%s" % ("wire" if wire else "trace", kind(prev), kind(line))
        seen = [[l["a"], l.get("k"), l.get("v"), l.get("at")] for l in seg[1:-1]]
        if wire:
            desc = ("wire level (real OKX public-trades connection against the loopback exchange), mode %s: after %s the "
                    "implementation showed %s, which is not a step of Reconnect for the script Wire!WireScript(wire) [%s, line %d]; "
                    "observed so far %s; frames per connection %s" % (
                        scn["mode"], json.dumps(prev if prev.get("a") != reset else {"a": reset}), json.dumps(line), label, b,
                        json.dumps([[x[1], x[2]] if x[0] == "Emit" else x[0] for x in seen][-16:]), json.dumps(scn["wire"])))
        else:
            scn["variant"] = sum(1 for l in keep[:b] if l.get("a") == reset) - 1
            desc = ("policy %s, mode %s: after %s the implementation showed %s, which is not a step of Reconnect "
                    "[%s, line %d]; observed so far %s; script %s" % (
                        json.dumps(scn["pol"]), scn["mode"], json.dumps(prev if prev.get("a") != reset else {"a": reset}),
                        json.dumps(line), label, b, json.dumps(seen[-12:]), json.dumps(scn["script"])))
        ctx.violation(sig, desc, {"kind": rkind, "scenario": scn})
    ctx.cov["traces_validated_against_impl"] += sum(1 for l in keep if l.get("a") == reset)
    return n


def scenario_of(seg):
    r = seg[0]
    if r.get("a") == "ResetWire":
        return {"mode": r.get("mode"), "pol": r.get("pol"), "wire": r.get("wire")}
    return {"mode": r.get("mode"), "pol": r.get("pol"), "script": r.get("script")}


def wire_scenarios(conns, per=4):
    """Group TLC's connection scripts (Gen_WireStream) into scenarios of `per` connections with one subscription
    set, giving every trade / garbage frame a value that is unique within the scenario."""
    scns = []
    for need in sorted({c["need"] for c in conns}):
        group = [c for c in conns if c["need"] == need]
        for n in range(0, len(group), per):
            wire = []
            for j, c in enumerate(group[n:n + per]):
                wire.append({"need": need, "frames": [{"t": f["t"], "vs": [v + 100 * j for v in f["vs"]]} for f in c["frames"]]})
            scns.append({"mode": "handler" if len(scns) % 2 else "stream", "pol": {"b0": 125, "mult": 2, "max": 60000}, "wire": wire})
    return scns


def run_wire(ctx, label, *args):
    out = ctx.path("trace_%s.ndjson" % label)
    info = ctx.harness("c12", *args, "--out", out)
    validate_reconnect(ctx, out, label, wire=True)
    return info


def judge_results(ctx, res_path, label):
    res = ctx.read_results(res_path)
    for r in res:
        if not r["ok"]:
            field = r["error"].split(":")[0].split("[")[0]
            scn = dict(r["scenario"], variant=r["scn"])
            ctx.violation("replay:%s:%s" % (r["what"], field),
                          "%s: %s; policy %s, mode %s, script %s; direct run %s; forwarded run %s [%s, scenario %d]" % (
                              r["what"], r["error"], json.dumps(scn["pol"]), scn["mode"], json.dumps(scn["script"]),
                              json.dumps(r["direct"]), json.dumps(r["forwarded"]), label, r["scn"]),
                          {"kind": "reconnect", "scenario": scn})
    ctx.cov["scenarios_replayed"] += len(res)


def validate_merge(ctx, trace_path, label):
    lines = ctx.read_trace(trace_path)
    clean = ctx.path("clean_" + label + ".ndjson")
    found, keep = ctx.screen_anomalies(
        lines, clean, lambda l: "the merged stream panicked when polled" if l.get("r") == "panic" else None)
    for n, d, seg in found:
        ctx.violation("merge-anomaly:panic", "%s [%s, line %d] schedule %s" % (d, label, n, ops_of(seg)),
                      {"kind": "merge", "ops": ops_of(seg)})
    count_arms(ctx, keep, mkind, "merge")
    n, bad, _ = ctx.tlc_trace("Trace_Merge", "Trace_Merge.cfg", clean)
    for b in bad:
        seg = ctx.segment(keep, b)
        line = keep[b - 1]
        sent = {s: [l["v"] for l in seg if l["a"] == "Send" + s and l["r"] == ""] for s in "LR"}
        closed = [s for s in "LR" if any(l["a"] == "Close" + s for l in seg[:-1])]
        got = [l["v"] for l in seg[:-1] if l["a"] == "Poll" and l["r"] == "Item"]
        ended = any(l["a"] == "Poll" and l["r"] == "End" for l in seg[:-1])
        sig = "merge:%s:%s" % (mkind(line), "after-end" if ended else "closed" + "".join(closed) if closed else "open")
        desc = ("merge: sent left %s right %s, closed %s, output so far %s%s; then %s is not a step of Merge [%s, line %d]" % (
            sent["L"], sent["R"], closed or "none", got, " (ended)" if ended else "", json.dumps(line), label, b))
        ctx.violation(sig, desc, {"kind": "merge", "ops": ops_of(seg), "variant": ordinal(keep, b)})
    ctx.cov["traces_validated_against_impl"] += sum(1 for l in keep if l.get("a") == "Reset")
    return n


def ops_of(seg):
    return [l["a"] for l in seg[1:]]


def require_arms(ctx):
    for key, arms in (("reconnect", RECONNECT_ARMS), ("wire", WIRE_ARMS), ("merge", MERGE_ARMS)):
        missing = [a for a in arms if ctx.arms.get(key, {}).get(a, 0) == 0]
        if missing:
            raise vlib.ToolError("the recorded %s traces never exercised %s (vacuous binding)" % (key, missing))


def run_reconnect(ctx, label, *args):
    out, res = ctx.path("trace_%s.ndjson" % label), ctx.path("results_%s.ndjson" % label)
    info = ctx.harness("c12", *args, "--out", out, "--results", res)
    judge_results(ctx, res, label)
    validate_reconnect(ctx, out, label)
    return info


def check(ctx):
    ctx.assumptions += ASSUMPTIONS
    ctx.arms = {}
    ctx.build("c12")
    q = ctx.quick
    # ---- the specifications, exhaustively (quick configurations with action coverage = vacuity check)
    # (selftest/c12_mutants.py sets ctx.impl_only: source mutants do not change the specification)
    impl_only = getattr(ctx, "impl_only", False)
    if not impl_only:
        ctx.tlc_mc("MC_Reconnect", "MC_Reconnect.cfg", timeout=900)
        ctx.tlc_mc("MC_Reconnect", "MC_Reconnect_timed.cfg", timeout=900)
        ctx.tlc_mc("Merge", "MC_Merge.cfg", timeout=600)
        ctx.tlc_mc("WireStream", "MC_WireStream.cfg", timeout=600)
    if not q and not impl_only:
        ctx.tlc_mc("WireStream", "MC_WireStream_thorough.cfg", timeout=900)
        ctx.tlc_mc("MC_Reconnect", "MC_Reconnect_thorough.cfg", timeout=2400, coverage=False)
        ctx.tlc_mc("MC_Reconnect", "MC_Reconnect_timed_thorough.cfg", timeout=2400, coverage=False)
        ctx.tlc_mc("Merge", "MC_Merge_thorough.cfg", timeout=900)
    # ---- Reconnect: every script up to the bound x policies x modes, with the spec's expectation
    suffix = "" if q else "_thorough"
    p_a, scn_a = ctx.tlc_gen("Gen_Reconnect", "GenA_Reconnect%s.cfg" % suffix, "scripts.ndjson", dedup=False, timeout=1200)
    p_b, scn_b = ctx.tlc_gen("Gen_Reconnect", "GenB_Reconnect%s.cfg" % suffix, "scripts_timed.ndjson", dedup=False, timeout=1200)
    pick = [s for s in scn_a if len(s["script"]) >= 4 and s["exp"]["waits"] and any(e["k"] == "Term" for o in s["script"] for e in o["body"])]
    ctx.sample({"kind": "TLC script with the spec's expected observations", "scenario": (pick or scn_a)[len(pick) // 2]})
    ctx.sample({"kind": "TLC script with latencies and silences", "scenario": scn_b[len(scn_b) // 2]})
    run_reconnect(ctx, "scripts", "run", "--scenarios", p_a)
    run_reconnect(ctx, "scripts_timed", "run", "--scenarios", p_b)
    # ---- seeded random long scripts (latencies, silences, failure runs up to 10, six policies)
    run_reconnect(ctx, "random", "random", "--seed", ctx.seed, "--n", 400 if q else 4000)
    # ---- wire level: every connection script of WireStream's bound + seeded random ones, played by a loopback
    #      websocket exchange to the real OKX public-trades connection under the real init_market_stream
    p_w, conns = ctx.tlc_gen("Gen_WireStream", "Gen_WireStream%s.cfg" % suffix, "wire_conns.ndjson", dedup=False, timeout=900)
    wscn = wire_scenarios(conns)
    p_ws = ctx.path("wire_scenarios.ndjson")
    with open(p_ws, "w") as f:
        for w in wscn:
            f.write(json.dumps(w) + "\n")
    between = [w for w in wscn if any(any(f["t"] == "data" and len(f["vs"]) > 1 for f in c["frames"][1:c["need"] + 1]) for c in w["wire"])]
    ctx.sample({"kind": "wire-level scenario (frames per connection)", "scenario": (between or wscn)[0]})
    run_wire(ctx, "wire", "wire", "--scenarios", p_ws)
    ctx.cov["scenarios_replayed"] += len(wscn)
    run_wire(ctx, "wire_random", "wire-random", "--seed", ctx.seed, "--n", 150 if q else 1500)
    # ---- Merge: all schedules of the small graph + seeded random long schedules
    p_m, scn_m = ctx.tlc_gen("Gen_Merge", "GenT_Merge%s.cfg" % suffix, "schedules.ndjson", timeout=900)
    ctx.sample({"kind": "TLC merge schedule", "scenario": scn_m[len(scn_m) // 2]})
    out = ctx.path("trace_merge.ndjson")
    ctx.harness("c12", "merge-run", "--scenarios", p_m, "--out", out)
    validate_merge(ctx, out, "merge")
    ctx.cov["scenarios_replayed"] += len(scn_m)
    out = ctx.path("trace_merge_random.ndjson")
    ctx.harness("c12", "merge-random", "--seed", ctx.seed, "--n", 300 if q else 3000, "--out", out)
    validate_merge(ctx, out, "merge_random")
    # ---- the account link of an exchange (ExecutionManager::init: reconnecting, indexed account stream merged with
    #      the manager's responses): spec/AccountLink.tla model-checked here, bound to the real code in both directions
    #      (props/acctlink.py); C12 answers for order, loss, duplication, notices, back-off, never-ends
    from props import acctlink
    acctlink.run(ctx, {"C12"}, mc=True)
    if not ctx.violations:      # (with violations a missing arm is a symptom of the defect, not vacuity)
        require_arms(ctx)
    return ctx.finish(extra={"trace_arm_counts": ctx.arms})


def replay(ctx, rp):
    ctx.arms = {}
    if rp.get("kind") == "acctlink":
        from props import acctlink
        return acctlink.replay(ctx, rp, {"C12"})
    ctx.build("c12")
    scn = ctx.path("replay_scn.ndjson")
    if rp.get("kind") == "merge":
        with open(scn, "w") as f:
            f.write(json.dumps({"ops": rp["ops"], "variant": rp.get("variant", 0)}) + "\n")
        out = ctx.path("replay_trace.ndjson")
        ctx.harness("c12", "merge-run", "--scenarios", scn, "--out", out)
        validate_merge(ctx, out, "replay")
    elif rp.get("kind") == "wire":
        with open(scn, "w") as f:
            f.write(json.dumps(rp["scenario"]) + "\n")
        run_wire(ctx, "replay", "wire", "--scenarios", scn)
    else:
        with open(scn, "w") as f:
            f.write(json.dumps(rp["scenario"]) + "\n")
        run_reconnect(ctx, "replay", "run", "--scenarios", scn)
    return ctx.finish(write_evidence=False)
