SPECIFICATION Spec
CONSTANTS
  CID = {"c1", "c2"}
  EXCH = {"d0", "x1"}
  TRADED = {"x1"}
  MaxSends = 2
  MaxKills = 1
  MaxMkt = 0
INVARIANTS TypeOK AtMostOnce InFlightBacked Routed ConnMatchesLinks DataOnlyAccountDown NeverGloballyHealthy
PROPERTIES Resolved Noticed Synced OnDisconnectExact
CHECK_DEADLOCK FALSE
