SPECIFICATION Spec
CONSTANTS
  REQ = {1, 2, 3}
  T = 2
  ACCEPT = {0, 1, 2}
  DELAY = {0, 1, 2, 3}
  EX = 0
  INST = {0}
  SIDE = {"buy"}
  PRICE = {10}
  QTY = {1}
  BUNDLE = {"lim"}
  STALL = {2, 4}
  LateResponseOK = TRUE
  NoTimeout = FALSE
INVARIANTS TypeOK AtMostOne ExactlyOnce Kind Attribution
PROPERTIES Stable
CHECK_DEADLOCK FALSE
