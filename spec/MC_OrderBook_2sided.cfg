SPECIFICATION Spec
CONSTANTS
  PRICE = {1, 2}
  AMOUNT = {0, 1, 2}
  SEQS = {1, 2}
  MaxLong = 2
  MaxShort = 1
  MaxSnap = 1
  StableUpTo = 20
INVARIANTS TypeOK Strict DerivedOK
PROPERTIES SeqIsLast SnapshotReplaces UpdatePointwise LastWins
VIEW View
CHECK_DEADLOCK FALSE
