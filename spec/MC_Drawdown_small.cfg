SPECIFICATION Spec
CONSTANTS
  Values = {0, 1, 2, 3}
  NegMag = {1, 2}
  Gaps = {0, 1}
  MaxLen = 2
INVARIANTS TypeOK RunIsRef ReadIsCurrent PeakToTrough Recovery OnePerPeak NoneIffMonotone MaxIsLargest ClassicMDD
PROPERTIES ReadingIsPure
CHECK_DEADLOCK FALSE
