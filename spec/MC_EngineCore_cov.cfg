SPECIFICATION Spec
CONSTANTS
  CIDS = {"c1", "c2", "x"}
  EVENTS <- MCEvents
  ENVS <- MCEnvs1
  MaxSeq = 1
INVARIANT ConnIff
PROPERTIES SentDelivered SentInFlight FailedNeither NoPhantomInFlight DisabledSilent Scope ConnStep TickSeq
CONSTRAINT Bound
VIEW View
CHECK_DEADLOCK FALSE
