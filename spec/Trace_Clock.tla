----------------------------- MODULE Trace_Clock -----------------------------
(* Trace validation for the engine clock (impl -> spec): lines recorded by       *)
(* harness/src/bin/clock.rs from real HistoricalClock objects and real Engines.  *)
(* All lines carry the same fields:                                              *)
(*   a    "Reset" | "New" | "Clone" | "Process" | "Read"                         *)
(*   h,g  handle (g: the new handle of Clone); n: the seed of New                *)
(*   ev   {kind, t, items} the event of Process (what the driver BUILT the real  *)
(*        EngineEvent from - the decision table is applied here, by EventTime)   *)
(*   lo,hi  the machine's wall clock read immediately before / after the call    *)
(*   v    Read: the time observed (clock.time(), engine.time(), the audit tick's *)
(*        context time, the summary generator's time_engine_now)                 *)
(*   src, via  description only                                                  *)
(* Units: integer milliseconds; exchange times and observed times as offsets     *)
(* from the harness epoch, wall readings as offsets from the (millisecond        *)
(* aligned) start of the recording - only differences of wall readings are used. *)
(*                                                                               *)
(* What is measured and what is not.  The clock's state is private: the trace    *)
(* does NOT log a post-state.  The specification's state is advanced by Clock's  *)
(* own actions from the logged calls alone (NewAt / CloneAt / ProcessAt with the *)
(* wall reading `lo` = WallAdvance(lo - wall) followed by the action), and every *)
(* Read line is judged against it.  The instant at which the code read the wall  *)
(* clock inside a call is only known to lie in lo..hi: the set of specification  *)
(* states {live = lo + f : f \in 0..hi-lo} is carried symbolically as            *)
(* (live = lo, fuzz = hi - lo) - `live` is never compared by any action, so this *)
(* is exact.  A Read is accepted iff SOME wall reading w \in lo..hi and SOME     *)
(* f \in 0..fuzz make the specification's TimeOf equal the observation up to     *)
(* the floor to whole milliseconds (floor(a - b) \in {floor a - floor b - 1,     *)
(* floor a - floor b}); that unit and the measured intervals are the only slack. *)
EXTENDS Clock, Json, IOUtils
Log == ndJsonDeserialize(IOEnv.TRACE)
VARIABLES l, bad,
          fuzz,    \* object id -> width of the interval its `live` is known to lie in
          rel      \* object id -> how the last event processed through any of its handles related to the time held
tvars == <<obj, clk, seen, origin, nobj, wall, last, l, bad, fuzz, rel>>

TraceTimes == Nat
TraceItemLists == {}

NormItems(s) == [k \in 1..Len(s) |-> [kind |-> s[k].kind, t |-> s[k].t]]
NormEv(e) == [kind |-> e.kind, t |-> e.t, items |-> NormItems(e.items)]

TInit == /\ l = 1 /\ bad = <<>> /\ fuzz = <<>> /\ rel = <<>>
         /\ Init

Reject(tags) == bad' = Append(bad, <<l, tags>>)

TReset == /\ Log[l].a = "Reset"
          /\ obj' = [h \in HANDLES |-> 0] /\ clk' = <<>> /\ seen' = <<>> /\ origin' = [h \in HANDLES |-> 0] /\ nobj' = 0
          /\ wall' = Log[l].lo
          /\ last' = Step("Init", 0, 0, NoEvent, 0)
          /\ fuzz' = <<>> /\ rel' = <<>>
          /\ UNCHANGED bad

\* a call the specification has no step for (the driver is at fault, never the code): reported, state kept
IllFormed == /\ Reject({"ill-formed"})
             /\ UNCHANGED <<obj, clk, seen, origin, nobj, wall, last, fuzz, rel>>

WellTimed == Log[l].lo >= wall /\ Log[l].hi >= Log[l].lo

TNew == /\ Log[l].a = "New"
        /\ IF Log[l].h \in HANDLES /\ ~InUse(Log[l].h) /\ WellTimed
           THEN /\ NewAt(Log[l].h, Log[l].n, Log[l].lo)           \* WallAdvance(lo - wall) ; New
                /\ wall' = Log[l].lo
                /\ last' = Step("New", Log[l].h, 0, NoEvent, Log[l].n)
                /\ fuzz' = Append(fuzz, Log[l].hi - Log[l].lo)
                /\ rel' = Append(rel, "new")
                /\ UNCHANGED bad
           ELSE IllFormed

TClone == /\ Log[l].a = "Clone"
          /\ IF Log[l].h \in HANDLES /\ Log[l].g \in HANDLES /\ InUse(Log[l].h) /\ ~InUse(Log[l].g)
             THEN /\ CloneAt(Log[l].h, Log[l].g)
                  /\ last' = Step("Clone", Log[l].h, Log[l].g, NoEvent, 0)
                  /\ UNCHANGED <<wall, fuzz, rel, bad>>
             ELSE IllFormed

TProcess == /\ Log[l].a = "Process"
            /\ IF Log[l].h \in HANDLES /\ InUse(Log[l].h) /\ WellTimed /\ Log[l].ev.kind \in EventKinds
               THEN LET ev == NormEv(Log[l].ev) o == obj[Log[l].h] IN
                    /\ ProcessAt(Log[l].h, ev, Log[l].lo)         \* WallAdvance(lo - wall) ; Process
                    /\ wall' = Log[l].lo
                    /\ last' = Step("Process", Log[l].h, 0, ev, 0)
                    /\ fuzz' = IF clk'[o].gen # clk[o].gen THEN [fuzz EXCEPT ![o] = Log[l].hi - Log[l].lo] ELSE fuzz
                    /\ rel' = [rel EXCEPT ![o] = Relation(clk[o], EventTime(ev))]
                    /\ UNCHANGED bad
               ELSE IllFormed

\* the readings the specification allows for object o observed between wall readings lo and hi
Allowed(o, lo, hi) ==
  UNION { LET t == TimeOf([clk[o] EXCEPT !.live = @ + f], w) IN {t, t - 1} : w \in lo..hi, f \in 0..fuzz[o] }

TRead == /\ Log[l].a = "Read"
         /\ IF Log[l].h \in HANDLES /\ InUse(Log[l].h) /\ Log[l].hi >= Log[l].lo
            THEN LET o == obj[Log[l].h]
                     lo == Max(wall, Log[l].lo)            \* (an audit tick is stamped inside the call that processed the event)
                     ok == Log[l].v >= clk[o].ex /\ Log[l].v \in Allowed(o, lo, Log[l].hi)
                     dir == IF Log[l].v < clk[o].ex THEN "below-exchange-time"
                            ELSE IF \A a \in Allowed(o, lo, Log[l].hi) : Log[l].v > a THEN "ahead" ELSE "behind"
                 IN /\ bad' = IF ok THEN bad ELSE Append(bad, <<l, {dir, "after:" \o rel[o]}>>)
                    /\ UNCHANGED <<obj, clk, seen, origin, nobj, wall, last, fuzz, rel>>
            ELSE IllFormed

TNext == l <= Len(Log) /\ l' = l + 1 /\ (TReset \/ TNew \/ TClone \/ TProcess \/ TRead)
TSpec == TInit /\ [][TNext]_tvars
Done == l = Len(Log) + 1 => PrintT(<<"TRACE_END", ToJson(bad)>>)
Post == PrintT(<<"TRACE_DONE", TLCGet("stats").diameter, Len(Log)>>)
=============================================================================
