-------------------------------- MODULE Merge --------------------------------
(***************************************************************************)
(* barter_integration::stream::merge::merge(left, right)  (C12, last       *)
(* clause; also used by C06's book manager).                               *)
(*                                                                         *)
(* Code transcribed: barter-integration/src/stream/merge.rs                *)
(*   left.map(Some).chain(once(None))  - each input gets an end marker     *)
(*   .merge(right..)                   - a poll takes an item from either  *)
(*   .map_while(identity)              - the first end marker ends the     *)
(*   .fuse()                             output, for good                  *)
(* with the inputs being the two Stream faces of channel.rs (UnboundedRx,  *)
(* UnboundedReceiverStream): what was sent and not yet taken is available *)
(* the end of an input becomes visible once its sender is dropped and      *)
(* everything sent has been taken.                                         *)
(*                                                                         *)
(* Actions: the environment sends / closes (SendRefused: after the end); a poll of the merged stream is *)
(* TakeLeft | TakeRight | EitherEnds | PollPending | PollFused.            *)
(* Deliberately nondeterministic (DESIGN 5.4, "same-instant ordering in    *)
(* merge"): which of several possible outcomes a poll has - an item of     *)
(* the left input, an item of the right input, or the end when an input    *)
(* has ended while the other still has items available (tokio's merge      *)
(* alternates the side it polls first).  Fixed: a poll is Pending only     *)
(* when nothing at all is available, and after the end nothing comes.      *)
(***************************************************************************)
EXTENDS Naturals, Sequences, TLC

CONSTANTS MaxL, MaxR     \* how many items the environment sends into each input

VARIABLES sentL, sentR,      \* what has been sent into each input, in order
          closedL, closedR,  \* the input's sender was dropped
          li, ri,            \* the two input cursors: items taken so far
          out,               \* the merged output
          done,              \* the output has ended
          last               \* result of the latest step if it was a poll: "Item" | "Pending" | "End",
                             \* else "none"

vars == <<sentL, sentR, closedL, closedR, li, ri, out, done, last>>

\* left items are 1, 2, ..., right items 101, 102, ...
IsL(v) == v < 100
IsR(v) == v >= 100

Init == /\ sentL = <<>> /\ sentR = <<>>
        /\ closedL = FALSE /\ closedR = FALSE
        /\ li = 0 /\ ri = 0 /\ out = <<>> /\ done = FALSE /\ last = "none"

SendL(v) == /\ ~closedL /\ Len(sentL) < MaxL /\ IsL(v)
            /\ sentL' = Append(sentL, v)
            /\ last' = "none"
            /\ UNCHANGED <<sentR, closedL, closedR, li, ri, out, done>>
SendR(v) == /\ ~closedR /\ Len(sentR) < MaxR /\ IsR(v)
            /\ sentR' = Append(sentR, v)
            /\ last' = "none"
            /\ UNCHANGED <<sentL, closedL, closedR, li, ri, out, done>>
CloseL == /\ ~closedL /\ closedL' = TRUE
          /\ last' = "none"
          /\ UNCHANGED <<sentL, sentR, closedR, li, ri, out, done>>
CloseR == /\ ~closedR /\ closedR' = TRUE
          /\ last' = "none"
          /\ UNCHANGED <<sentL, sentR, closedL, li, ri, out, done>>

\* once the output has ended the inputs may be gone (tokio's fuse drops them): a send is then
\* refused - or buffered for nobody; either way it has no effect on the output
SendRefused == /\ done
               /\ last' = "none"
               /\ UNCHANGED <<sentL, sentR, closedL, closedR, li, ri, out, done>>

EndL == closedL /\ li = Len(sentL)      \* the left input's end is what a poll of it yields
EndR == closedR /\ ri = Len(sentR)

TakeLeft == /\ ~done /\ li < Len(sentL)
            /\ out' = Append(out, sentL[li + 1]) /\ li' = li + 1
            /\ last' = "Item"
            /\ UNCHANGED <<sentL, sentR, closedL, closedR, ri, done>>
TakeRight == /\ ~done /\ ri < Len(sentR)
             /\ out' = Append(out, sentR[ri + 1]) /\ ri' = ri + 1
             /\ last' = "Item"
             /\ UNCHANGED <<sentL, sentR, closedL, closedR, li, done>>
EitherEnds == /\ ~done /\ (EndL \/ EndR)
              /\ done' = TRUE /\ last' = "End"
              /\ UNCHANGED <<sentL, sentR, closedL, closedR, li, ri, out>>
PollPending == /\ ~done /\ li = Len(sentL) /\ ri = Len(sentR) /\ ~closedL /\ ~closedR
               /\ last' = "Pending"
               /\ UNCHANGED <<sentL, sentR, closedL, closedR, li, ri, out, done>>
PollFused == /\ done
             /\ last' = "End"
             /\ UNCHANGED <<sentL, sentR, closedL, closedR, li, ri, out, done>>

Poll == TakeLeft \/ TakeRight \/ EitherEnds \/ PollPending \/ PollFused
Env  == SendL(Len(sentL) + 1) \/ SendR(100 + Len(sentR) + 1) \/ CloseL \/ CloseR \/ SendRefused
Next == Env \/ Poll
Spec == Init /\ [][Next]_vars

(***************************************************************************)
(* The property.                                                           *)
(***************************************************************************)
IsPrefix(a, b) == Len(a) <= Len(b) /\ a = SubSeq(b, 1, Len(a))
OutL == SelectSeq(out, IsL)
OutR == SelectSeq(out, IsR)

TypeOK == /\ li \in 0..Len(sentL) /\ ri \in 0..Len(sentR)
          /\ last \in {"none", "Item", "Pending", "End"}
\* the output restricted to either input is a prefix of that input (order kept, nothing twice)
PrefixL == IsPrefix(OutL, sentL) /\ OutL = SubSeq(sentL, 1, li)
PrefixR == IsPrefix(OutR, sentR) /\ OutR = SubSeq(sentR, 1, ri)
\* nothing is held back: a poll that is Pending has delivered everything sent so far
NothingHeldBack == last = "Pending" => OutL = sentL /\ OutR = sentR
\* the output ends only because an input ended, and it contains every item of that input
\* (and everything polled from the other one before)
EndsWithInput == done => \/ closedL /\ OutL = sentL
                         \/ closedR /\ OutR = sentR
\* fused: once ended, nothing more, never un-ended
Fused == [][done => (done' /\ out' = out /\ li' = li /\ ri' = ri)]_vars
\* a poll takes at most one item and never rewrites the past
AppendOnly == [][IsPrefix(out, out') /\ Len(out') <= Len(out) + 1]_vars
=============================================================================
