------------------------------ MODULE MC_Clock ------------------------------
(* Model-checking wrapper of Clock: the item lists full account snapshots    *)
(* carry in the bounded models (TLC configuration files cannot write sets    *)
(* of sequences of records).                                                  *)
EXTENDS Clock

Item(kind, t) == [kind |-> kind, t |-> t]
BalItems   == {Item("Balance", t) : t \in TIMES}
OrderItems == {Item("OrderOpen", t) : t \in TIMES} \cup {Item("OrderFullyFilled", 0)}
\* no item at all; one balance / one order with or without a time; an order and a balance
ItemLists  == {<<>>} \cup {<<i>> : i \in BalItems \cup OrderItems} \cup {<<o, b>> : o \in OrderItems, b \in BalItems}
\* (three-handle configuration: the aliasing structure, a small alphabet)
ItemListsSmall == {<<>>, <<Item("OrderFullyFilled", 0), Item("Balance", 1)>>}
EventsSmall == {Ev("MarketItem", t) : t \in TIMES} \cup {Ev("CancelErr", 0)} \cup {SnapEv(l) : l \in ItemListsSmall}
=============================================================================
