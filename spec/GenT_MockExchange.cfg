SPECIFICATION GSpec
CONSTANTS
  Times = {1}
  Prices = {1, 2}
  Qtys = {0, 1, 3}
  NegQtys = {2}
  BalInit = {0, 300, 600}
  FeePcts = {0, 50}
  Lats = {2}
  Sinces = {0, 2}
  OpenCids = {"o1", "o3"}
  MaxTrades = 1
  ClockSlack = FALSE
  IdSlack = 0
  OrderSubsets = FALSE
  MaxLen = 1
INVARIANT Emit
CHECK_DEADLOCK FALSE
