------------------------------ MODULE Gen_Stats ------------------------------
(* Behaviour generation for the C16 / C17 conformance harness (Pattern B):  *)
(* every behaviour of Stats is printed as one JSON line; each event carries *)
(* the figures the BATCH definitions give for the history so far.           *)
(*  C16: G16 exhaustive - every sequence of exactly MaxClosed closed        *)
(*           positions over Instr x PnLs x Costs (prefixes = shorter ones)  *)
(*       G16R simulation - AddClosed / AddBalance / Generate drawn with     *)
(*           RandomElement (one successor per step)                         *)
(*       exp = the summary Generate returns after the event                 *)
(*  C17: G17 exhaustive - every sequence of exactly MaxVals values          *)
(*       G17R simulation                                                    *)
(*       exp = DataSet(history so far)                                      *)
EXTENDS Stats, Json
VARIABLES hist, done
gvars == <<closed, acc, bal, out, vals, wf, last, hist, done>>

OptRJ(o) == IF o.has THEN RJ(o.v) ELSE "none"
PFJ(f)   == CASE f.k = "none" -> "none" [] f.k = "max" -> "MAX" [] f.k = "min" -> "MIN" [] OTHER -> RJ(f.v)
SheetJ(s) == [pnl |-> RJ(s.pnl), win_rate |-> OptRJ(s.win_rate), profit_factor |-> PFJ(s.profit_factor)]
AssetJ(s) == IF s.has THEN [total |-> s.total] ELSE "none"
SummaryJ(S) == [instruments |-> [i \in Instr |-> SheetJ(S.instruments[i])],
                assets      |-> [a \in Asset |-> AssetJ(S.assets[a])]]
DataSetJ(d) == [count |-> d.count, sum |-> d.sum, mean |-> RJ(d.mean), var |-> RJ(d.var),
                range |-> IF d.range.has THEN [lo |-> d.range.lo, hi |-> d.range.hi] ELSE "none"]

GInit == Init /\ hist = <<>> /\ done = FALSE

Rec16 == [a |-> last'.a, k |-> last'.k, x |-> last'.x, y |-> last'.y,
          exp |-> SummaryJ(SummaryOf(closed', bal'))]
\* neg: the statistics of the losing returns so far (PnLReturns.losses); persist: the harness stores and
\* restores the running summary after this update (action Persist - a stutter, no expectation changes)
Rec17(pf) == [x |-> last'.x, persist |-> pf, exp |-> DataSetJ(DataSet(vals')), neg |-> DataSetJ(DataSet(NegOf(vals')))]

\* ---- C16
G16Step == /\ ~done /\ NClosed < MaxClosed
           /\ \E i \in Instr, p \in PnLs, c \in Costs : AddClosed(i, p, c)
           /\ hist' = Append(hist, Rec16)
           /\ UNCHANGED done
\* (draws are bound through singleton sets: a RandomElement inside a LET / argument position may be
\*  re-drawn at every reference - notes/HOWTO.md "TLC pitfalls")
G16StepR == /\ ~done /\ Len(hist) < MaxClosed
            /\ \E r \in {RandomElement(1..11)}, i \in {RandomElement(Instr)}, p \in {RandomElement(PnLs)},
                  c \in {RandomElement(Costs)}, a \in {RandomElement(Asset)}, b \in {RandomElement(Bals)} :
                 IF r <= 6 THEN AddClosed(i, p, c)
                 ELSE IF r <= 8 THEN AddBalance(a, b)
                 ELSE IF r <= 10 THEN Generate
                 ELSE Persist
            /\ hist' = Append(hist, Rec16)
            /\ UNCHANGED done
G16Finish  == /\ ~done /\ NClosed = MaxClosed /\ done' = TRUE
              /\ UNCHANGED <<closed, acc, bal, out, vals, wf, last, hist>>
G16FinishR == /\ ~done /\ Len(hist) = MaxClosed /\ done' = TRUE
              /\ UNCHANGED <<closed, acc, bal, out, vals, wf, last, hist>>
G16  == GInit /\ [][G16Step \/ G16Finish]_gvars
G16R == GInit /\ [][G16StepR \/ G16FinishR]_gvars

\* ---- C17
G17Step == /\ ~done /\ Len(vals) < MaxVals
           /\ \E x \in Vals : AddValue(x)
           /\ hist' = Append(hist, Rec17(FALSE))
           /\ UNCHANGED done
G17StepR == /\ ~done /\ Len(vals) < MaxVals
            /\ \E x \in {RandomElement(Vals)}, pf \in {RandomElement(BOOLEAN)} :
                  AddValue(x) /\ hist' = Append(hist, Rec17(pf))
            /\ UNCHANGED done
G17Finish == /\ ~done /\ Len(vals) = MaxVals /\ done' = TRUE
             /\ UNCHANGED <<closed, acc, bal, out, vals, wf, last, hist>>
G17  == GInit /\ [][G17Step \/ G17Finish]_gvars
G17R == GInit /\ [][G17StepR \/ G17Finish]_gvars

Emit16 == done => PrintT(<<"SCN", ToJson([evs |-> hist])>>)
Emit17 == done => PrintT(<<"SCN", ToJson([vals |-> hist])>>)

\* value sets (a .cfg file cannot write negative numbers)
PnLsQuick == {-2, -1, 0, 1, 3}
PnLsWide  == {-300, -7, -3, -2, -1, 0, 1, 2, 3, 5, 12, 250}
ValsQuick == {-3, -1, 0, 2, 1000}
ValsWide  == (-20..20) \cup {500, -499, 137, 64}
=============================================================================
