------------------------- MODULE Trace_MockExchange -------------------------
(* Trace validation (impl -> spec): every line recorded from the real        *)
(* exchange must be a step MockExchange allows.                              *)
(*   {"a":"Reset","fee":..,"lat":..,"cfg":{bal,open},"post":{bal,open,trades,notif}}   *)
(*        a fresh exchange built from the configuration `cfg`                *)
(*   {"a":"open"|"snapshot"|"balances"|"orders"|"trades"|"cancel"|"kill",    *)
(*    t, side, p, q, instr, kind, since,                                     *)
(*    "out":"ok"|"rej"|"query"|"offline"|"killed", "why", "id", "filled", "rt", "echo",  *)
(*    "res":{bal,open,trades}, "post":{bal,open,trades,notif}}               *)
(*        one request, the answer, the projected ledger after it             *)
(*        (`rt` = the exchange time the response of an accepted order       *)
(*        carries, -1 otherwise; `echo` = 1 iff an open / cancel response   *)
(*        carries the request's own key, side, price, quantity, kind;        *)
(*        "kill": the harness ended the exchange task - afterwards the       *)
(*        ledger cannot be observed any more (`post` repeats the last one),  *)
(*        only that every call answers "offline" and nothing is announced)   *)
(*   "out":"lost" (with "drop" > 0): an open-order request whose requester   *)
(*        stopped waiting before the exchange handled it.  The answer is not  *)
(*        observable, but it is still an OpenOrder: whether it is accepted is *)
(*        what the spec says, and ledger, fill, id and notifications must be  *)
(*        exactly those of an answered request (the observable effects of a   *)
(*        request do not depend on whether its response is consumed).  The id *)
(*        and the clock reading are read off the fill it has to leave.        *)
(* Amounts are integers in 1/100 units, times in ms.                         *)
(* A line that is not a step of the spec is recorded in `bad` together with  *)
(* the names of the clauses of C08 it breaks (`why`), and the logged state   *)
(* is adopted, so one pass reports every rejected line and the clauses are   *)
(* judged independently of one another.                                      *)
EXTENDS MockExchange, Json, IOUtils

Rec == ndJsonDeserialize(IOEnv.TRACE)

VARIABLES l, bad, why
tvars == <<vars, l, bad, why>>

BalOf(b) == [a \in Assets |-> [total |-> b[a].total, free |-> b[a].free]]
SetOf(s) == {s[i] : i \in DOMAIN s}
ReqOf(x) == Req(x.a, x.t, x.side, x.p, x.q, x.instr, x.kind, x.since)

\* the exchange clock is observable only through accepted orders (the response and the fill
\* carry it); otherwise any admissible reading will do - take the code's
ClockOf(x) == IF x.out = "ok" THEN x.rt ELSE NowAfter(ReqOf(x))

\* a line whose answer nobody read, completed with the answer the specification gives
Eff(x) == IF x.out # "lost" THEN x
          ELSE IF ~up THEN [x EXCEPT !.out = "offline"]
          ELSE LET pt == x.post.trades
                   \* no fill left behind: id and clock stay unobserved (any admissible value)
                   f  == IF Len(pt) = Len(trades) + 1 THEN pt[Len(pt)]
                         ELSE [NoFill EXCEPT !.id = nextId, !.t = NowAfter(ReqOf(x))]
               IN IF Accepts(ReqOf(x))
                  THEN [x EXCEPT !.out = "ok", !.id = f.id, !.filled = x.q, !.rt = f.t]
                  ELSE [x EXCEPT !.out = "rej"]

ResetResp == Resp([NoReq EXCEPT !.op = "Reset"], "init", "-", -1, 0)

TInit == /\ l = 1 /\ bad = <<>> /\ why = <<>>
         /\ fee = 0 /\ lat = 0 /\ bal = NoBal /\ orders = {} /\ up = TRUE /\ nextId = 0 /\ now = 0
         /\ trades = <<>> /\ notif = <<>>
         /\ last = Resp(NoReq, "init", "-", -1, 0)
         /\ res = NoRes

\* a fresh exchange shows exactly its configuration and an empty history
ResetOK(x) == /\ BalOf(x.post.bal) = BalOf(x.cfg.bal)
              /\ SetOf(x.post.open) = SetOf(x.cfg.open) /\ Len(x.post.open) = Len(x.cfg.open)
              /\ Len(x.post.trades) = 0 /\ Len(x.post.notif) = 0

Adopt(x) == /\ bal' = BalOf(x.post.bal)
            /\ orders' = SetOf(x.post.open)
            /\ trades' = x.post.trades
            /\ notif' = x.post.notif

TReset == /\ Rec[l].a = "Reset"
          /\ fee' = Rec[l].fee /\ lat' = Rec[l].lat
          /\ Adopt(Rec[l])
          /\ up' = TRUE
          /\ nextId' = 0 /\ now' = 0 /\ last' = ResetResp /\ res' = NoRes
          /\ IF ResetOK(Rec[l]) THEN UNCHANGED <<bad, why>>
             ELSE /\ bad' = Append(bad, l)
                  /\ why' = Append(why, [l |-> l, f |-> {"InitReflects"}])

(* The clauses of C08 on one logged line x, evaluated in the state before it. *)
Checks(x) ==
  LET r   == ReqOf(x)
      acc == x.out = "ok"
      pb  == BalOf(x.post.bal)
      pt  == x.post.trades
      pn  == x.post.notif
      n0  == Len(notif)
      queryOps == {"snapshot", "balances", "orders", "trades"}
  IN [ AcceptIff    |-> (r.op = "open" /\ up) => (x.out \in {"ok", "rej"} /\ (acc <=> Accepts(r))),
       ExactDebit   |-> acc => (Listed(r) /\ pb = Debit(bal, Spent(r), Need(r))),
       \* judged on the step that breaks it (the logged state is adopted afterwards)
       NonNegative  |-> (\A a \in Assets : bal[a].free >= 0 /\ bal[a].total >= 0 /\ bal[a].total = bal[a].free)
                          => (\A a \in Assets : pb[a].free >= 0 /\ pb[a].total >= 0 /\ pb[a].total = pb[a].free),
       RejectPure   |-> ~acc => (pb = bal /\ pt = trades /\ pn = notif),
       FreshIds     |-> acc => x.id \in FreshIds,
       OneFill      |-> acc => (x.filled = r.q /\ pt = Append(trades, Fill(x.id, r, x.rt))),
       Clock        |-> acc => x.rt \in ClockChoices(r),
       Notif11      |-> acc => ( /\ Len(pn) = n0 + 2 /\ SubSeq(pn, 1, n0) = notif
                                 /\ pn[n0 + 1].k = "balance" /\ pn[n0 + 2].k = "trade" ),
       NotifContent |-> (acc /\ Len(pn) = n0 + 2) =>
                             ( /\ pn[n0 + 1] = BalNotif(Spent(r), pb[Spent(r)])
                               /\ pn[n0 + 2] = FillNotif(Fill(x.id, r, x.rt)) ),
       QueriesReflect |-> /\ (r.op \in queryOps /\ up) <=> (x.out = "query")
                          /\ (r.op = "snapshot" /\ up) =>
                                ( /\ BalOf(x.res.bal) = bal
                                  /\ SetOf(x.res.open) = orders /\ Len(x.res.open) = Cardinality(orders) )
                          /\ (r.op = "balances" /\ up) => BalOf(x.res.bal) = bal
                          /\ (r.op = "orders" /\ up) =>
                                ( /\ SetOf(x.res.open) = OpenOnly(orders)
                                  /\ Len(x.res.open) = Cardinality(OpenOnly(orders)) )
                          \* exactly the fills with time >= since, in whatever order
                          /\ (r.op = "trades" /\ up) => SameFills(x.res.trades, TradesSince(r.since)),
       \* the exchange task has ended <=> every call is answered "offline" (a cancel may be
       \* answered so by a running exchange too: it does not support cancels)
       Offline      |-> /\ (~up /\ r.op # "kill") => x.out = "offline"
                        /\ (x.out = "offline") => (~up \/ r.op = "cancel")
                        /\ (r.op = "cancel" /\ up) => x.out \in CancelOutcomes
                        /\ (r.op = "kill") <=> (x.out = "killed"),
       \* open / cancel responses carry the request's own key, side, price, quantity
       Echo         |-> (r.op \in {"open", "cancel"}) => x.echo = 1,
       OrdersUnchanged |-> SetOf(x.post.open) = orders ]

Failing(y) == LET x == Eff(y) IN {n \in DOMAIN Checks(x) : ~Checks(x)[n]}
StepOK(x)  == Failing(x) = {}

\* what the log shows of the step, against the spec's own action
Observed(x) == /\ bal' = BalOf(x.post.bal)
               /\ orders' = SetOf(x.post.open)
               /\ trades' = x.post.trades
               /\ notif' = x.post.notif
               /\ last'.out = x.out
               /\ (x.out = "ok" => last'.id = x.id /\ last'.filled = x.filled)
               /\ ((x.a = "snapshot" /\ x.out = "query") => res'.bal = BalOf(x.res.bal) /\ res'.open = SetOf(x.res.open))
               /\ ((x.a = "balances" /\ x.out = "query") => res'.bal = BalOf(x.res.bal))
               /\ ((x.a = "orders"   /\ x.out = "query") => res'.open = SetOf(x.res.open))
               /\ ((x.a = "trades"   /\ x.out = "query") => SameFills(res'.trades, x.res.trades))

TStepOK == /\ Rec[l].a # "Reset"
           /\ StepOK(Rec[l])
           /\ Serve(ReqOf(Rec[l]), Eff(Rec[l]).id, ClockOf(Eff(Rec[l])), Rec[l].out)   \* the spec's own action
           /\ Observed(Eff(Rec[l]))
           /\ UNCHANGED <<bad, why>>

TStepBad == /\ Rec[l].a # "Reset"
            /\ ~StepOK(Rec[l])
            /\ Adopt(Rec[l])
            /\ LET e == Eff(Rec[l]) IN
                 /\ nextId' = IF e.out = "ok" /\ e.id >= nextId THEN e.id + 1 ELSE nextId
                 /\ now' = IF e.out = "ok" /\ e.rt \in ClockChoices(ReqOf(e)) THEN e.rt ELSE NowAfter(ReqOf(e))
                 /\ last' = Resp(ReqOf(e), e.out, "-", e.id, e.filled)
            /\ res' = NoRes
            /\ up' = IF Rec[l].a = "kill" \/ (Rec[l].out = "offline" /\ Rec[l].a # "cancel") THEN FALSE ELSE up
            /\ UNCHANGED world
            /\ bad' = Append(bad, l)
            /\ why' = Append(why, [l |-> l, f |-> Failing(Rec[l])])

TNext == /\ l <= Len(Rec)
         /\ l' = l + 1
         /\ (TReset \/ TStepOK \/ TStepBad)

TSpec == TInit /\ [][TNext]_tvars

\* the C08 formulas, evaluated on every accepted step of the implementation
TProps == [][last'.req.op = "Reset" \/ bad' # bad \/ StepProps]_tvars

Done == l = Len(Rec) + 1 =>
          /\ PrintT(<<"TRACE_END", ToJson(bad)>>)
          /\ ndJsonSerialize(IOEnv.TRACE \o ".why", why)
Post == PrintT(<<"TRACE_DONE", TLCGet("stats").diameter, Len(Rec)>>)
=============================================================================
