-------------------------- MODULE Gen_MarketRouting --------------------------
(* Scenario generation for the C13 harness: behaviours of MarketRouting      *)
(* printed as JSON, one line per behaviour ({"evs":[step,..]}).  The route    *)
(* is a placeholder: the harness instantiates every scenario on every route  *)
(* and both instrument flavours.                                             *)
(*  GSpec  (exhaustive): Subscribe(S, off) for every subset S of the market  *)
(*         universe and every key assignment, then one message for every     *)
(*         market (subscribed or not) - every (subs, message) pair.          *)
(*  GSpecR (simulation): long behaviours with re-connections; steps drawn    *)
(*         with RandomElement so that a state has a single successor.        *)
EXTENDS MarketRouting, Json
CONSTANTS MaxLen
VARIABLES hist, done

gvars == <<conn, subs, out, last, hist, done>>

\* an L1 route, so that the generated items range over all four side values; the harness maps
\* "bid_only"/"ask_only" to "buy"/"sell" (or skips the scenario) on routes that are not L1
GenConns == {<<"kraken", "l1", "spot">>}
TheConn == CHOOSE c \in Conns : TRUE

GInit == Init /\ hist = <<>> /\ done = FALSE

GStep == /\ ~done /\ Len(hist) < MaxLen
         /\ (Subscribe \/ MessageSubscribed \/ MessageUnsubscribed)
         /\ hist' = Append(hist, last')
         /\ UNCHANGED done

RandomItem(n) == Item(RandomElement(PRICE), RandomElement(AMOUNT), RandomElement(L1Sides), RandomElement(TIME))

GStepR == /\ ~done /\ Len(hist) < MaxLen
          /\ IF conn = NoConn
             THEN \E S \in {RandomElement(SUBSET Markets)} : \E off \in {RandomElement(KeyOffs)} :
                  \E d \in {RandomElement(S \cup {0})} : \E dk \in {IF d = 0 THEN 0 ELSE RandomElement({1, 2})} :
                  SubscribeA(TheConn, S, off, d, dk)
             ELSE IF RandomElement(1..12) = 1
                  THEN DisconnectA
                  ELSE \E m \in {RandomElement(Markets)} : \E f \in {RandomItem(Len(hist))} :
                  \E buf \in {RandomElement(BOOLEAN)} :
                       MessageSubscribedA(m, <<f>>, buf) \/ MessageUnsubscribedA(m, <<f>>, buf)
          /\ hist' = Append(hist, last')
          /\ UNCHANGED done

\* repeated markets, exhaustively: Subscribe(S, off, d, dk) for every subset, every repeated market
\* and both kinds of repetition, then one message for each market 1..NMarkets in turn (live and
\* buffered alternating) - what is judged is the attribution of the markets around the repeated one
FixedItem == Item(CHOOSE p \in PRICE : TRUE, CHOOSE a \in AMOUNT : TRUE, "buy", CHOOSE t \in TIME : TRUE)
GStepD == /\ ~done /\ Len(hist) < MaxLen
          /\ IF conn = NoConn
             THEN Subscribe
             ELSE \E m \in {Len(hist)} : \E buf \in {m % 2 = 0} :
                       MessageSubscribedA(m, <<FixedItem>>, buf) \/ MessageUnsubscribedA(m, <<FixedItem>>, buf)
          /\ hist' = Append(hist, last')
          /\ UNCHANGED done

GFinish == /\ ~done /\ Len(hist) = MaxLen
           /\ done' = TRUE
           /\ UNCHANGED <<conn, subs, out, last, hist>>

GSpec  == GInit /\ [][GStep \/ GFinish]_gvars
GSpecR == GInit /\ [][GStepR \/ GFinish]_gvars
GSpecD == GInit /\ [][GStepD \/ GFinish]_gvars

Emit == done => PrintT(<<"SCN", ToJson([evs |-> hist])>>)
=============================================================================
