SPECIFICATION TSpec
CONSTANTS
  Runs = {1}
  Params <- TraceParams
  OrderKinds = {"order", "balance", "trade"}
INVARIANT Done
PROPERTIES TProps
POSTCONDITION Post
CHECK_DEADLOCK FALSE
