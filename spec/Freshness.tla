------------------------------ MODULE Freshness ------------------------------
(***************************************************************************)
(* C09 - late or duplicate exchange messages never roll engine state back.  *)
(*                                                                         *)
(* Code transcribed:                                                        *)
(*   barter/src/engine/state/asset/mod.rs   AssetState::update_from_balance *)
(*        (replace when held.time <= message time)                          *)
(*   barter/src/engine/state/instrument/data.rs  DefaultInstrumentMarketData*)
(*        ::process  (last trade / L1: replace when held.time < message time)*)
(*   barter/src/engine/state/order/mod.rs   (Open,Open): replace when       *)
(*        held.time <= message time                                         *)
(*   barter/src/engine/state/mod.rs  EngineState::update_from_account       *)
(*        (BalanceSnapshot, OrderSnapshot, full Snapshot item by item),     *)
(*        update_from_market                                                *)
(*                                                                         *)
(* An item is a balance (per asset), a top of book (per instrument), a last *)
(* traded price (per instrument) or the open-order details of one client    *)
(* order id.  held[item] is what the engine shows; delivered[item] (ghost)  *)
(* is every <<t, v>> delivered so far.  Equal timestamps: the property      *)
(* allows keeping or replacing (the code replaces balances/orders and keeps *)
(* market data) - an explicit choice here.                                  *)
(***************************************************************************)
EXTENDS Integers, Sequences, FiniteSets, TLC

CONSTANTS ITEMS,    \* item names (strings)
          TIMES,    \* exchange timestamps (positive: the default L1 carries the epoch)
          VALUES

VARIABLES held, delivered, last
vars == <<held, delivered, last>>

None == [has |-> FALSE, t |-> 0, v |-> 0]
Msg(it, t, v) == [item |-> it, t |-> t, v |-> v]

Init == /\ held = [i \in ITEMS |-> None]
        /\ delivered = [i \in ITEMS |-> {}]
        /\ last = <<>>

\* the values the engine may hold for an item after message m
After(h, m) ==
  IF ~h.has \/ h.t < m.t THEN {[has |-> TRUE, t |-> m.t, v |-> m.v]}
  ELSE IF h.t = m.t THEN {[has |-> TRUE, t |-> m.t, v |-> m.v], h}
  ELSE {h}

\* one message, or a full account snapshot = several messages applied item by item, in order
RECURSIVE Outcomes(_, _)
Outcomes(h, ms) ==      \* set of possible `held` functions after applying the sequence ms
  IF ms = <<>> THEN {h}
  ELSE UNION {Outcomes([h EXCEPT ![Head(ms).item] = n], Tail(ms)) : n \in After(h[Head(ms).item], Head(ms))}

RECURSIVE Record(_, _)
Record(d, ms) == IF ms = <<>> THEN d
                 ELSE Record([d EXCEPT ![Head(ms).item] = @ \cup {<<Head(ms).t, Head(ms).v>>}], Tail(ms))

Deliver(ms) == /\ held' \in Outcomes(held, ms)
               /\ delivered' = Record(delivered, ms)
               /\ last' = ms

DeliverOne  == \E i \in ITEMS, t \in TIMES, v \in VALUES : Deliver(<<Msg(i, t, v)>>)
DeliverSnapshot ==
  \E i, j \in ITEMS, t, u \in TIMES, v, w \in VALUES : i # j /\ Deliver(<<Msg(i, t, v), Msg(j, u, w)>>)

\* an operation on an item that is not an exchange report (the engine records a cancel request
\* for the order, possibly repeatedly): what the exchange reported stays as it is
Touch == /\ \E i \in ITEMS : last' = <<Msg(i, -1, 0)>>
         /\ UNCHANGED <<held, delivered>>

\* a disconnect notice of the market-data or account link the item arrives on (the stream is
\* reconnecting): a notice is not an exchange report either - what the exchange reported stays as
\* it is, and a late message arriving after the link is back is still judged against it
Notice == /\ \E i \in ITEMS : last' = <<Msg(i, -3, 0)>>
          /\ UNCHANGED <<held, delivered>>

\* the state that holds the items is stored and restored (serialised and read back): nothing changes
Persist == /\ last' = <<>>
           /\ UNCHANGED <<held, delivered>>

Next == DeliverOne \/ DeliverSnapshot \/ Touch \/ Notice \/ Persist
Spec == Init /\ [][Next]_vars

(***************************************************************************)
(* The property                                                             *)
(***************************************************************************)
MaxT(S) == CHOOSE t \in {p[1] : p \in S} : \A q \in S : q[1] <= t

Latest == \A i \in ITEMS :
            IF delivered[i] = {} THEN ~held[i].has
            ELSE /\ held[i].has
                 /\ held[i].t = MaxT(delivered[i])                  \* the greatest timestamp delivered so far
                 /\ <<held[i].t, held[i].v>> \in delivered[i]      \* with a value actually delivered with it

\* an older message never overwrites newer state; other items are untouched
NoRollbackA == \A i \in ITEMS :
                 /\ (held[i].has => held'[i].has /\ held'[i].t >= held[i].t)
                 /\ ((\A k \in 1..Len(last') : last'[k].item # i \/ last'[k].t < 0) => held'[i] = held[i])
NoRollback == [][NoRollbackA]_vars

View == <<held, delivered>>
Bound == \A i \in ITEMS : Cardinality(delivered[i]) <= 3
=============================================================================
