SPECIFICATION GSpec
CONSTANTS
  Runs = {1}
  Params <- GenParams
  OrderKinds = {"balance", "trade"}
  NS = {2, 3, 4}
  RECS = {{}, {2}, {3}, {1, 4}}
  MaxOrders = 3
INVARIANT Emit PrefixAlways CompleteInOrder
CHECK_DEADLOCK FALSE
