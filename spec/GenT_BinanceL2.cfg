SPECIFICATION GSpecT
CONSTANTS
  INSTR = {"i1"}
  PRICE = {1, 2}
  AMOUNT = {0, 1, 2}
  RULES = {"Spot", "Futures"}
  MCM = 4
  EVOLUTIONS <- FewEvolutions
  MaxEvents = 3
  MaxDeliver = 1000
  MaxReinit = 0
  EXPECTED = {1}
  MaxBuf = 0
  InitOrder = "snapshot-first"
  MaxLen = 3
INVARIANT Emit
CHECK_DEADLOCK FALSE
