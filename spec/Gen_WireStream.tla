---------------------------- MODULE Gen_WireStream ----------------------------
(* Connection scripts for the wire-level driver of C12: every frame sequence of WireStream up   *)
(* to the bound is printed once (at its final state), with the body the specification assigns   *)
(* to it.  bin/props/c12.py groups them into multi-connection scenarios for `c12 wire`.           *)
EXTENDS WireStream, Json

Seq0(f) == IF DOMAIN f = {} THEN <<>> ELSE f
Emit == closed => PrintT(<<"SCN", ToJson([need |-> need,
                                         frames |-> [j \in 1..Len(frames) |-> [t |-> frames[j].t, vs |-> Seq0(frames[j].vs)]],
                                         body |-> Seq0(WireBody(frames, need))])>>)
=============================================================================
