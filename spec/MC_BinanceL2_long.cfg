SPECIFICATION Spec
CONSTANTS
  INSTR = {"i1"}
  PRICE = {1, 2}
  AMOUNT = {0, 1, 2}
  RULES = {"Spot", "Futures"}
  MCM = 5
  EVOLUTIONS <- FewEvolutions
  MaxEvents = 4
  MaxDeliver = 8
  MaxReinit = 1
INVARIANTS TypeOK Chain BookValid BookNeverWrong BookIsMap Told CleanNeverErrors
PROPERTIES BreakSurfaces Isolation AdvanceOnlyOnAdmission
VIEW View
CHECK_DEADLOCK FALSE
