-------------------------- MODULE Trace_ExecManager --------------------------
(* Trace validation (impl -> spec) for C07: a trace recorded from the real    *)
(* ExecutionManager::run under tokio's paused clock must be a behaviour of    *)
(* ExecManager.  Lines (all with the same fields; unused ones blank):         *)
(*   {"a":"Reset"}                      a new manager, virtual time 0         *)
(*   {"a":"Accept","id","at", k=open|cancel, d,res,inst,side,price,qty,b,fill}*)
(*        a request was handed to the manager at `at`, with the script the    *)
(*        harness gave its client for it                                      *)
(*   {"a":"Emit","id","at", k=resp|timeout, ex,kex,inst,side,price,qty,b,st,  *)
(*    err,fill,oid}   an event left the response channel at `at`              *)
(*   {"a":"Stall","at"}                 the harness moved the clock to `at`   *)
(*                                      in one jump, the manager was not      *)
(*                                      scheduled in between: the spec's      *)
(*                                      Stall(at) (consumes the line)         *)
(*   {"a":"Shutdown","at"}              the manager's run() returned          *)
(*   {"a":"End","at"}                   the harness stopped listening, later  *)
(*                                      than every deadline                   *)
(* `at` are the harness's tokio::time::Instant stamps.  Time passing is not a *)
(* line: before a line whose stamp is later than `now` this module places the *)
(* spec's silent Advance(stamp) itself - at most one per consumed line.       *)
(* Advance is refused when it would pass the due instant of a pending         *)
(* request: that request was answered late or not at all.                     *)
(* Every consumed line must be the spec's own action; a line that is not is   *)
(* recorded in `bad` (one pass reports all) and the trace goes on from a      *)
(* repaired state (the offending request is forgotten).                       *)
EXTENDS ExecManager, Json, IOUtils

Rec == ndJsonDeserialize(IOEnv.TRACE)

\* constants of ExecManager, from the trace / unbounded
CONSTANT MaxId   \* request ids of a trace are 1..MaxId (a set computed from Rec would be
                 \* re-evaluated at every reference: quadratic)
TraceREQ    == 1..MaxId
TraceNat    == Nat
TraceSIDE   == {"buy", "sell"}
TraceBUNDLE == {"lim", "mkt", "lim_po", "ioc"}

VARIABLES l, bad
tvars == <<now, running, req, pending, out, lagged, l, bad>>

R == Rec[l]

ScriptOf(x) == [k |-> x.k, at |-> x.at, d |-> x.d, res |-> x.res, inst |-> x.inst, side |-> x.side,
                price |-> x.price, qty |-> x.qty, b |-> x.b, fill |-> x.fill]
EvOf(x) == [ex |-> x.ex, kex |-> x.kex, inst |-> x.inst, side |-> x.side, price |-> x.price,
            qty |-> x.qty, b |-> x.b, st |-> x.st, err |-> x.err, fill |-> x.fill, oid |-> x.oid]

TInit == Init /\ l = 1 /\ bad = <<>>

TReset == /\ R.a = "Reset"
          /\ now' = 0 /\ running' = TRUE /\ req' = [r \in REQ |-> NoReq] /\ pending' = {} /\ out' = <<>>
          /\ lagged' = {}
          /\ l' = l + 1
          /\ UNCHANGED bad

\* ---- the silent step: time passes up to the stamp of the next line
TAdvance == /\ R.a \notin {"Reset", "Stall"} /\ R.at > now
            /\ Advance(R.at)                                  \* the spec's own action
            /\ UNCHANGED <<l, bad>>

TAdvanceBad == /\ R.a \notin {"Reset", "Stall"} /\ R.at > now
               /\ ~CanAdvance(R.at)
               /\ now' = R.at
               /\ pending' = {r \in pending : HasDue(r) => Due(r) >= R.at}
               /\ bad' = Append(bad, l)
               /\ UNCHANGED <<running, req, out, lagged, l>>

\* ---- the stalled executor: the spec's own action, consuming the line
TStall == /\ R.a = "Stall" /\ R.at > now
          /\ Stall(R.at)
          /\ l' = l + 1
          /\ UNCHANGED bad

\* ---- consuming a line
\* the same predicate as the disjuncts of TStepOK
StepOK ==
    /\ R.at = now
    /\ \/ R.a = "Accept" /\ R.id \in REQ /\ running /\ ~Accepted(R.id) /\ IsScript(ScriptOf(R), now)
       \/ R.a = "Emit" /\ R.k = "resp" /\ CanRespond(R.id) /\ EvOf(R) = EventOf(R.id, "resp")
       \/ R.a = "Emit" /\ R.k = "timeout" /\ CanTimeout(R.id) /\ EvOf(R) = EventOf(R.id, "timeout")
       \/ R.a = "Shutdown" /\ running
       \/ R.a = "End" /\ (running => \A r \in pending : ~HasDue(r))

LastEv(o) == o[Len(o)].ev

TStepOK == /\ R.a # "Reset" /\ R.at = now
           /\ \/ R.a = "Accept" /\ Accept(R.id, ScriptOf(R))
              \/ R.a = "Emit" /\ R.k = "resp" /\ ClientResponds(R.id) /\ LastEv(out') = EvOf(R)
              \/ R.a = "Emit" /\ R.k = "timeout" /\ TimeoutFires(R.id) /\ LastEv(out') = EvOf(R)
              \/ R.a = "Shutdown" /\ Shutdown
              \/ R.a = "End" /\ (running => \A r \in pending : ~HasDue(r)) /\ UNCHANGED vars
           /\ l' = l + 1
           /\ UNCHANGED bad

TStepBad == /\ R.a # "Reset" /\ R.at <= now
            /\ ~StepOK
            /\ pending' = IF R.a = "Emit" THEN pending \ {R.id} ELSE pending
            /\ l' = l + 1
            /\ bad' = Append(bad, l)
            /\ UNCHANGED <<now, running, req, out, lagged>>

TNext == /\ l <= Len(Rec)
         /\ (TReset \/ TAdvance \/ TAdvanceBad \/ TStall \/ TStepOK \/ TStepBad)

TSpec == TInit /\ [][TNext]_tvars

\* the spec's action property, re-checked on every accepted step of the implementation
TProps == [][R.a = "Reset" \/ bad' # bad \/ StableStep]_tvars

\* number of silent steps: lines whose stamp is later than the previous line's (Reset: 0)
PrevAt(i) == IF i = 1 THEN 0 ELSE Rec[i - 1].at
NSilent == Cardinality({i \in 1..Len(Rec) : Rec[i].a \notin {"Reset", "Stall"} /\ Rec[i].at > PrevAt(i)})

Done == l = Len(Rec) + 1 => PrintT(<<"TRACE_END", ToJson(bad)>>)
Post == PrintT(<<"TRACE_DONE", TLCGet("stats").diameter - NSilent, Len(Rec)>>)
=============================================================================
