SPECIFICATION TSpec
CONSTANTS
  PRICE = {}
  QTY = {}
  FEE = {}
  MARK = {}
  MaxFills = 0
  FOCUS = "C02"
INVARIANTS Done TypeOK SideSize Conservation FeesConserved
PROPERTIES TProps
POSTCONDITION Post
CHECK_DEADLOCK FALSE
