//! C07 — execution manager conformance driver (spec/ExecManager.tla).
//!
//! `c07 run    --scenarios f.ndjson --out trace.ndjson`
//!     executes TLC-generated scenarios `{T, shut, reqs:[{id,k,at,d,res,inst,side,price,qty,b,fill}]}`
//! `c07 random --seed S --batches B --max N --timeout T --out trace.ndjson --scn-out scn.ndjson`
//!     seeded random batches of up to N outstanding requests (delays below / at / above the
//!     timeout, never; ok / err; ties between requests), written to --scn-out as scenarios
//!
//! Every scenario runs the REAL `ExecutionManager::run` (built with the public constructor) on a
//! current-thread tokio runtime with the paused clock, around a scripted `ExecutionClient` whose
//! open/cancel futures sleep for the scripted delay and then return the scripted result (or pend
//! forever). Requests are injected at the scripted virtual instants; the response channel is
//! drained with `tokio::time::Instant` stamps. One NDJSON line per observation:
//!   Reset | Accept(id, at, script) | Emit(id, kind, at, projected event) | Stall(at) | Shutdown(at) | End(at)
//! NO-TIMEOUT scenarios (`tmode: "max" | "huge"`): the manager is built with request timeout
//! `Duration::MAX` / `u64::MAX/2` seconds (the spec's NoTimeout): every accepted request must be
//! answered by the client's own response, also after days of virtual time; a manager task that
//! dies with accepted requests outstanding is reported (`Anomaly`, requests never answered).
//! CONSTRUCTOR (`ctor: "new" | "init"`): "init" builds the manager through the public
//! `ExecutionManager::init` (account stream + account snapshot from the client, merged account
//! stream with reconnect policy); the first item of the merged stream must be the indexed account
//! snapshot, every other item is treated exactly like an item of the response channel.
//! BOUNDARY TIMEOUTS: `T` may be 0 (a request whose client response is not ready at the first poll
//! times out at once) or 1 ms.
//! STALL scenarios (`stall: [from, to]`): at virtual instant `from`, after the requests of that
//! instant have been handed over and the manager has taken them, the clock is moved to `to` in ONE
//! jump (`tokio::time::advance`) - the manager task is not polled in between, so every timer that
//! elapses inside the jump (client responses and request deadlines) is delivered in a single driver
//! turn, as on a stalled / busy executor. The events then appear at `to`; which event a request
//! gets must still be decided by its delay vs the timeout.
//! `Trace_ExecManager.tla` is the oracle. Lines the projection cannot express (foreign client
//! order id, other event kinds, a panic, a manager that does not stop) are written as
//! `{"a":"Anomaly",..}` and screened by bin/props/c07.py.
//!
//! Note: tokio's `select!` branch order comes from tokio's own per-thread generator, which cannot
//! be seeded through the stable API; `--seed` fixes everything the harness itself draws.
use barter::execution::{AccountStreamEvent, manager::ExecutionManager, request::ExecutionRequest};
use barter_execution::{
    AccountEventKind, UnindexedAccountEvent, UnindexedAccountSnapshot,
    balance::AssetBalance,
    client::ExecutionClient,
    error::{ApiError, ConnectivityError, OrderError, UnindexedClientError, UnindexedOrderError},
    indexer::AccountEventIndexer,
    map::generate_execution_instrument_map,
    order::{
        Order, OrderKey, OrderKind, TimeInForce,
        id::{ClientOrderId, OrderId, StrategyId},
        request::{OrderRequestCancel, OrderRequestOpen, RequestCancel, RequestOpen, UnindexedOrderResponseCancel},
        state::{ActiveOrderState, Cancelled, InactiveOrderState, Open, OrderState},
    },
    trade::Trade,
};
use barter_instrument::{
    Side, Underlying,
    asset::{QuoteAsset, name::AssetNameExchange},
    exchange::{ExchangeId, ExchangeIndex},
    index::IndexedInstruments,
    instrument::{Instrument, InstrumentIndex, name::InstrumentNameExchange},
};
use barter_data::streams::reconnect::stream::ReconnectionBackoffPolicy;
use barter_integration::channel::mpsc_unbounded;
use futures::{FutureExt, Stream, StreamExt};
use chrono::{DateTime, Utc};
use rand::Rng;
use serde_json::{Value, json};
use std::{
    collections::HashMap,
    sync::{Arc, Mutex},
    time::Duration,
};
use tokio::time::Instant;
use vh::util::*;

const EXCHANGE: ExchangeId = ExchangeId::BinanceSpot;
/// virtual milliseconds the harness keeps listening after the last deadline
const MARGIN_MS: u64 = 50;
/// virtual milliseconds the manager gets to stop after a Shutdown request
const STOP_MS: u64 = 1000;

// ------------------------------------------------------------------------------------------------
// scenario
// ------------------------------------------------------------------------------------------------
#[derive(Clone, Debug)]
struct Req {
    id: i64,
    open: bool,
    at: u64,
    /// client delay in ms, None = never answers
    d: Option<u64>,
    ok: bool,
    inst: usize,
    side: String,
    price: i64,
    qty: i64,
    b: String,
    fill: i64,
}

struct Scenario {
    /// request timeout in ms (ignored unless `tmode` is "finite")
    t: u64,
    /// "finite" | "max" (Duration::MAX) | "huge" (u64::MAX / 2 seconds): the spec's NoTimeout
    tmode: String,
    /// "new" (ExecutionManager::new) | "init" (ExecutionManager::init)
    ctor: String,
    shut: Option<u64>,
    /// (from, to): one clock jump during which the manager is not scheduled
    stall: Option<(u64, u64)>,
    reqs: Vec<Req>,
}

fn scenario_of(v: &Value) -> Scenario {
    let shut = i(v, "shut");
    Scenario {
        t: i(v, "T") as u64,
        tmode: v.get("tmode").and_then(|x| x.as_str()).unwrap_or("finite").to_string(),
        ctor: v.get("ctor").and_then(|x| x.as_str()).unwrap_or("new").to_string(),
        shut: (shut >= 0).then_some(shut as u64),
        stall: v.get("stall").and_then(|x| x.as_array()).filter(|a| a.len() == 2).map(|a| {
            (a[0].as_u64().unwrap_or_else(|| usage("stall")), a[1].as_u64().unwrap_or_else(|| usage("stall")))
        }),
        reqs: v["reqs"]
            .as_array()
            .unwrap_or_else(|| usage("reqs"))
            .iter()
            .map(|r| Req {
                id: i(r, "id"),
                open: s(r, "k") == "open",
                at: i(r, "at") as u64,
                d: (i(r, "d") >= 0).then(|| i(r, "d") as u64),
                ok: s(r, "res") == "ok",
                inst: i(r, "inst") as usize,
                side: s(r, "side").to_string(),
                price: i(r, "price"),
                qty: i(r, "qty"),
                b: s(r, "b").to_string(),
                fill: i(r, "fill"),
            })
            .collect(),
    }
}

fn scenario_json(scn: &Scenario) -> Value {
    json!({
        "T": scn.t,
        "tmode": scn.tmode,
        "ctor": scn.ctor,
        "shut": scn.shut.map(|x| x as i64).unwrap_or(-1),
        "stall": scn.stall.map(|(a, b)| json!([a, b])).unwrap_or(json!([])),
        "reqs": scn.reqs.iter().map(|r| json!({
            "id": r.id, "k": if r.open { "open" } else { "cancel" }, "at": r.at,
            "d": r.d.map(|x| x as i64).unwrap_or(-1),
            "res": if r.d.is_none() { "none" } else if r.ok { "ok" } else { "err" },
            "inst": r.inst, "side": r.side, "price": r.price, "qty": r.qty, "b": r.b, "fill": r.fill,
        })).collect::<Vec<_>>(),
    })
}

impl Scenario {
    fn no_timeout(&self) -> bool {
        self.tmode != "finite"
    }
    fn timeout(&self) -> Duration {
        match self.tmode.as_str() {
            "finite" => Duration::from_millis(self.t),
            "max" => Duration::MAX,
            "huge" => Duration::from_secs(u64::MAX / 2),
            _ => usage("tmode: finite | max | huge"),
        }
    }
    /// the instant at which something is due for `r` (None: never answered and no timeout)
    fn due(&self, r: &Req) -> Option<u64> {
        match (self.no_timeout(), r.d) {
            (true, d) => d.map(|d| r.at + d),
            (false, d) => Some(r.at + d.map_or(self.t, |d| d.min(self.t))),
        }
    }
    fn tie(&self, r: &Req) -> bool {
        !self.no_timeout() && r.d == Some(self.t)
    }
}

// ------------------------------------------------------------------------------------------------
// the translation between spec values and implementation values (both directions)
// ------------------------------------------------------------------------------------------------
fn bundle(b: &str) -> (OrderKind, TimeInForce) {
    match b {
        "lim" => (OrderKind::Limit, TimeInForce::GoodUntilCancelled { post_only: false }),
        "mkt" => (OrderKind::Market, TimeInForce::ImmediateOrCancel),
        "lim_po" => (OrderKind::Limit, TimeInForce::GoodUntilCancelled { post_only: true }),
        "ioc" => (OrderKind::Limit, TimeInForce::ImmediateOrCancel),
        _ => usage("unknown bundle"),
    }
}

fn unbundle(kind: OrderKind, tif: TimeInForce) -> &'static str {
    for b in ["lim", "mkt", "lim_po", "ioc"] {
        if bundle(b) == (kind, tif) {
            return b;
        }
    }
    "other"
}

fn side_of(s: &str) -> Side {
    match s {
        "buy" => Side::Buy,
        "sell" => Side::Sell,
        _ => usage("unknown side"),
    }
}

/// Client order ids of the running scenario: request id -> the request whose client order id it bears.
/// Every odd scenario lets neighbouring requests for DIFFERENT instruments share one client order id
/// (legitimate: an order is identified by exchange, instrument and client order id); the strategy id
/// stays unique per request and is what the scripted client and the projection identify a request by.
static SHARED_CID: Mutex<Option<HashMap<i64, i64>>> = Mutex::new(None);

fn share_cids(n: usize, reqs: &[Req]) -> usize {
    let mut m = HashMap::new();
    if n % 2 == 1 {
        for w in reqs.windows(2) {
            if w[0].inst != w[1].inst && !m.contains_key(&w[0].id) {
                m.insert(w[1].id, w[0].id);
            }
        }
    }
    let shared = m.len();
    *SHARED_CID.lock().unwrap() = Some(m);
    shared
}

fn cid(id: i64) -> ClientOrderId {
    let bearer = SHARED_CID.lock().unwrap().as_ref().and_then(|m| m.get(&id).copied()).unwrap_or(id);
    ClientOrderId::new(format!("c{bearer}"))
}
fn strategy(id: i64) -> StrategyId {
    StrategyId::new(format!("s{id}"))
}
fn oid(id: i64) -> OrderId {
    OrderId::new(format!("o{id}"))
}
fn un(prefix: char, v: &str) -> Option<i64> {
    v.strip_prefix(prefix).and_then(|x| x.parse().ok())
}

fn instruments() -> IndexedInstruments {
    let mut b = IndexedInstruments::builder();
    for base in ["btc", "eth", "sol"] {
        b = b.add_instrument(Instrument::spot(
            EXCHANGE,
            format!("binance_spot_{base}_usdt"),
            format!("{}USDT", base.to_uppercase()),
            Underlying::new(base, "usdt"),
            None,
        ));
    }
    b.build()
}

fn key(r: &Req) -> OrderKey<ExchangeIndex, InstrumentIndex> {
    OrderKey {
        exchange: ExchangeIndex(0),
        instrument: InstrumentIndex(r.inst),
        strategy: strategy(r.id),
        cid: cid(r.id),
    }
}

fn request_of(r: &Req) -> ExecutionRequest {
    if r.open {
        let (kind, time_in_force) = bundle(&r.b);
        ExecutionRequest::Open(OrderRequestOpen {
            key: key(r),
            state: RequestOpen { side: side_of(&r.side), price: dec(r.price), quantity: dec(r.qty), kind, time_in_force },
        })
    } else {
        ExecutionRequest::Cancel(OrderRequestCancel { key: key(r), state: RequestCancel { id: Some(oid(r.id)) } })
    }
}

fn err_class<A, I>(e: &OrderError<A, I>) -> &'static str {
    match e {
        OrderError::Connectivity(ConnectivityError::Timeout) => "timeout",
        OrderError::Rejected(_) => "rejected",
        OrderError::Connectivity(_) => "connectivity",
    }
}

/// Blank values of every field of a trace line.
fn blank(a: &str, n: usize, at: u64) -> Value {
    json!({"a": a, "n": n, "id": 0, "at": at, "k": "none", "d": 0, "res": "none", "inst": 0, "side": "none",
           "price": 0, "qty": 0, "b": "none", "fill": 0, "ex": 0, "kex": 0, "st": "none", "err": "none", "oid": 0})
}

fn anomaly(n: usize, at: u64, what: String) -> Value {
    let mut l = blank("Anomaly", n, at);
    l["what"] = Value::from(what);
    l
}

fn accept_line(n: usize, at: u64, r: &Req) -> Value {
    let mut l = blank("Accept", n, at);
    let s = scenario_json(&Scenario { t: 0, tmode: "finite".into(), ctor: "new".into(), shut: None, stall: None, reqs: vec![r.clone()] });
    for (k, v) in s["reqs"][0].as_object().unwrap() {
        l[k] = v.clone();
    }
    l["at"] = Value::from(at); // the instant the request was really handed over
    l
}

/// Projection: an event taken from the response channel -> the spec's `Emit(id, kind, at, ev)`.
fn emit_line(n: usize, at: u64, event: &AccountStreamEvent) -> Value {
    let AccountStreamEvent::Item(event) = event else {
        return anomaly(n, at, "a Reconnecting event on the response channel".into());
    };
    let mut l = blank("Emit", n, at);
    l["ex"] = Value::from(event.exchange.index());
    let key = match &event.kind {
        AccountEventKind::OrderSnapshot(snapshot) => {
            let o = &snapshot.0;
            l["side"] = Value::from(match o.side {
                Side::Buy => "buy",
                Side::Sell => "sell",
            });
            l["price"] = dec_json(o.price);
            l["qty"] = dec_json(o.quantity);
            l["b"] = Value::from(unbundle(o.kind, o.time_in_force));
            match &o.state {
                OrderState::Active(ActiveOrderState::Open(open)) => {
                    l["st"] = Value::from("Open");
                    l["fill"] = dec_json(open.filled_quantity);
                    l["oid"] = Value::from(un('o', open.id.0.as_str()).unwrap_or(-1));
                }
                OrderState::Active(ActiveOrderState::OpenInFlight(_)) => l["st"] = Value::from("OpenInFlight"),
                OrderState::Active(ActiveOrderState::CancelInFlight(_)) => l["st"] = Value::from("CancelInFlight"),
                OrderState::Inactive(InactiveOrderState::FullyFilled) => l["st"] = Value::from("FullyFilled"),
                OrderState::Inactive(InactiveOrderState::Expired) => l["st"] = Value::from("Expired"),
                OrderState::Inactive(InactiveOrderState::Cancelled(c)) => {
                    l["st"] = Value::from("Cancelled");
                    l["oid"] = Value::from(un('o', c.id.0.as_str()).unwrap_or(-1));
                }
                OrderState::Inactive(InactiveOrderState::OpenFailed(e)) => {
                    l["st"] = Value::from("OpenFailed");
                    l["err"] = Value::from(err_class(e));
                }
            }
            &o.key
        }
        AccountEventKind::OrderCancelled(response) => {
            match &response.state {
                Ok(c) => {
                    l["st"] = Value::from("Cancelled");
                    l["oid"] = Value::from(un('o', c.id.0.as_str()).unwrap_or(-1));
                }
                Err(e) => {
                    l["st"] = Value::from("CancelFailed");
                    l["err"] = Value::from(err_class(e));
                }
            }
            &response.key
        }
        other => return anomaly(n, at, format!("an event that answers no request: {other:?}")),
    };
    l["kex"] = Value::from(key.exchange.index());
    l["inst"] = Value::from(key.instrument.index());
    let Some(id) = un('s', key.strategy.0.as_str()) else {
        return anomaly(n, at, format!("event for a strategy no request carried: {}", key.strategy.0));
    };
    if key.cid != cid(id) {
        return anomaly(n, at, format!("event for request {id} (s{id}) carries client order id {} instead of {}", key.cid.0, cid(id).0));
    }
    l["id"] = Value::from(id);
    l["k"] = Value::from(if l["err"] == "timeout" { "timeout" } else { "resp" });
    l
}

// ------------------------------------------------------------------------------------------------
// the scripted client
// ------------------------------------------------------------------------------------------------
type Scripts = Arc<Mutex<HashMap<String, Req>>>;

#[derive(Clone, Default)]
struct ScriptedClient {
    scripts: Scripts,
}

impl ScriptedClient {
    fn script(&self, strategy: &StrategyId) -> Option<Req> {
        self.scripts.lock().unwrap().get(strategy.0.as_str()).cloned()
    }
}

async fn wait(script: &Option<Req>) {
    match script.as_ref().and_then(|r| r.d) {
        Some(ms) => tokio::time::sleep(Duration::from_millis(ms)).await,
        None => std::future::pending::<()>().await,
    }
}

fn time_exchange() -> DateTime<Utc> {
    time(1)
}

impl ExecutionClient for ScriptedClient {
    const EXCHANGE: ExchangeId = EXCHANGE;
    type Config = ();
    type AccountStream = futures::stream::Pending<UnindexedAccountEvent>;

    fn new(_: Self::Config) -> Self {
        Self::default()
    }

    async fn account_snapshot(
        &self,
        _: &[AssetNameExchange],
        _: &[InstrumentNameExchange],
    ) -> Result<UnindexedAccountSnapshot, UnindexedClientError> {
        Ok(UnindexedAccountSnapshot { exchange: EXCHANGE, balances: vec![], instruments: vec![] })
    }

    async fn account_stream(
        &self,
        _: &[AssetNameExchange],
        _: &[InstrumentNameExchange],
    ) -> Result<Self::AccountStream, UnindexedClientError> {
        Ok(futures::stream::pending())
    }

    async fn cancel_order(
        &self,
        request: OrderRequestCancel<ExchangeId, &InstrumentNameExchange>,
    ) -> UnindexedOrderResponseCancel {
        // echo the key the manager handed over
        let key = OrderKey {
            exchange: request.key.exchange,
            instrument: request.key.instrument.clone(),
            strategy: request.key.strategy.clone(),
            cid: request.key.cid.clone(),
        };
        let script = self.script(&key.strategy);
        wait(&script).await;
        let r = script.expect("scripted");
        UnindexedOrderResponseCancel {
            key,
            state: if r.ok {
                Ok(Cancelled { id: oid(r.id), time_exchange: time_exchange() })
            } else {
                Err(UnindexedOrderError::Rejected(ApiError::OrderAlreadyCancelled))
            },
        }
    }

    async fn open_order(
        &self,
        request: OrderRequestOpen<ExchangeId, &InstrumentNameExchange>,
    ) -> Order<ExchangeId, InstrumentNameExchange, Result<Open, UnindexedOrderError>> {
        let key = OrderKey {
            exchange: request.key.exchange,
            instrument: request.key.instrument.clone(),
            strategy: request.key.strategy.clone(),
            cid: request.key.cid.clone(),
        };
        let RequestOpen { side, price, quantity, kind, time_in_force } = request.state;
        let script = self.script(&key.strategy);
        wait(&script).await;
        let r = script.expect("scripted");
        Order {
            key,
            side,
            price,
            quantity,
            kind,
            time_in_force,
            state: if r.ok {
                Ok(Open { id: oid(r.id), time_exchange: time_exchange(), filled_quantity: dec(r.fill) })
            } else {
                Err(UnindexedOrderError::Rejected(ApiError::OrderRejected("scripted rejection".into())))
            },
        }
    }

    async fn fetch_balances(&self) -> Result<Vec<AssetBalance<AssetNameExchange>>, UnindexedClientError> {
        Ok(vec![])
    }

    async fn fetch_open_orders(
        &self,
    ) -> Result<Vec<Order<ExchangeId, InstrumentNameExchange, Open>>, UnindexedClientError> {
        Ok(vec![])
    }

    async fn fetch_trades(
        &self,
        _: DateTime<Utc>,
    ) -> Result<Vec<Trade<QuoteAsset, InstrumentNameExchange>>, UnindexedClientError> {
        Ok(vec![])
    }
}

// ------------------------------------------------------------------------------------------------
// one scenario against the real manager
// ------------------------------------------------------------------------------------------------
#[derive(Default)]
struct Stats {
    scenarios: usize,
    requests: usize,
    resp: usize,
    timeout: usize,
    ties: usize,
    ties_resp: usize,
    ties_timeout: usize,
    same_instant_pairs: usize,
    shutdowns_scripted: usize,
    dropped_by_shutdown: usize,
    max_outstanding: usize,
    anomalies: usize,
    stalls: usize,
    built_with_init: usize,
    snapshots_first: usize,
    never_answered: usize,
    no_timeout_scenarios: usize,
    late_responses: usize,
    stalled_over: usize,
    shared_cid_requests: usize,
}

async fn run_scenario(n: usize, scn: &Scenario, out: &mut Out, st: &mut Stats) {
    st.scenarios += 1;
    if scn.no_timeout() { st.no_timeout_scenarios += 1 }
    let map = generate_execution_instrument_map(&instruments(), EXCHANGE).expect("single-exchange map");
    let client = ScriptedClient::default();
    for r in &scn.reqs {
        client.scripts.lock().unwrap().insert(format!("s{}", r.id), r.clone());
    }
    st.shared_cid_requests += share_cids(n, &scn.reqs);
    let (req_tx, req_rx) = mpsc_unbounded::<ExecutionRequest>();
    let indexer = AccountEventIndexer::new(Arc::new(map));
    let mut snapshot_due = false;
    let (manager, mut events): (_, std::pin::Pin<Box<dyn Stream<Item = AccountStreamEvent> + Send>>) = match scn.ctor.as_str() {
        "new" => {
            let (resp_tx, resp_rx) = mpsc_unbounded::<AccountStreamEvent>();
            let manager = ExecutionManager::new(req_rx.into_stream(), scn.timeout(), resp_tx, Arc::new(client), indexer);
            (manager, resp_rx.into_stream().boxed())
        }
        "init" => {
            st.built_with_init += 1;
            snapshot_due = true;
            match ExecutionManager::init(
                req_rx.into_stream(),
                scn.timeout(),
                Arc::new(client),
                indexer,
                ReconnectionBackoffPolicy { backoff_ms_initial: 10, backoff_multiplier: 2, backoff_ms_max: 1000 },
            )
            .await
            {
                Ok((manager, stream)) => (manager, stream.boxed()),
                Err(e) => {
                    st.anomalies += 1;
                    out.line(&blank("Reset", n, 0));
                    out.line(&anomaly(n, 0, format!("ExecutionManager::init failed: {e:?}")));
                    return;
                }
            }
        }
        _ => usage("ctor: new | init"),
    };

    let t0 = Instant::now();
    let stamp = |out: &mut Out, st: &mut Stats| -> u64 {
        let us = (Instant::now() - t0).as_micros() as u64;
        if us % 1000 != 0 {
            st.anomalies += 1;
            out.line(&anomaly(n, us / 1000, format!("virtual stamp {us}us is not a whole millisecond")));
        }
        us / 1000
    };
    out.line(&blank("Reset", n, 0));
    let mut handle = tokio::spawn(manager.run());

    // schedule: requests ordered by (at, position); requests later than a scripted shutdown are never sent
    let mut order: Vec<usize> = (0..scn.reqs.len()).collect();
    order.sort_by_key(|&j| scn.reqs[j].at);
    let mut next = 0usize;
    let slack = if scn.no_timeout() { 0 } else { scn.t };
    let end = scn.reqs.iter().map(|r| scn.due(r).unwrap_or(r.at).max(r.at + slack)).chain(scn.shut)
        .chain(scn.stall.map(|(_, to)| to + slack)).max().unwrap_or(0)
        + MARGIN_MS;
    let mut stall = scn.stall.filter(|(from, to)| to > from);
    let mut shutdown_sent = false;
    let mut joined = false;
    let mut closed = false;
    let mut ended = false;
    let mut outstanding: HashMap<i64, ()> = HashMap::new();
    let mut last_emit_at: Option<u64> = None;

    loop {
        // the next instant at which the harness itself acts
        let wake = if ended {
            end + STOP_MS
        } else {
            let next_req = (!shutdown_sent && next < order.len()).then(|| scn.reqs[order[next]].at);
            let next_shut = if shutdown_sent { None } else { scn.shut };
            [next_req, next_shut, stall.map(|(from, _)| from), Some(end)].into_iter().flatten().min().unwrap()
        };
        tokio::select! {
            biased;
            event = events.next(), if !closed => match event {
                Some(AccountStreamEvent::Item(ev)) if snapshot_due && matches!(ev.kind, AccountEventKind::Snapshot(_)) => {
                    // ExecutionManager::init: the first item of the account stream is the snapshot
                    snapshot_due = false;
                    st.snapshots_first += 1;
                    if ev.exchange != ExchangeIndex(0) {
                        st.anomalies += 1;
                        let at = stamp(out, st);
                        out.line(&anomaly(n, at, format!("account snapshot for exchange {:?}", ev.exchange)));
                    }
                }
                Some(event) => {
                    let at = stamp(out, st);
                    let line = emit_line(n, at, &event);
                    if line["a"] == "Anomaly" {
                        st.anomalies += 1;
                    } else {
                        let id = line["id"].as_i64().unwrap();
                        outstanding.remove(&id);
                        if line["k"] == "timeout" { st.timeout += 1 } else { st.resp += 1 }
                        if scn.no_timeout() && line["k"] == "resp" && scn.reqs.iter().any(|r| r.id == id && r.d.is_some_and(|d| d > scn.t)) {
                            st.late_responses += 1;   // later than any ordinary timeout would have waited
                        }
                        if let Some(r) = scn.reqs.iter().find(|r| r.id == id) {
                            if scn.tie(r) {
                                if line["k"] == "timeout" { st.ties_timeout += 1 } else { st.ties_resp += 1 }
                            }
                        }
                        if last_emit_at == Some(at) { st.same_instant_pairs += 1 }
                        last_emit_at = Some(at);
                    }
                    out.line(&line);
                }
                None => closed = true,
            },
            result = &mut handle, if !joined => {
                joined = true;
                let at = stamp(out, st);
                match result {
                    Ok(()) => {
                        st.dropped_by_shutdown += outstanding.len();
                        out.line(&blank("Shutdown", n, at));
                    }
                    Err(e) => {
                        st.anomalies += 1;
                        st.never_answered += outstanding.len();
                        let mut ids: Vec<_> = outstanding.keys().copied().collect();
                        ids.sort();
                        out.line(&anomaly(n, at, format!(
                            "ExecutionManager::run panicked at {at} ms with {} accepted request(s) never answered (c{:?}): {e}",
                            ids.len(), ids)));
                    }
                }
                if ended { break }
            },
            _ = tokio::time::sleep_until(t0 + Duration::from_millis(wake)) => {
                let at = stamp(out, st);
                if ended {
                    // the manager ignored the Shutdown request
                    st.anomalies += 1;
                    out.line(&anomaly(n, at, format!("ExecutionManager::run did not return within {STOP_MS}ms of Shutdown")));
                    handle.abort();
                    break;
                }
                while !shutdown_sent && next < order.len() && scn.reqs[order[next]].at <= at {
                    let r = &scn.reqs[order[next]];
                    next += 1;
                    if req_tx.tx.send(request_of(r)).is_err() {
                        st.anomalies += 1;
                        out.line(&anomaly(n, at, format!("request channel closed before c{} could be sent", r.id)));
                        continue;
                    }
                    st.requests += 1;
                    if scn.tie(r) { st.ties += 1 }
                    outstanding.insert(r.id, ());
                    st.max_outstanding = st.max_outstanding.max(outstanding.len());
                    out.line(&accept_line(n, at, r));
                }
                if !shutdown_sent && scn.shut.is_some_and(|s| s <= at) {
                    shutdown_sent = true;
                    st.shutdowns_scripted += 1;
                    let _ = req_tx.tx.send(ExecutionRequest::Shutdown);
                }
                if let Some((from, to)) = stall.filter(|(from, _)| *from <= at) {
                    stall = None;
                    let _ = from;
                    // let the manager take what was handed over at this instant (its request
                    // futures and their deadlines start now), and collect what it emits at once
                    for _ in 0..4 {
                        tokio::task::yield_now().await;
                    }
                    while let Some(Some(event)) = events.next().now_or_never() {
                        if let AccountStreamEvent::Item(ev) = &event {
                            if snapshot_due && matches!(ev.kind, AccountEventKind::Snapshot(_)) {
                                snapshot_due = false;
                                st.snapshots_first += 1;
                                continue;
                            }
                        }
                        let line = emit_line(n, at, &event);
                        if line["a"] == "Anomaly" { st.anomalies += 1 } else {
                            outstanding.remove(&line["id"].as_i64().unwrap());
                            if line["k"] == "timeout" { st.timeout += 1 } else { st.resp += 1 }
                        }
                        out.line(&line);
                    }
                    if to > at {
                        // ONE jump: the manager is not polled between `at` and `to`
                        st.stalls += 1;
                        st.stalled_over += scn.reqs.iter().filter(|r| outstanding.contains_key(&r.id)
                            && scn.due(r).is_some_and(|due| due < to)).count();
                        tokio::time::advance(Duration::from_millis(to - at)).await;
                        let now = stamp(out, st);
                        out.line(&blank("Stall", n, now));
                    }
                    continue;
                }
                if at >= end {
                    ended = true;
                    if snapshot_due {
                        st.anomalies += 1;
                        out.line(&anomaly(n, at, "ExecutionManager::init: no account snapshot on the account stream".into()));
                    }
                    out.line(&blank("End", n, at));
                    if !shutdown_sent {
                        shutdown_sent = true;
                        let _ = req_tx.tx.send(ExecutionRequest::Shutdown);
                    }
                    if joined { break }
                }
            }
        }
    }
}

// ------------------------------------------------------------------------------------------------
// random batches
// ------------------------------------------------------------------------------------------------
/// `full`: the batch has `max` requests arriving inside a short window and is not shut down (the
/// first batch of every run, so that every run reaches a large number of outstanding requests)
fn random_scenario(rng: &mut impl Rng, t: u64, max: usize, no_stall: bool, tmode: &str, full: bool) -> Scenario {
    let n = if rng.random_bool(0.5) || full { max } else { rng.random_range(1..=max) };
    // arrivals inside a window shorter than the timeout: everything can be outstanding at once
    let window = if rng.random_bool(0.7) || full { t * 6 / 10 } else { t * 3 };
    let grid = *[1u64, 1, 5, 10].get(rng.random_range(0..4)).unwrap();
    let mut reqs = Vec::new();
    for id in 1..=n as i64 {
        let at = rng.random_range(0..=window / grid) * grid;
        let d = match rng.random_range(0..100) {
            0..5 => Some(0),
            5..35 => Some(rng.random_range(1..t.max(2))),
            35..50 => Some(t),
            50..80 => Some(t + rng.random_range(1..=t * 3 / 2)),
            80..85 => Some((t + at % 7 * grid).saturating_sub(at % 5)), // collisions with other deadlines
            _ => None,
        };
        let open = rng.random_bool(0.6);
        let ok = rng.random_bool(0.7);
        let qty = rng.random_range(1..=5);
        reqs.push(Req {
            id,
            open,
            at,
            d,
            ok,
            inst: rng.random_range(0..3),
            side: if !open { "none" } else if rng.random_bool(0.5) { "buy" } else { "sell" }.to_string(),
            price: if open { rng.random_range(1..=500) } else { 0 },
            qty: if open { qty } else { 0 },
            b: if open { ["lim", "mkt", "lim_po", "ioc"][rng.random_range(0..4)] } else { "none" }.to_string(),
            fill: if open && ok && d.is_some() { *[0, qty, rng.random_range(0..=qty)].get(rng.random_range(0..3)).unwrap() } else { 0 },
        });
    }
    let shut = (rng.random_bool(0.2) && !full).then(|| rng.random_range(0..=window + 2 * t));
    // a stall: after the last arrival one jump over (most of) the due instants
    let stall = (!no_stall && rng.random_bool(0.5)).then(|| {
        let from = reqs.iter().map(|r| r.at).max().unwrap_or(0);
        (from, from + rng.random_range(1..=3 * t))
    });
    let shut = if stall.is_some() { None } else { shut };
    let mut reqs = reqs;
    if tmode != "finite" {
        // no timeout: some clients take very long (days of virtual time)
        for r in reqs.iter_mut() {
            if r.d.is_some() && rng.random_bool(0.2) {
                r.d = Some(rng.random_range(1_000..=1_000_000_000));
            }
        }
    }
    let ctor = if rng.random_bool(0.5) { "new" } else { "init" }.to_string();
    Scenario { t, tmode: tmode.to_string(), ctor, shut, stall, reqs }
}

#[tokio::main(flavor = "current_thread", start_paused = true)]
async fn main() {
    let args = Args::parse();
    let mut out = Out::create(args.req("out"));
    let mut st = Stats::default();
    // a panic inside the spawned manager task is data (reported through the JoinHandle)
    std::panic::set_hook(Box::new(|_| {}));
    match args.cmd.as_str() {
        "run" => {
            for (n, v) in read_ndjson(args.req("scenarios")).iter().enumerate() {
                run_scenario(n, &scenario_of(v), &mut out, &mut st).await;
            }
        }
        "random" => {
            let mut rng = rng(args.u64("seed", 1));
            let t = args.u64("timeout", 100);
            let max = args.usize("max", 200);
            let mut scn_out = Out::create(args.req("scn-out"));
            for n in 0..args.usize("batches", 10) {
                let scn = random_scenario(&mut rng, t, max, args.get("stalls") == Some("off"), &args.str("tmode", "finite"), n == 0);
                scn_out.line(&scenario_json(&scn));
                run_scenario(n, &scn, &mut out, &mut st).await;
            }
            scn_out.finish();
        }
        _ => usage("commands: run | random"),
    }
    let lines = out.finish();
    println!(
        "{}",
        json!({"lines": lines, "scenarios": st.scenarios, "requests": st.requests, "responses": st.resp,
               "timeout_failures": st.timeout, "requests_answering_exactly_at_deadline": st.ties,
               "ties_emitted_as_response": st.ties_resp, "ties_emitted_as_timeout": st.ties_timeout,
               "consecutive_events_at_one_instant": st.same_instant_pairs,
               "scripted_shutdowns": st.shutdowns_scripted, "requests_dropped_by_shutdown": st.dropped_by_shutdown,
               "max_outstanding": st.max_outstanding, "anomalies": st.anomalies,
               "stalls": st.stalls, "requests_due_inside_a_stall": st.stalled_over,
               "built_with_init": st.built_with_init, "requests_sharing_a_client_order_id": st.shared_cid_requests, "init_snapshot_forwarded_first": st.snapshots_first,
               "no_timeout_scenarios": st.no_timeout_scenarios, "no_timeout_responses_after_long_delay": st.late_responses,
               "accepted_requests_never_answered_because_manager_died": st.never_answered})
    );
}
