--------------------------- MODULE Trace_BinanceL2 ---------------------------
(* Trace validation (impl -> spec) for C06.  One NDJSON line per step:        *)
(*  {"a":"Reset",  "world":{rule,chg:{i:[..]},cut:{i:[..]}}, "snap":{i:S}, ..}*)
(*        a new world and the first connection (real Transformer::init with   *)
(*        the snapshot events, books replaced by the snapshot events)         *)
(*  {"a":"Reinit", "snap":{i:S}, ..}   reconnect: new snapshots / transformer *)
(*  {"a":"Deliver","i":i,"k":k,"out":Dropped|Admitted|Error,"err":..,"term":..}*)
(*        event k of instrument i (payload synthesised from the world) pushed *)
(*        through the real transformer; outputs applied to the local book     *)
(*  every line: "post":{book:{i:{bids,asks,seq}}, sq:{i:{processed,lastId}},  *)
(*                      conn, notices}  as observed after the step            *)
(* Each line must be the corresponding BinanceL2 action with exactly the      *)
(* logged outcome and post-state; otherwise its number is recorded in `bad`   *)
(* and the rest of the segment (up to the next Reset) is skipped.             *)
EXTENDS BinanceL2, Json, IOUtils

Rec == ndJsonDeserialize(IOEnv.TRACE)

VARIABLES l, bad, broken
tvars == <<rule, chg, cut, snap, sq, book, conn, notices, nreinit, ndeliv, admitted, clean, last, l, bad, broken>>

ProjB(b) == [bids |-> OB!Levels(b.bids, "bids"), asks |-> OB!Levels(b.asks, "asks"), seq |-> b.seq]
ProjS(s) == [processed |-> s.processed, lastId |-> s.lastId]
Fn(r)    == [i \in INSTR |-> r[i]]

\* the logged observation equals the (primed) specification state
PostOK(p) == /\ \A i \in INSTR : p.book[i] = ProjB(book'[i]) /\ p.sq[i] = ProjS(sq'[i])
             /\ p.conn = conn'
             /\ p.notices = notices'

TInit == /\ l = 1 /\ bad = << >> /\ broken = TRUE        \* nothing is judged before the first Reset
         /\ InitWith("Spot", [i \in INSTR |-> <<[side |-> "b", p |-> 1, a |-> 0]>>], [i \in INSTR |-> <<1>>], [i \in INSTR |-> 0])

World(r) == /\ rule' = r.world.rule
            /\ chg' = Fn(r.world.chg)
            /\ cut' = Fn(r.world.cut)
            /\ snap' = Fn(r.snap)
            /\ sq' = [i \in INSTR |-> Fresh(r.snap[i])]
            /\ book' = [i \in INSTR |-> TruthOf(r.world.chg[i], r.snap[i])]
            /\ conn' = "up" /\ notices' = 0 /\ nreinit' = 0 /\ ndeliv' = 0
            /\ admitted' = [i \in INSTR |-> << >>]
            /\ clean' = [i \in INSTR |-> CleanStart]
            /\ last' = Obs("Init", "", 0, "")

WellFormedWorld(w) ==
  /\ w.rule \in {"Spot", "Futures"}
  /\ \A i \in INSTR : /\ Len(w.cut[i]) >= 1 /\ w.cut[i][Len(w.cut[i])] = Len(w.chg[i])
                      /\ \A j \in 1..(Len(w.cut[i]) - 1) : w.cut[i][j] < w.cut[i][j + 1]
                      /\ w.cut[i][1] >= 1

\* a Reset line is accepted iff the first connection shows exactly the snapshots
TReset == /\ Rec[l].a = "Reset"
          /\ World(Rec[l])
          /\ LET ok == WellFormedWorld(Rec[l].world) /\ PostOK(Rec[l].post)
             IN broken' = ~ok /\ bad' = IF ok THEN bad ELSE Append(bad, l)

TDeliver == /\ ~broken /\ Rec[l].a = "Deliver"
            /\ LET i == Rec[l].i  k == Rec[l].k IN
               /\ k \in 1..NEv(i)
               /\ (DeliverDropped(i, k) \/ DeliverAdmitted(i, k) \/ DeliverError(i, k))   \* the spec's own actions
            /\ last'.out = Rec[l].out
            /\ (Rec[l].out = "Error" => Rec[l].err = "InvalidSequence" /\ Rec[l].term = TRUE)
            /\ (Rec[l].out # "Error" => Rec[l].err = "none")
            /\ PostOK(Rec[l].post)
            /\ UNCHANGED <<bad, broken>>

TReinit == /\ ~broken /\ Rec[l].a = "Reinit"
           /\ ReinitWith(Fn(Rec[l].snap))                                                  \* the spec's own action
           /\ PostOK(Rec[l].post)
           /\ UNCHANGED <<bad, broken>>

\* is line l (not a Reset) a step the specification allows?  (same predicates, unprimed form)
Allowed(r) ==
  CASE r.a = "Deliver" ->
         /\ conn = "up" /\ r.k \in 1..NEv(r.i)
         /\ LET e == Event(r.i, r.k)  out == Outcome(rule, e, sq[r.i]) IN
            /\ r.out = out
            /\ (out = "Error" => r.err = "InvalidSequence" /\ r.term = TRUE /\ r.post.conn = "down" /\ r.post.notices = notices + 1)
            /\ (out # "Error" => r.err = "none" /\ r.post.conn = "up" /\ r.post.notices = notices)
            /\ \A j \in INSTR \ {r.i} : r.post.book[j] = ProjB(book[j]) /\ r.post.sq[j] = ProjS(sq[j])
            /\ IF out = "Admitted"
               THEN /\ r.post.sq[r.i] = [processed |-> sq[r.i].processed + 1, lastId |-> e.u]
                    /\ \E nb \in OB!UpdateResults(book[r.i], e.b, e.a, e.u) : r.post.book[r.i] = ProjB(nb)
               ELSE r.post.sq[r.i] = ProjS(sq[r.i]) /\ r.post.book[r.i] = ProjB(book[r.i])
    [] r.a = "Reinit" ->
         /\ conn = "down"
         /\ \A i \in INSTR : /\ r.snap[i] \in 0..LenM(i)
                             /\ r.post.book[i] = ProjB(Truth(i, r.snap[i]))
                             /\ r.post.sq[i] = [processed |-> 0, lastId |-> r.snap[i]]
         /\ r.post.conn = "up" /\ r.post.notices = notices
    [] OTHER -> FALSE

TBad == /\ ~broken /\ Rec[l].a # "Reset"
        /\ ~Allowed(Rec[l])
        /\ bad' = Append(bad, l) /\ broken' = TRUE
        /\ UNCHANGED <<rule, chg, cut, snap, sq, book, conn, notices, nreinit, ndeliv, admitted, clean, last>>

TSkip == /\ broken /\ Rec[l].a # "Reset"
         /\ UNCHANGED <<rule, chg, cut, snap, sq, book, conn, notices, nreinit, ndeliv, admitted, clean, last, bad, broken>>

TNext == /\ l <= Len(Rec)
         /\ l' = l + 1
         /\ (TReset \/ TDeliver \/ TReinit \/ TBad \/ TSkip)

TSpec == TInit /\ [][TNext]_tvars

\* the C06 invariants and action formulas on every accepted step of the implementation
TInv == broken \/ (TypeOK /\ Chain /\ BookValid /\ BookNeverWrong /\ BookIsMap /\ Told /\ CleanNeverErrors)
TProps == [][broken \/ broken' \/ last'.a # "Deliver" \/ StepProps]_tvars

Done == l = Len(Rec) + 1 => PrintT(<<"TRACE_END", ToJson(bad)>>)
Post == PrintT(<<"TRACE_DONE", TLCGet("stats").diameter, Len(Rec)>>)
=============================================================================
