------------------------------ MODULE Position ------------------------------
(***************************************************************************)
(* Position bookkeeping of one instrument (C02) and the unrealised-PnL     *)
(* estimate (C15), in exact fractions (module Rational).                   *)
(*                                                                         *)
(* Code transcribed:                                                       *)
(*   barter/src/engine/state/position.rs                                   *)
(*     PositionManager::update_from_trade      -> Fill (5 arms)            *)
(*       None                                  -> FillOpen                 *)
(*       Position::update_from_trade                                       *)
(*         (Buy,Buy)|(Sell,Sell)               -> FillIncrease             *)
(*         opposite, quantity_abs >  q         -> FillReduce               *)
(*         opposite, quantity_abs =  q         -> FillClose                *)
(*         opposite, quantity_abs <  q         -> FillFlip                 *)
(*     Position::from(&Trade)                  -> Opened                   *)
(*     PositionExited::from(Position)          -> Closed                   *)
(*     calculate_price_entry_average           -> inside FillIncrease      *)
(*     calculate_pnl_realised                  -> PnlRealised              *)
(*     calculate_pnl_unrealised,                                           *)
(*       approximate_remaining_exit_fees       -> Estimate                 *)
(*     Position::update_pnl_unrealised         -> Mark                     *)
(*     #[derive(Serialize, Deserialize)] of Position / PositionManager /   *)
(*       InstrumentStates                      -> Persist (round trip)     *)
(*   barter/src/engine/state/instrument/mod.rs                             *)
(*     InstrumentState::update_from_trade      -> Fill                     *)
(*     InstrumentState::update_from_market     -> Mark(price()) when a     *)
(*         position is open and the data state yields a price, else        *)
(*         MarkNoPrice (both early returns: a stutter for the position)    *)
(*   barter/src/engine/state/mod.rs                                        *)
(*     EngineState::update_from_account (Trade arm), update_from_market    *)
(*         are the entry points the harness drives.                        *)
(*                                                                         *)
(* State.  pos is a record; pos.side = "none" means "no open position".    *)
(*   side, qty, qmax, avg, real, unreal, feeIn, feeOut, trades, tin, tupd  *)
(*   = side, quantity_abs, quantity_abs_max, price_entry_average,          *)
(*     pnl_realised, pnl_unrealised, fees_enter, fees_exit, trades,        *)
(*     time_enter, time_exchange_update.                                   *)
(* exited is the sequence of PositionExited records emitted so far.        *)
(* Ghosts (not in the code): net = signed filled quantity, cash = sell     *)
(* proceeds - buy cost, fees = sum of fill fees, nfill = number of fills,  *)
(* fresh = what refreshed pos.unreal last ("fill" | "mark" | "none").      *)
(*                                                                         *)
(* Deliberately nondeterministic (DESIGN 5.4) - nothing else is:           *)
(*   MarkStale: a priced market event that is NOT newer than the last fill *)
(*   and arrives while the estimate still stems from that fill: the two    *)
(*   sentences of C15 meet, so unreal may stay or be recomputed at the     *)
(*   data-state price.                                                     *)
(* NOT left open, although the pinned code does otherwise (the checks      *)
(* report both as C15 findings, they are not spec freedoms):               *)
(*   - EngineState::update_from_market only feeds the data state, so a     *)
(*     priced market event never performs Mark (pre-registered F5);        *)
(*   - Position::from(&Trade) sets pnl_unrealised = 0, whereas "after a    *)
(*     fill it equals the same estimate at the fill price" gives           *)
(*     -(qty/qmax)*feeIn = -fee for a position opened (or re-opened by a   *)
(*     flip) with a non-zero fee: Opened uses Estimate.                    *)
(* Times: tin / tupd / tout are the exchange times of the fills as given   *)
(* (integers); Mark does not touch them (the code does not either).        *)
(***************************************************************************)
EXTENDS Integers, Sequences, FiniteSets, Rational

CONSTANTS PRICE,     \* fill prices      (integers; > 0 in C02's configurations - its quantifier says
                     \*                   price > 0 - but C15's also contain 0 and negative prices)
          QTY,       \* fill quantities  (positive integers)
          FEE,       \* fill fees        (integers; >= 0 in C02's model-checking configurations - its quantifier
                     \*                   says fee >= 0 - but negative fees, i.e. maker rebates, are fills too: the
                     \*                   formulas are linear in the fee and no guard assumes a sign)
          MARK,      \* market prices    (integers, INCLUDING 0 and negative ones: C15 speaks of "any market
                     \*                   event that yields a price" - spreads and sub-zero futures trade there)
          MaxFills   \* bound on the number of fills of a behaviour (model checking only)

VARIABLES pos, exited, net, cash, fees, nfill, fresh, last

vars == <<pos, exited, net, cash, fees, nfill, fresh, last>>
View == <<pos, exited, net, cash, fees, nfill, fresh>>

SIDES  == {"buy", "sell"}
Sgn(s) == IF s = "buy" THEN 1 ELSE -1
Opp(s) == IF s = "buy" THEN "sell" ELSE "buy"
Scale(sg, x) == IF sg = 1 THEN x ELSE Neg(x)

NoPos == [side |-> "none", qty |-> Zero, qmax |-> Zero, avg |-> Zero, real |-> Zero,
          unreal |-> Zero, feeIn |-> Zero, feeOut |-> Zero, trades |-> <<>>, tin |-> 0, tupd |-> 0]
IsOpen(P) == P.side # "none"
SignedQty(P) == IF IsOpen(P) THEN Scale(Sgn(P.side), P.qty) ELSE Zero

(***************************************************************************)
(* The documented formulas.                                                *)
(***************************************************************************)
\* calculate_pnl_realised(side, avg, closed_quantity, closed_price, closed_fee)
PnlRealised(side, avg, cq, cp, cf) == Sub(Scale(Sgn(side), Mul(cq, Sub(cp, avg))), cf)

\* calculate_pnl_unrealised: price move on the open quantity minus the pro-rata
\* estimate of the exit fees, (qty / qmax) * feeIn.   Only for open positions.
Estimate(P, price) ==
    Sub(Scale(Sgn(P.side), Mul(P.qty, Sub(price, P.avg))), Mul(Div(P.qty, P.qmax), P.feeIn))

\* Position::from(&Trade), with the estimate at the fill price (C15, second sentence)
Opened(s, p, q, f, id, t) ==
    LET P0 == [side |-> s, qty |-> q, qmax |-> q, avg |-> p, real |-> Neg(f), unreal |-> Zero,
               feeIn |-> f, feeOut |-> Zero, trades |-> <<id>>, tin |-> t, tupd |-> t]
    IN [P0 EXCEPT !.unreal = Estimate(P0, p)]

\* PositionExited::from(Position)
Closed(P) == [side |-> P.side, avg |-> P.avg, qmax |-> P.qmax, real |-> P.real,
              feeIn |-> P.feeIn, feeOut |-> P.feeOut, trades |-> P.trades,
              tin |-> P.tin, tout |-> P.tupd]

(***************************************************************************)
(* Events (observation only).  p, q, fee are rationals.                    *)
(***************************************************************************)
Ev(a, arm, side, p, q, fee, id, t) ==
    [a |-> a, arm |-> arm, side |-> side, p |-> p, q |-> q, fee |-> fee, id |-> id, t |-> t]
NoEvent == Ev("Init", "", "", Zero, Zero, Zero, 0, 0)

Ghosts(arm, s, p, q, f, id, t) ==
    /\ net'   = Add(net, Scale(Sgn(s), q))
    /\ cash'  = Sub(cash, Scale(Sgn(s), Mul(p, q)))
    /\ fees'  = Add(fees, f)
    /\ nfill' = nfill + 1
    /\ fresh' = "fill"
    /\ last'  = Ev("Fill", arm, s, p, q, f, id, t)

(***************************************************************************)
(* Fill(side, p, q, fee, id, t): one disjunct per arm of the code.         *)
(***************************************************************************)
FillOpen(s, p, q, f, id, t) ==
    /\ ~IsOpen(pos)
    /\ pos' = Opened(s, p, q, f, id, t)
    /\ exited' = exited
    /\ Ghosts("Open", s, p, q, f, id, t)

FillIncrease(s, p, q, f, id, t) ==
    /\ IsOpen(pos) /\ pos.side = s
    /\ LET nq == Add(pos.qty, q)
           P1 == [pos EXCEPT !.avg    = Div(Add(Mul(pos.avg, pos.qty), Mul(p, q)), nq),
                             !.qty    = nq,
                             !.qmax   = RMax(pos.qmax, nq),
                             !.real   = Sub(pos.real, f),
                             !.feeIn  = Add(pos.feeIn, f),
                             !.tupd   = t,
                             !.trades = Append(pos.trades, id)]
       IN pos' = [P1 EXCEPT !.unreal = Estimate(P1, p)]
    /\ exited' = exited
    /\ Ghosts("Increase", s, p, q, f, id, t)

FillReduce(s, p, q, f, id, t) ==
    /\ IsOpen(pos) /\ pos.side = Opp(s) /\ Gt(pos.qty, q)
    /\ LET P1 == [pos EXCEPT !.real   = Add(pos.real, PnlRealised(pos.side, pos.avg, q, p, f)),
                             !.qty    = Sub(pos.qty, q),
                             !.feeOut = Add(pos.feeOut, f),
                             !.tupd   = t,
                             !.trades = Append(pos.trades, id)]
       IN pos' = [P1 EXCEPT !.unreal = Estimate(P1, p)]
    /\ exited' = exited
    /\ Ghosts("Reduce", s, p, q, f, id, t)

FillClose(s, p, q, f, id, t) ==
    /\ IsOpen(pos) /\ pos.side = Opp(s) /\ pos.qty = q
    /\ LET C == [pos EXCEPT !.real   = Add(pos.real, PnlRealised(pos.side, pos.avg, q, p, f)),
                            !.feeOut = Add(pos.feeOut, f),
                            !.tupd   = t,
                            !.trades = Append(pos.trades, id)]
       IN exited' = Append(exited, Closed(C))
    /\ pos' = NoPos
    /\ Ghosts("Close", s, p, q, f, id, t)

FillFlip(s, p, q, f, id, t) ==
    /\ IsOpen(pos) /\ pos.side = Opp(s) /\ Lt(pos.qty, q)
    /\ LET nq == Sub(q, pos.qty)                  \* remainder opens the opposite position
           nf == Mul(f, Div(nq, q))               \* its pro-rata share of the fee
           fe == Mul(f, Div(pos.qty, q))          \* the closing share of the fee
           C  == [pos EXCEPT !.feeOut = Add(pos.feeOut, fe),
                             !.real   = Add(pos.real, PnlRealised(pos.side, pos.avg, pos.qty, p, fe)),
                             !.tupd   = t,
                             !.trades = Append(pos.trades, id)]
       IN /\ exited' = Append(exited, Closed(C))
          /\ pos' = Opened(s, p, nq, nf, id, t)
    /\ Ghosts("Flip", s, p, q, f, id, t)

Fill(s, p, q, f, id, t) ==
    \/ FillOpen(s, p, q, f, id, t)
    \/ FillIncrease(s, p, q, f, id, t)
    \/ FillReduce(s, p, q, f, id, t)
    \/ FillClose(s, p, q, f, id, t)
    \/ FillFlip(s, p, q, f, id, t)

(***************************************************************************)
(* Mark(price): the engine processed a market event after which the data   *)
(* state yields `price` for this instrument (C15).                         *)
(*   newer: the event's exchange time is later than the last fill's.       *)
(***************************************************************************)
MarkNewer(price) ==
    /\ IsOpen(pos)
    /\ pos' = [pos EXCEPT !.unreal = Estimate(pos, price)]
    /\ fresh' = "mark"
    /\ last' = Ev("Mark", "Newer", "", price, Zero, Zero, 0, 0)
    /\ UNCHANGED <<exited, net, cash, fees, nfill>>

MarkStale(price) ==
    /\ IsOpen(pos)
    /\ \E u \in (IF fresh = "fill" THEN {Estimate(pos, price), pos.unreal} ELSE {Estimate(pos, price)}) :
           pos' = [pos EXCEPT !.unreal = u]
    /\ fresh' = fresh
    /\ last' = Ev("Mark", "Stale", "", price, Zero, Zero, 0, 0)
    /\ UNCHANGED <<exited, net, cash, fees, nfill>>

Mark(price, newer) == IF newer THEN MarkNewer(price) ELSE MarkStale(price)

\* MarkNoPrice: the engine processed a market event that leaves the position unmarked - the data
\* state yields no price after it (a candle, a liquidation, a one-sided or empty top-of-book before
\* any public trade), or no position is open.  For the position it is a stutter: side, size,
\* realised PnL, fees, fill ids AND the estimate stay as they are, and no closed record is emitted
\* (InstrumentState::update_from_market returns early).
MarkNoPrice ==
    /\ last' = Ev("Mark", "NoPrice", "", Zero, Zero, Zero, 0, 0)
    /\ UNCHANGED <<pos, exited, net, cash, fees, nfill, fresh>>

\* Persist: the state holding the position is stored and restored (serialised and deserialised:
\* a session restart, a state snapshot handed to another process).  A stored and restored position
\* is the same position - every field, the fill ids included - so everything reported afterwards
\* (closed records of later fills too) is as if nothing had happened: a stutter.
Persist ==
    /\ last' = Ev("Persist", "", "", Zero, Zero, Zero, 0, 0)
    /\ UNCHANGED <<pos, exited, net, cash, fees, nfill, fresh>>

(***************************************************************************)
(* The bounded model.  Every arm is a separately named action so that the  *)
(* coverage of TLC shows it was taken.                                     *)
(***************************************************************************)
Init == /\ pos = NoPos /\ exited = <<>>
        /\ net = Zero /\ cash = Zero /\ fees = Zero /\ nfill = 0
        /\ fresh = "none" /\ last = NoEvent

Args == SIDES \X PRICE \X QTY \X FEE
CanFill == nfill < MaxFills
DoOpen     == CanFill /\ \E a \in Args : FillOpen(a[1], R(a[2]), R(a[3]), R(a[4]), nfill + 1, nfill + 1)
DoIncrease == CanFill /\ \E a \in Args : FillIncrease(a[1], R(a[2]), R(a[3]), R(a[4]), nfill + 1, nfill + 1)
DoReduce   == CanFill /\ \E a \in Args : FillReduce(a[1], R(a[2]), R(a[3]), R(a[4]), nfill + 1, nfill + 1)
DoClose    == CanFill /\ \E a \in Args : FillClose(a[1], R(a[2]), R(a[3]), R(a[4]), nfill + 1, nfill + 1)
DoFlip     == CanFill /\ \E a \in Args : FillFlip(a[1], R(a[2]), R(a[3]), R(a[4]), nfill + 1, nfill + 1)
DoMarkNewer == \E m \in MARK : MarkNewer(R(m))
DoMarkStale == \E m \in MARK : MarkStale(R(m))

DoMarkNoPrice == MarkNoPrice
DoPersist == Persist

Next == DoOpen \/ DoIncrease \/ DoReduce \/ DoClose \/ DoFlip \/ DoMarkNewer \/ DoMarkStale \/ DoMarkNoPrice \/ DoPersist
Spec == Init /\ [][Next]_vars

(***************************************************************************)
(* Well-formedness.                                                        *)
(***************************************************************************)
RatFields(P) == /\ IsRational(P.qty) /\ IsRational(P.qmax) /\ IsRational(P.avg) /\ IsRational(P.real)
                /\ IsRational(P.unreal) /\ IsRational(P.feeIn) /\ IsRational(P.feeOut)
TypeOK ==
    /\ pos.side \in SIDES \cup {"none"}
    /\ RatFields(pos)
    /\ IsOpen(pos) => IsPos(pos.qty) /\ Geq(pos.qmax, pos.qty)
                      /\ Len(pos.trades) >= 1
    /\ ~IsOpen(pos) => pos = NoPos
    /\ IsRational(net) /\ IsRational(cash) /\ IsRational(fees)
    /\ fresh \in {"none", "fill", "mark"}

\* with positive fill prices (C02's quantifier) the average entry price is positive
AvgPositive == IsOpen(pos) => IsPos(pos.avg)
\* with non-negative fill fees (C02's quantifier) the accumulated fees are non-negative
FeesNonNegative == Geq(pos.feeIn, Zero) /\ Geq(pos.feeOut, Zero) /\ Geq(fees, Zero)

(***************************************************************************)
(* C02                                                                     *)
(***************************************************************************)
FeesOf(x)  == Add(x.feeIn, x.feeOut)
RECURSIVE SumReal(_), SumFees(_)
SumReal(s) == IF s = <<>> THEN Zero ELSE Add(Head(s).real, SumReal(Tail(s)))
SumFees(s) == IF s = <<>> THEN Zero ELSE Add(FeesOf(Head(s)), SumFees(Tail(s)))
Range(s)   == {s[i] : i \in DOMAIN s}

\* side and size of the open position = sign and magnitude of the net filled quantity
SideSize ==
    /\ ~IsOpen(pos) <=> IsZero(net)
    /\ IsOpen(pos) => Sgn(pos.side) = Sign(net) /\ pos.qty = Abs(net)

\* realised PnL over all closed records + the open position's
\*    = sell proceeds - buy cost - all fees + open quantity valued at its average entry price
Conservation ==
    Add(SumReal(exited), pos.real)
        = Add(Sub(cash, fees), Mul(SignedQty(pos), pos.avg))

\* entry + exit fees over all positions = the fees of the fills
FeesConserved == Add(SumFees(exited), FeesOf(pos)) = fees

\* a closed record is emitted exactly when the net quantity reaches or crosses zero; a crossing
\* fill opens the opposite position with the remainder and a pro-rata share of its fee; closed
\* records are the final state of the position that was open and never change afterwards
ExitIffStep ==
    LET crossing == ~IsZero(net) /\ (IsZero(net') \/ Sign(net') # Sign(net)) IN
    /\ crossing => /\ Len(exited') = Len(exited) + 1
                   /\ SubSeq(exited', 1, Len(exited)) = exited
                   /\ LET c == exited'[Len(exited')] IN
                        /\ c.side = pos.side /\ c.avg = pos.avg /\ c.qmax = pos.qmax
                        /\ c.feeIn = pos.feeIn /\ c.tin = pos.tin /\ c.tout = last'.t
                        /\ c.trades = Append(pos.trades, last'.id)
    /\ ~crossing => exited' = exited
    /\ (crossing /\ ~IsZero(net')) =>
          /\ pos'.side = Opp(pos.side) /\ pos'.qty = Abs(net') /\ pos'.qmax = pos'.qty
          /\ pos'.avg = last'.p
          /\ pos'.feeIn = Mul(last'.fee, Div(Abs(net'), last'.q))
          /\ pos'.real = Neg(pos'.feeIn) /\ pos'.feeOut = Zero
    /\ (crossing /\ IsZero(net')) => pos' = NoPos
ExitIff == [][ExitIffStep]_vars

\* every fill id is recorded against the position(s) it affected
IdsStep ==
    last'.a = "Fill" =>
       /\ IsOpen(pos') => last'.id \in Range(pos'.trades)
       /\ Len(exited') > Len(exited) => last'.id \in Range(exited'[Len(exited')].trades)
       /\ (IsOpen(pos) /\ IsOpen(pos') /\ pos'.side = pos.side) => pos'.trades = Append(pos.trades, last'.id)
       /\ (IsOpen(pos') /\ (~IsOpen(pos) \/ pos'.side # pos.side)) => pos'.trades = <<last'.id>>
Ids == [][IdsStep]_vars

\* bookkeeping of the maximum quantity and of the average entry price
QmaxAvgStep ==
    (last'.a = "Fill" /\ IsOpen(pos) /\ IsOpen(pos') /\ pos'.side = pos.side) =>
       /\ pos'.qmax = RMax(pos.qmax, pos'.qty)
       /\ Gt(pos'.qty, pos.qty) => Mul(pos'.avg, pos'.qty) = Add(Mul(pos.avg, pos.qty), Mul(last'.p, last'.q))
       /\ Lt(pos'.qty, pos.qty) => pos'.avg = pos.avg
QmaxAvg == [][QmaxAvgStep]_vars

(***************************************************************************)
(* C15                                                                     *)
(***************************************************************************)
\* after a fill the estimate is evaluated at the fill price; after a priced market event at the
\* instrument's price - except in the one open case (MarkStale while the estimate stems from a fill)
FreshUnrealStep ==
    /\ (last'.a = "Fill" /\ IsOpen(pos')) => pos'.unreal = Estimate(pos', last'.p)
    /\ (last'.a = "Mark" /\ last'.arm # "NoPrice") =>
          /\ IsOpen(pos')
          /\ LET est == Estimate(pos', last'.p) IN
               IF last'.arm = "Newer" \/ fresh # "fill"
               THEN pos'.unreal = est
               ELSE pos'.unreal \in {est, pos.unreal}
FreshUnreal == [][FreshUnrealStep]_vars

\* a market event changes nothing but the estimate
MarkOnlyUnrealStep ==
    last'.a = "Mark" => /\ [pos' EXCEPT !.unreal = Zero] = [pos EXCEPT !.unreal = Zero]
                        /\ exited' = exited /\ net' = net /\ cash' = cash /\ fees' = fees
MarkOnlyUnreal == [][MarkOnlyUnrealStep]_vars
\* every step formula at once (re-evaluated on recorded implementation traces by Trace_Position)
\* a market event without a price (or without a position) is a stutter for the position
NoPriceStutterStep ==
    (last'.a = "Mark" /\ last'.arm = "NoPrice") =>
        /\ pos' = pos /\ exited' = exited /\ net' = net /\ cash' = cash /\ fees' = fees
NoPriceStutter == [][NoPriceStutterStep]_vars

\* storing and restoring the state changes nothing
PersistIsStutterStep ==
    last'.a = "Persist" =>
        /\ pos' = pos /\ exited' = exited /\ net' = net /\ cash' = cash /\ fees' = fees /\ fresh' = fresh
PersistIsStutter == [][PersistIsStutterStep]_vars

StepProps == PersistIsStutterStep /\ ExitIffStep /\ IdsStep /\ QmaxAvgStep /\ FreshUnrealStep /\ MarkOnlyUnrealStep /\ NoPriceStutterStep
=============================================================================
