SPECIFICATION GSpecT
CONSTANTS
  INSTR = {"i1"}
  PRICE = {1, 2}
  AMOUNT = {0, 1, 2}
  RULES = {"Spot", "Futures"}
  MCM = 4
  EVOLUTIONS <- FewEvolutions
  MaxEvents = 2
  MaxDeliver = 1000
  MaxReinit = 0
  EXPECTED = {2}
  MaxBuf = 2
  InitOrder = "snapshot-first"
  MaxLen = 1
INVARIANT Emit
CHECK_DEADLOCK FALSE
