//! C08 — simulated-exchange ledger conformance driver (spec/MockExchange.tla).
//!
//! `c08 run    --scenarios f.ndjson --out trace.ndjson --mode direct|run`
//!     replays TLC-generated request sequences `{init:{fee,lat,bal,open}, evs:[{req:{..}}]}`
//! `c08 random --seed S --steps N --out trace.ndjson --mode direct|run`
//!     drives the exchange with a seeded random history (boundary amounts, unknown instruments,
//!     limit orders, clocks that jump back, queries in between)
//!
//! mode `direct`: `MockExchange::open_order` / `account_snapshot()` are called on the value itself;
//!     the harness plays the part of the request loop around them exactly as `MockExchange::run`
//!     does (set the exchange clock, `ack_trade` the returned fill, take the returned notifications).
//! mode `run`:    the real `MockExchange::run` task is driven by a real `MockExecution` client
//!     under tokio's paused clock; responses come back through the oneshot channels, notifications
//!     through the broadcast account stream, the ledger is observed through `fetch_balances`,
//!     `fetch_trades` and `account_snapshot`. An open-order request may be *abandoned* (`"drop":
//!     1|2`): the oneshot receiver is dropped after the request is queued and before the exchange
//!     task handles it (1: the request is built with `MockExchangeRequest::open_order` and pushed
//!     into the client's `request_tx`; 2: the future of `MockExecution::open_order` is polled once
//!     and dropped - a client-side timeout). Its answer is not observable (`out` = "lost"); its
//!     effects on ledger, fills, ids and notifications must be those of an answered request.
//!     `kill` ends the exchange task (`"up": false` in a scenario's init: before the first request;
//!     `"drop": 3` on a request: while that request is in flight - queued, not yet handled): every
//!     client call must then answer `ExchangeOffline(<mocked exchange>)`, open / cancel responses
//!     echoing the request; the ledger is no longer observable, `post` repeats the last one.
//!     `cancel` (mode run only) sends a cancel request, which the mock does not support.
//!     BURSTS (mode run only): requests marked `"bq": 1` are QUEUED TOGETHER with the request before
//!     them: every client future of the burst is polled once (the request is then in the exchange's
//!     channel, stamped with its own client time), and only then are the responses awaited, in queue
//!     order, and the account stream drained. One line `{"a":"burst","k":k,"reqs":[request + answer
//!     ..],"post":..}` is written: the ledger and the notification history are observed once, after
//!     the whole burst. The burst's notifications are re-paired (j-th balance notification with j-th
//!     trade notification: how the two kinds interleave is left open, the order within a kind is not).
//!     HANG-UP (mode run only, the end of a scenario: `"hang": 1|2` on the scenario, or events marked `"hg": 1`):
//!     the last open-order requests are sent without anybody waiting for the answer (`"drop": 1` a raw request
//!     whose response receiver is gone, `"drop": 2` a `MockExecution::open_order` future polled once and dropped
//!     - a requester that timed out), and then the client - the LAST REQUEST SENDER - is dropped while these
//!     orders are still inside the exchange's latency window (1: at once, the exchange has not even been polled;
//!     2: after the exchange handled them). The harness keeps only its account-stream receiver, lets latency + 5 ms
//!     of virtual time pass and drains the stream: one line `{"a":"burst","hang":h,..}` whose answers are "lost"
//!     and whose `post` repeats the last observed ledger (it cannot be observed any more) with the notification
//!     history extended by what arrived. An accepted order is announced whatever its requester does afterwards.
//!     `"late": 1` in a scenario's init: `MockExchange::run` is spawned only after the first request
//!     (or burst) has been queued - the requests are already waiting when the exchange starts.
//!
//! One NDJSON line per request: the request, the answer, the query result and `post` = the
//! projected ledger. Amounts are integer 1/100 units, times are ms offsets from the harness epoch.
//! `Trace_MockExchange.tla` is the oracle.
use barter_execution::{
    AccountEventKind, InstrumentAccountSnapshot, UnindexedAccountEvent, UnindexedAccountSnapshot,
    balance::{AssetBalance, Balance},
    client::{
        ExecutionClient,
        mock::{MockExecution, MockExecutionClientConfig, MockExecutionConfig},
    },
    error::{ApiError, ConnectivityError, UnindexedClientError, UnindexedOrderError},
    exchange::mock::{MockExchange, request::MockExchangeRequest},
    order::{
        Order, OrderKey, OrderKind, TimeInForce,
        id::{ClientOrderId, OrderId, StrategyId},
        request::{OrderRequestCancel, OrderRequestOpen, RequestCancel, RequestOpen},
        state::{ActiveOrderState, Cancelled, InactiveOrderState, Open, OrderState},
    },
    trade::Trade,
};
use barter_instrument::{
    Side, Underlying,
    asset::{QuoteAsset, name::AssetNameExchange},
    exchange::ExchangeId,
    instrument::{Instrument, name::InstrumentNameExchange},
};
use chrono::{DateTime, Utc};
use fnv::FnvHashMap;
use futures::{FutureExt, StreamExt, future::LocalBoxFuture, stream::BoxStream};
use rand::Rng;
use rust_decimal::Decimal;
use serde_json::{Value, json};
use std::sync::atomic::{AtomicI64, Ordering};
use tokio::sync::{broadcast, mpsc};
use vh::util::*;

const EXCHANGE: ExchangeId = ExchangeId::Mock;
const ASSETS: [&str; 3] = ["btc", "eth", "usdt"];
/// listed instruments (name, base, quote) - the world of spec/MockExchange.tla
const LISTED: [(&str, &str, &str); 2] = [("btc_usdt", "btc", "usdt"), ("eth_btc", "eth", "btc")];
const UNLISTED: &str = "xrp_usdt";
const CENT: i64 = 100;

// ---------------------------------------------------------------------------------------------
// projection: implementation values -> spec values (the only place where this happens)
// ---------------------------------------------------------------------------------------------
fn cent(d: Decimal) -> Value {
    dec_units(d, CENT)
}

fn idnum(s: &str) -> i64 {
    s.parse().unwrap_or(-1)
}

fn side_str(s: Side) -> &'static str {
    match s {
        Side::Buy => "buy",
        Side::Sell => "sell",
    }
}

fn bal_json<'a>(balances: impl Iterator<Item = &'a AssetBalance<AssetNameExchange>>) -> Value {
    let mut m = serde_json::Map::new();
    for b in balances {
        let k = b.asset.name().to_string();
        if m.contains_key(&k) {
            // two entries for one asset: not a value of the spec
            m.insert(format!("{k}#dup"), json!({"total": 0, "free": 0}));
        }
        m.insert(k, json!({"total": cent(b.balance.total), "free": cent(b.balance.free)}));
    }
    Value::Object(m)
}

fn no_fill() -> Value {
    json!({"id": -1, "oid": -1, "instr": "none", "side": "none", "p": 0, "q": 0, "fee": 0, "t": 0})
}

fn trade_json(t: &Trade<QuoteAsset, InstrumentNameExchange>) -> Value {
    json!({
        "id": idnum(&t.id.0), "oid": idnum(&t.order_id.0),
        "instr": t.instrument.name().as_str(), "side": side_str(t.side),
        "p": dec_json(t.price), "q": dec_json(t.quantity),
        "fee": cent(t.fees.fees), "t": untime_ms(t.time_exchange),
    })
}

fn open_order_json(o: &Order<ExchangeId, InstrumentNameExchange, Open>) -> Value {
    json!({
        "cid": o.key.cid.0.as_str(), "instr": o.key.instrument.name().as_str(), "side": side_str(o.side),
        "p": dec_json(o.price), "q": dec_json(o.quantity), "filled": dec_json(o.state.filled_quantity), "st": "open",
    })
}

fn cancelled_order_json(o: &Order<ExchangeId, InstrumentNameExchange, Cancelled>) -> Value {
    json!({
        "cid": o.key.cid.0.as_str(), "instr": o.key.instrument.name().as_str(), "side": side_str(o.side),
        "p": dec_json(o.price), "q": dec_json(o.quantity), "filled": 0, "st": "cancelled",
    })
}

fn snapshot_orders_json(s: &UnindexedAccountSnapshot) -> Value {
    let mut v: Vec<Value> = vec![];
    for i in &s.instruments {
        for o in &i.orders {
            let (st, filled) = match &o.state {
                OrderState::Active(ActiveOrderState::Open(open)) => ("open", open.filled_quantity),
                OrderState::Inactive(InactiveOrderState::Cancelled(_)) => ("cancelled", Decimal::ZERO),
                _ => ("other", Decimal::ZERO),
            };
            // an order filed under another instrument's entry is shown under the entry's name
            let instr = if o.key.instrument == i.instrument { o.key.instrument.name().to_string() } else { format!("{}@{}", o.key.instrument.name(), i.instrument.name()) };
            v.push(json!({
                "cid": o.key.cid.0.as_str(), "instr": instr, "side": side_str(o.side),
                "p": dec_json(o.price), "q": dec_json(o.quantity), "filled": dec_json(filled), "st": st,
            }));
        }
    }
    Value::Array(v)
}

fn notif_json(e: &UnindexedAccountEvent) -> Value {
    match &e.kind {
        AccountEventKind::BalanceSnapshot(b) => balance_notif(&b.0),
        AccountEventKind::Trade(t) => trade_notif(t),
        _ => json!({"k": "other", "asset": "none", "total": 0, "free": 0, "trade": no_fill()}),
    }
}
fn balance_notif(b: &AssetBalance<AssetNameExchange>) -> Value {
    json!({"k": "balance", "asset": b.asset.name().as_str(), "total": cent(b.balance.total), "free": cent(b.balance.free), "trade": no_fill()})
}
fn trade_notif(t: &Trade<QuoteAsset, InstrumentNameExchange>) -> Value {
    json!({"k": "trade", "asset": "none", "total": 0, "free": 0, "trade": trade_json(t)})
}

type Response = Order<ExchangeId, InstrumentNameExchange, Result<Open, UnindexedOrderError>>;

/// (out, why, id, filled, rt) - rt: the exchange time an accepting response carries, else -1
fn response_json(r: &Response) -> (Value, Value, Value, Value, Value) {
    match &r.state {
        Ok(open) => (json!("ok"), json!("-"), json!(idnum(&open.id.0)), dec_json(open.filled_quantity), json!(untime_ms(open.time_exchange))),
        Err(UnindexedOrderError::Rejected(api)) => {
            let why = match api {
                ApiError::OrderRejected(_) => "kind",
                ApiError::InstrumentInvalid(..) => "instr",
                ApiError::BalanceInsufficient(..) => "funds",
                _ => "other",
            };
            (json!("rej"), json!(why), json!(-1), json!(0), json!(-1))
        }
        Err(UnindexedOrderError::Connectivity(c)) => (json!(offline_str(c)), json!("-"), json!(-1), json!(0), json!(-1)),
    }
}

/// "offline" = exactly `ExchangeOffline(<the mocked exchange>)`
fn offline_str(c: &ConnectivityError) -> &'static str {
    match c {
        ConnectivityError::ExchangeOffline(e) if *e == EXCHANGE => "offline",
        _ => "connectivity-other",
    }
}
fn client_err_str(e: &UnindexedClientError) -> &'static str {
    match e {
        UnindexedClientError::Connectivity(c) => offline_str(c),
        _ => "client-error-other",
    }
}

/// does an open-order response carry the request's own key, side, price, quantity, kind, tif?
fn echoes(resp: &Response, req: &OrderRequestOpen<ExchangeId, InstrumentNameExchange>) -> i64 {
    (resp.key == req.key && resp.side == req.state.side && resp.price == req.state.price && resp.quantity == req.state.quantity
        && resp.kind == req.state.kind && resp.time_in_force == req.state.time_in_force) as i64
}

fn empty_res() -> Value {
    let mut m = serde_json::Map::new();
    for a in ASSETS {
        m.insert(a.to_string(), json!({"total": 0, "free": 0}));
    }
    json!({"bal": m, "open": [], "trades": []})
}

// ---------------------------------------------------------------------------------------------
// building the exchange from a spec world
// ---------------------------------------------------------------------------------------------
/// The listed instruments, with an `InstrumentSpec` that varies with the world (`flavour`, a function of the initial
/// ledger): none at all; quantities stated in QUOTE units / in the quote ASSET; CONTRACT units / the base asset.
/// The spec describes the venue's lot and tick rules to the order-sizing code; the simulated exchange's ledger
/// arithmetic (C08: price x quantity for a buy, quantity for a sell) does not depend on it.
fn instruments(flavour: i64) -> FnvHashMap<InstrumentNameExchange, Instrument<ExchangeId, AssetNameExchange>> {
    use barter_instrument::instrument::spec::{InstrumentSpec, InstrumentSpecNotional, InstrumentSpecPrice, InstrumentSpecQuantity, OrderQuantityUnits};
    let spec_of = |k: usize, base: &str, quote: &str| -> Option<InstrumentSpec<AssetNameExchange>> {
        let unit = match (flavour, k) {
            (0, _) => return None,
            (1, 0) => OrderQuantityUnits::Quote,
            (1, _) => OrderQuantityUnits::Asset(AssetNameExchange::new(quote)),
            (_, 0) => OrderQuantityUnits::Contract,
            (_, _) => OrderQuantityUnits::Asset(AssetNameExchange::new(base)),
        };
        Some(InstrumentSpec {
            price: InstrumentSpecPrice { min: Decimal::new(1, 2), tick_size: Decimal::new(1, 2) },
            quantity: InstrumentSpecQuantity { unit, min: Decimal::new(1, 4), increment: Decimal::new(1, 4) },
            notional: InstrumentSpecNotional { min: Decimal::new(1, 2) },
        })
    };
    LISTED
        .iter()
        .enumerate()
        .map(|(k, (name, base, quote))| {
            (
                InstrumentNameExchange::new(*name),
                Instrument::spot(EXCHANGE, format!("mock_{name}"), *name, Underlying::new(*base, *quote), spec_of(k, base, quote)),
            )
        })
        .collect()
}

/// which instrument specs this world's exchange is built with (stable for a given initial ledger, so a replay sees the same)
fn spec_flavour(init: &Value) -> i64 {
    (ASSETS.iter().map(|a| i(&init["bal"][*a], "total")).sum::<i64>() + i(init, "lat")).rem_euclid(3)
}

fn config_of(init: &Value) -> MockExecutionConfig {
    let balances = ASSETS
        .iter()
        .map(|a| {
            let b = &init["bal"][*a];
            AssetBalance {
                asset: AssetNameExchange::new(*a),
                balance: Balance { total: Decimal::new(i(b, "total"), 2), free: Decimal::new(i(b, "free"), 2) },
                time_exchange: time_ms(0),
            }
        })
        .collect();
    let mut by_instr: Vec<InstrumentAccountSnapshot<ExchangeId, AssetNameExchange, InstrumentNameExchange>> = vec![];
    for o in init["open"].as_array().map(|v| v.as_slice()).unwrap_or(&[]) {
        let instrument = InstrumentNameExchange::new(s(o, "instr"));
        let order = Order {
            key: OrderKey { exchange: EXCHANGE, instrument: instrument.clone(), strategy: StrategyId::new("resting"), cid: ClientOrderId::new(s(o, "cid")) },
            side: if s(o, "side") == "buy" { Side::Buy } else { Side::Sell },
            price: dec(i(o, "p")),
            quantity: dec(i(o, "q")),
            kind: OrderKind::Limit,
            time_in_force: TimeInForce::GoodUntilCancelled { post_only: false },
            state: if s(o, "st") == "cancelled" {
                OrderState::inactive(Cancelled::new(OrderId::new(format!("x-{}", s(o, "cid"))), time_ms(0)))
            } else {
                OrderState::active(Open::new(OrderId::new(format!("x-{}", s(o, "cid"))), time_ms(0), dec(i(o, "filled"))))
            },
        };
        match by_instr.iter_mut().find(|e| e.instrument == instrument) {
            Some(e) => e.orders.push(order),
            None => by_instr.push(InstrumentAccountSnapshot { instrument, orders: vec![order] }),
        }
    }
    MockExecutionConfig {
        mocked_exchange: EXCHANGE,
        initial_state: UnindexedAccountSnapshot { exchange: EXCHANGE, balances, instruments: by_instr },
        latency_ms: i(init, "lat") as u64,
        fees_percent: Decimal::new(i(init, "fee"), 2),
    }
}

fn request_of(r: &Value, n: u64) -> OrderRequestOpen<ExchangeId, InstrumentNameExchange> {
    OrderRequestOpen {
        key: OrderKey {
            exchange: EXCHANGE,
            instrument: InstrumentNameExchange::new(s(r, "instr")),
            strategy: StrategyId::new("vh"),
            cid: ClientOrderId::new(format!("c{n}")),
        },
        state: RequestOpen {
            side: if s(r, "side") == "buy" { Side::Buy } else { Side::Sell },
            price: dec(i(r, "p")),
            quantity: dec(i(r, "q")),
            kind: if s(r, "kind") == "market" { OrderKind::Market } else { OrderKind::Limit },
            time_in_force: if s(r, "kind") == "market" { TimeInForce::ImmediateOrCancel } else { TimeInForce::GoodUntilCancelled { post_only: false } },
        },
    }
}

// ---------------------------------------------------------------------------------------------
// the system under test, behind the two observation points the property names
// ---------------------------------------------------------------------------------------------
/// the client clock of mode `run` (the `FnTime` of `MockExecution`): a plain fn reading this cell
static CLIENT_CLOCK_MS: AtomicI64 = AtomicI64::new(0);
fn client_clock() -> DateTime<Utc> {
    time_ms(CLIENT_CLOCK_MS.load(Ordering::SeqCst))
}
type Clock = fn() -> DateTime<Utc>;

enum Sut {
    Direct {
        ex: Box<MockExchange>,
        lat: i64,
        _keep: (mpsc::UnboundedSender<MockExchangeRequest>, broadcast::Receiver<UnindexedAccountEvent>),
    },
    Run {
        client: MockExecution<Clock>,
        stream: BoxStream<'static, UnindexedAccountEvent>,
        lat: i64,
        /// the running `MockExchange::run` task
        task: Option<tokio::task::JoinHandle<()>>,
        /// `"late"`: the exchange, built but not yet running
        pending: Option<Box<MockExchange>>,
        killed: bool,
    },
}

/// `"late"` worlds: spawn `MockExchange::run` now (the requests queued so far are waiting for it)
fn start(pending: &mut Option<Box<MockExchange>>, task: &mut Option<tokio::task::JoinHandle<()>>) {
    if let Some(ex) = pending.take() {
        *task = Some(tokio::spawn(ex.run()));
    }
}
fn abort(task: &Option<tokio::task::JoinHandle<()>>) {
    if let Some(t) = task {
        t.abort();
    }
}
fn finished(task: &Option<tokio::task::JoinHandle<()>>) -> bool {
    task.as_ref().map(|t| t.is_finished()).unwrap_or(false)
}
const GONE: &str = "the MockExchange::run task terminated (panic in the request loop)";

struct Answer {
    out: Value,
    why: Value,
    id: Value,
    filled: Value,
    rt: Value,
    echo: i64,
    res: Value,
    notifs: Vec<Value>,
}

impl Answer {
    fn query(res: Value) -> Self {
        Self { out: json!("query"), why: json!("-"), id: json!(-1), filled: json!(0), rt: json!(-1), echo: 1, res, notifs: vec![] }
    }
    fn failed(e: &UnindexedClientError) -> Self {
        Self::plain(client_err_str(e))
    }
    fn plain(out: &str) -> Self {
        Self { out: json!(out), why: json!("-"), id: json!(-1), filled: json!(0), rt: json!(-1), echo: 1, res: empty_res(), notifs: vec![] }
    }
}

impl Sut {
    async fn new(mode: &str, init: &Value) -> Self {
        let config = config_of(init);
        let (request_tx, request_rx) = mpsc::unbounded_channel();
        let (event_tx, event_rx) = broadcast::channel(256);
        match mode {
            "direct" => Sut::Direct {
                ex: Box::new(MockExchange::new(config, request_rx, event_tx, instruments(spec_flavour(init)))),
                lat: i(init, "lat"),
                _keep: (request_tx, event_rx),
            },
            "run" => {
                // wired as barter/src/execution/builder.rs `add_mock` + `init_mock_exchange` do
                let clock_fn: Clock = client_clock;
                let client = <MockExecution<Clock> as ExecutionClient>::new(MockExecutionClientConfig {
                    mocked_exchange: EXCHANGE,
                    clock: clock_fn,
                    request_tx,
                    event_rx,
                });
                let stream = client.account_stream(&[], &[]).await.expect("account stream");
                let mut pending = Some(Box::new(MockExchange::new(config, request_rx, event_tx, instruments(spec_flavour(init)))));
                let mut task = None;
                if !is_late(init) {
                    start(&mut pending, &mut task);
                }
                Sut::Run { client, stream, lat: i(init, "lat"), task, pending, killed: false }
            }
            m => usage(&format!("unknown mode {m}")),
        }
    }

    /// Serve one request; Err = the code under test panicked / the exchange task is gone.
    async fn serve(&mut self, r: &Value, n: u64) -> Result<Answer, String> {
        let op = op_of(r);
        let t = i(r, "t");
        match self {
            Sut::Direct { ex, lat, .. } => {
                // MockExchange::run: update_time_exchange(request.time_request)
                ex.time_exchange_latest = time_ms(t + (*lat as u64 / 2) as i64);
                match op {
                    "open" => {
                        let req = request_of(r, n);
                        let (resp, notifications) = catch(|| ex.open_order(req.clone()))?;
                        let (out, why, id, filled, rt) = response_json(&resp);
                        let echo = echoes(&resp, &req);
                        let mut notifs = vec![];
                        if let Some(nf) = notifications {
                            // MockExchange::run: ack_trade + send_notifications
                            ex.account.ack_trade(nf.trade.clone());
                            notifs.push(balance_notif(&nf.balance.0));
                            notifs.push(trade_notif(&nf.trade));
                        }
                        Ok(Answer { out, why, id, filled, rt, echo, res: empty_res(), notifs })
                    }
                    "snapshot" => {
                        let snap = catch(|| ex.account_snapshot())?;
                        let mut res = empty_res();
                        res["bal"] = bal_json(snap.balances.iter());
                        res["open"] = snapshot_orders_json(&snap);
                        Ok(Answer::query(res))
                    }
                    "balances" => {
                        let mut res = empty_res();
                        res["bal"] = bal_json(ex.account.balances());
                        Ok(Answer::query(res))
                    }
                    "orders" => {
                        // MockExchange::run: FetchOrdersOpen
                        let mut res = empty_res();
                        res["open"] = Value::Array(ex.account.orders_open().map(open_order_json).collect());
                        Ok(Answer::query(res))
                    }
                    "trades" => {
                        let mut res = empty_res();
                        res["trades"] = Value::Array(ex.account.trades(time_ms(i(r, "since"))).map(trade_json).collect());
                        Ok(Answer::query(res))
                    }
                    o => usage(&format!("op {o} is not available in mode direct")),
                }
            }
            Sut::Run { client, stream, lat, task, pending, killed } => {
                CLIENT_CLOCK_MS.store(t, Ordering::SeqCst);
                let flag = r.get("drop").and_then(|d| d.as_i64()).unwrap_or(0);
                if op == "kill" {
                    start(pending, task);
                    abort(task);
                    *killed = true;
                    // the aborted task (and with it the request receiver) is dropped when it is next scheduled
                    tokio::time::sleep(std::time::Duration::from_millis(1)).await;
                    let mut answer = Answer::plain("killed");
                    while let Some(Some(ev)) = stream.next().now_or_never() {
                        answer.notifs.push(notif_json(&ev));
                    }
                    return Ok(answer);
                }
                // `"drop": 3`: the exchange task ends while this request is in flight
                let inflight = flag == 3 && !*killed;
                let mut answer = match op {
                    "open" if flag == 1 || flag == 2 => {
                        let req = request_of(r, n);
                        if flag == 1 {
                            let (response_tx, response_rx) = tokio::sync::oneshot::channel();
                            drop(response_rx);
                            let _ = client.request_tx.send(MockExchangeRequest::open_order(client.time_request(), response_tx, req));
                        } else {
                            let req_ref = OrderRequestOpen {
                                key: OrderKey { exchange: req.key.exchange, instrument: &req.key.instrument, strategy: req.key.strategy.clone(), cid: req.key.cid.clone() },
                                state: req.state.clone(),
                            };
                            let mut fut = Box::pin(client.open_order(req_ref));
                            let _ = futures::poll!(fut.as_mut()); // queues the request, then waits
                            drop(fut); // the requester stops waiting before the exchange task ran
                        }
                        start(pending, task);
                        // nobody awaits an answer: let the exchange handle it and its latency pass
                        tokio::time::sleep(std::time::Duration::from_millis(*lat as u64 + 1)).await;
                        Answer::plain("lost")
                    }
                    "open" => {
                        let req = request_of(r, n);
                        let req_ref = OrderRequestOpen {
                            key: OrderKey { exchange: req.key.exchange, instrument: &req.key.instrument, strategy: req.key.strategy.clone(), cid: req.key.cid.clone() },
                            state: req.state.clone(),
                        };
                        let resp = call(client.open_order(req_ref), inflight, task, pending).await;
                        let (out, why, id, filled, rt) = response_json(&resp);
                        Answer { out, why, id, filled, rt, echo: echoes(&resp, &req), res: empty_res(), notifs: vec![] }
                    }
                    "cancel" => {
                        let instrument = InstrumentNameExchange::new(s(r, "instr"));
                        let key = OrderKey { exchange: EXCHANGE, instrument: instrument.clone(), strategy: StrategyId::new("vh"), cid: ClientOrderId::new(format!("c{n}")) };
                        let req = OrderRequestCancel {
                            key: OrderKey { exchange: EXCHANGE, instrument: &instrument, strategy: key.strategy.clone(), cid: key.cid.clone() },
                            state: RequestCancel { id: None },
                        };
                        let resp = call(client.cancel_order(req), inflight, task, pending).await;
                        let mut a = Answer::plain(match &resp.state {
                            Ok(_) => "cancelled",
                            Err(UnindexedOrderError::Rejected(_)) => "rej",
                            Err(UnindexedOrderError::Connectivity(c)) => offline_str(c),
                        });
                        a.echo = (resp.key == key) as i64;
                        a
                    }
                    "snapshot" => match call(client.account_snapshot(&[], &[]), inflight, task, pending).await {
                        Ok(snap) => {
                            let mut res = empty_res();
                            res["bal"] = bal_json(snap.balances.iter());
                            res["open"] = snapshot_orders_json(&snap);
                            Answer::query(res)
                        }
                        Err(e) => Answer::failed(&e),
                    },
                    "balances" => match call(client.fetch_balances(), inflight, task, pending).await {
                        Ok(b) => {
                            let mut res = empty_res();
                            res["bal"] = bal_json(b.iter());
                            Answer::query(res)
                        }
                        Err(e) => Answer::failed(&e),
                    },
                    "orders" => match call(client.fetch_open_orders(), inflight, task, pending).await {
                        Ok(o) => {
                            let mut res = empty_res();
                            res["open"] = Value::Array(o.iter().map(open_order_json).collect());
                            Answer::query(res)
                        }
                        Err(e) => Answer::failed(&e),
                    },
                    "trades" => match call(client.fetch_trades(time_ms(i(r, "since"))), inflight, task, pending).await {
                        Ok(tr) => {
                            let mut res = empty_res();
                            res["trades"] = Value::Array(tr.iter().map(trade_json).collect());
                            Answer::query(res)
                        }
                        Err(e) => Answer::failed(&e),
                    },
                    o => usage(&format!("unknown op {o}")),
                };
                if inflight {
                    *killed = true;
                }
                // let everything the exchange scheduled for this request be delivered, then take
                // what arrived on the account stream (virtual time: costs nothing)
                tokio::time::sleep(std::time::Duration::from_millis(1)).await;
                while let Some(Some(ev)) = stream.next().now_or_never() {
                    answer.notifs.push(notif_json(&ev));
                }
                // the property counts notifications per order; their mutual order is left open
                answer.notifs.sort_by(|a, b| a["k"].as_str().cmp(&b["k"].as_str()));
                // an exchange the harness did not end must be alive and answering (a running exchange
                // answers a cancel by dropping the response sender: "offline" is its normal answer)
                if !*killed && (finished(task) || (answer.out == "offline" && op != "cancel")) {
                    return Err(GONE.into());
                }
                Ok(answer)
            }
        }
    }

    /// Serve a burst (mode run): every request is queued before any response is awaited.
    /// Returns the answers in queue order and the notifications of the whole burst.
    async fn burst(&mut self, reqs: &[Value], n0: u64) -> Result<(Vec<Answer>, Vec<Value>), String> {
        let Sut::Run { client, stream, task, pending, killed, .. } = self else { usage("bursts exist in mode run only") };
        let client: &MockExecution<Clock> = client;
        let mut futs: Vec<LocalBoxFuture<'_, Answer>> = vec![];
        for (j, r) in reqs.iter().enumerate() {
            let n = n0 + 1 + j as u64;
            let r = r.clone();
            futs.push(match op_of(&r) {
                "open" => async move {
                    let req = request_of(&r, n);
                    let req_ref = OrderRequestOpen {
                        key: OrderKey { exchange: req.key.exchange, instrument: &req.key.instrument, strategy: req.key.strategy.clone(), cid: req.key.cid.clone() },
                        state: req.state.clone(),
                    };
                    let resp = client.open_order(req_ref).await;
                    let (out, why, id, filled, rt) = response_json(&resp);
                    Answer { out, why, id, filled, rt, echo: echoes(&resp, &req), res: empty_res(), notifs: vec![] }
                }
                .boxed_local(),
                "cancel" => async move {
                    let instrument = InstrumentNameExchange::new(s(&r, "instr"));
                    let key = OrderKey { exchange: EXCHANGE, instrument: instrument.clone(), strategy: StrategyId::new("vh"), cid: ClientOrderId::new(format!("c{n}")) };
                    let req = OrderRequestCancel {
                        key: OrderKey { exchange: EXCHANGE, instrument: &instrument, strategy: key.strategy.clone(), cid: key.cid.clone() },
                        state: RequestCancel { id: None },
                    };
                    let resp = client.cancel_order(req).await;
                    let mut a = Answer::plain(match &resp.state {
                        Ok(_) => "cancelled",
                        Err(UnindexedOrderError::Rejected(_)) => "rej",
                        Err(UnindexedOrderError::Connectivity(c)) => offline_str(c),
                    });
                    a.echo = (resp.key == key) as i64;
                    a
                }
                .boxed_local(),
                "snapshot" => async move {
                    match client.account_snapshot(&[], &[]).await {
                        Ok(snap) => {
                            let mut res = empty_res();
                            res["bal"] = bal_json(snap.balances.iter());
                            res["open"] = snapshot_orders_json(&snap);
                            Answer::query(res)
                        }
                        Err(e) => Answer::failed(&e),
                    }
                }
                .boxed_local(),
                "balances" => async move {
                    match client.fetch_balances().await {
                        Ok(b) => {
                            let mut res = empty_res();
                            res["bal"] = bal_json(b.iter());
                            Answer::query(res)
                        }
                        Err(e) => Answer::failed(&e),
                    }
                }
                .boxed_local(),
                "orders" => async move {
                    match client.fetch_open_orders().await {
                        Ok(o) => {
                            let mut res = empty_res();
                            res["open"] = Value::Array(o.iter().map(open_order_json).collect());
                            Answer::query(res)
                        }
                        Err(e) => Answer::failed(&e),
                    }
                }
                .boxed_local(),
                "trades" => async move {
                    match client.fetch_trades(time_ms(i(&r, "since"))).await {
                        Ok(tr) => {
                            let mut res = empty_res();
                            res["trades"] = Value::Array(tr.iter().map(trade_json).collect());
                            Answer::query(res)
                        }
                        Err(e) => Answer::failed(&e),
                    }
                }
                .boxed_local(),
                o => usage(&format!("op {o} cannot be part of a burst")),
            });
        }
        // queue every request (each stamped with its own client time); nothing is awaited yet
        let mut answers: Vec<Option<Answer>> = vec![];
        for (r, f) in reqs.iter().zip(futs.iter_mut()) {
            CLIENT_CLOCK_MS.store(i(r, "t"), Ordering::SeqCst);
            answers.push(match futures::poll!(f.as_mut()) {
                std::task::Poll::Ready(a) => Some(a), // (an ended exchange: the client answers at once)
                std::task::Poll::Pending => None,
            });
        }
        // requests queued before the exchange runs: it starts now
        start(pending, task);
        // now the responses, in queue order
        let mut got = vec![];
        for (a, f) in answers.into_iter().zip(futs.into_iter()) {
            got.push(match a {
                Some(a) => a,
                None => f.await,
            });
        }
        tokio::time::sleep(std::time::Duration::from_millis(1)).await;
        let mut arrived = vec![];
        while let Some(Some(ev)) = stream.next().now_or_never() {
            arrived.push(notif_json(&ev));
        }
        for (r, a) in reqs.iter().zip(got.iter()) {
            if !*killed && (finished(task) || (a.out == "offline" && op_of(r) != "cancel")) {
                return Err(GONE.into());
            }
        }
        Ok((got, repair(arrived)))
    }

    /// The end of a scenario (mode run): the open-order requests `reqs` are sent without anybody waiting for the
    /// answer, then the last request sender is dropped while they are inside the latency window. Returns the
    /// notifications that still arrived on the account stream.
    async fn hangup(&mut self, reqs: &[Value], n0: u64, h: i64) -> Result<Vec<Value>, String> {
        let Sut::Run { client, stream, lat, task, pending, killed } = self else { usage("a hang-up exists in mode run only") };
        for (j, r) in reqs.iter().enumerate() {
            CLIENT_CLOCK_MS.store(i(r, "t"), Ordering::SeqCst);
            let req = request_of(r, n0 + 1 + j as u64);
            if r.get("drop").and_then(|d| d.as_i64()) == Some(1) {
                let (response_tx, response_rx) = tokio::sync::oneshot::channel();
                drop(response_rx);
                let _ = client.request_tx.send(MockExchangeRequest::open_order(client.time_request(), response_tx, req));
            } else {
                let req_ref = OrderRequestOpen {
                    key: OrderKey { exchange: req.key.exchange, instrument: &req.key.instrument, strategy: req.key.strategy.clone(), cid: req.key.cid.clone() },
                    state: req.state.clone(),
                };
                let mut fut = Box::pin(client.open_order(req_ref));
                let _ = futures::poll!(fut.as_mut()); // queued; the requester gives up on the answer
                drop(fut);
            }
        }
        start(pending, task);
        if h == 2 {
            // the exchange handles the requests; their latency has not elapsed (virtual time stands still)
            for _ in 0..4 {
                tokio::task::yield_now().await;
            }
        }
        // the last request sender goes away: the client is dropped, only the account stream is still listened to
        let (closed_tx, closed_rx) = mpsc::unbounded_channel();
        drop(closed_rx);
        let clock_fn: Clock = client_clock;
        let gone = <MockExecution<Clock> as ExecutionClient>::new(MockExecutionClientConfig {
            mocked_exchange: EXCHANGE,
            clock: clock_fn,
            request_tx: closed_tx,
            event_rx: broadcast::channel(1).1,
        });
        drop(std::mem::replace(client, gone));
        *killed = true;
        tokio::time::sleep(std::time::Duration::from_millis(*lat as u64 + 5)).await;
        let mut arrived = vec![];
        while let Some(Some(ev)) = stream.next().now_or_never() {
            arrived.push(notif_json(&ev));
        }
        // the request loop has seen its channel close: it must have ended, and not by a panic
        if let Some(t) = task.take() {
            if let Some(Err(e)) = t.now_or_never() {
                if e.is_panic() {
                    return Err(GONE.into());
                }
            }
        }
        Ok(repair(arrived))
    }

    fn is_killed(&self) -> bool {
        matches!(self, Sut::Run { killed: true, .. })
    }

    /// Projected ledger (without the notification history, which the harness accumulates).
    /// None: the exchange task was ended by the harness, its ledger cannot be observed any more.
    async fn project(&mut self) -> Result<Option<Value>, String> {
        match self {
            Sut::Direct { ex, .. } => Ok(Some(json!({
                "bal": bal_json(ex.account.balances()),
                "open": Value::Array(ex.account.orders_open().map(open_order_json).chain(ex.account.orders_cancelled().map(cancelled_order_json)).collect()),
                "trades": Value::Array(ex.account.trades(DateTime::<Utc>::MIN_UTC).map(trade_json).collect()),
            }))),
            Sut::Run { killed: true, .. } => Ok(None),
            // built, not yet running: the value itself shows its ledger
            Sut::Run { pending: Some(ex), .. } => Ok(Some(json!({
                "bal": bal_json(ex.account.balances()),
                "open": Value::Array(ex.account.orders_open().map(open_order_json).chain(ex.account.orders_cancelled().map(cancelled_order_json)).collect()),
                "trades": Value::Array(ex.account.trades(DateTime::<Utc>::MIN_UTC).map(trade_json).collect()),
            }))),
            Sut::Run { client, .. } => {
                // same client clock as the request just served: the exchange clock does not move
                let off = |_| GONE.to_string();
                let bal = client.fetch_balances().await.map_err(off)?;
                let snap = client.account_snapshot(&[], &[]).await.map_err(off)?;
                let trades = client.fetch_trades(DateTime::<Utc>::MIN_UTC).await.map_err(off)?;
                Ok(Some(json!({
                    "bal": bal_json(bal.iter()),
                    "open": snapshot_orders_json(&snap),
                    "trades": Value::Array(trades.iter().map(trade_json).collect()),
                })))
            }
        }
    }
}

/// Await a client call; `inflight`: poll it once (the request is queued), end the exchange task,
/// then keep waiting - the requester sees its response sender dropped.
/// `pending`: the exchange is not running yet - poll the call once (the request is queued), then spawn it.
async fn call<F: std::future::Future>(
    fut: F,
    inflight: bool,
    task: &mut Option<tokio::task::JoinHandle<()>>,
    pending: &mut Option<Box<MockExchange>>,
) -> F::Output {
    let mut fut = Box::pin(fut);
    if inflight || pending.is_some() {
        let first = futures::poll!(fut.as_mut());
        start(pending, task);
        if inflight {
            abort(task);
        }
        if let std::task::Poll::Ready(v) = first {
            return v;
        }
    }
    fut.await
}

/// The notifications of one burst, re-paired: j-th balance notification, j-th trade notification, ... (what is left
/// over of either kind, and anything else, follows). How the two kinds interleave is left open; the order within a
/// kind is what arrived.
fn repair(arrived: Vec<Value>) -> Vec<Value> {
    let of = |k: &str| arrived.iter().filter(|n| n["k"] == k).cloned().collect::<Vec<_>>();
    let (b, t) = (of("balance"), of("trade"));
    let mut out = vec![];
    for j in 0..b.len().max(t.len()) {
        out.extend(b.get(j).cloned());
        out.extend(t.get(j).cloned());
    }
    out.extend(arrived.iter().filter(|n| n["k"] != "balance" && n["k"] != "trade").cloned());
    out
}

fn is_late(init: &Value) -> bool {
    init.get("late").map(|l| l.as_i64() == Some(1) || l.as_bool() == Some(true)).unwrap_or(false)
}

fn op_of(r: &Value) -> &str {
    r.get("op").or_else(|| r.get("a")).and_then(|x| x.as_str()).unwrap_or_else(|| usage("request without op"))
}

/// One exchange life: Reset line + one line per request.
struct Segment {
    sut: Sut,
    direct: bool,
    notif: Vec<Value>,
    /// the last observed ledger (without notifications)
    ledger: Value,
    dead: bool,
    n: u64,
}

fn kill_req(t: i64, flag: i64) -> Value {
    json!({"op": "kill", "t": t, "side": "none", "p": 0, "q": 0, "instr": "none", "kind": "none", "since": 0, "drop": flag})
}

impl Segment {
    async fn start(out: &mut Out, mode: &str, init: &Value) -> (Self, Value) {
        let mut sut = Sut::new(mode, init).await;
        let ledger = match sut.project().await {
            Ok(Some(p)) => p,
            Ok(None) => unreachable!("a fresh exchange is observable"),
            Err(p) => json!({"panic": p}),
        };
        let mut post = ledger.clone();
        if post.get("panic").is_none() {
            post["notif"] = json!([]);
        }
        out.line(&json!({
            "a": "Reset", "fee": i(init, "fee"), "lat": i(init, "lat"), "late": (mode == "run" && is_late(init)) as i64,
            "cfg": {"bal": init["bal"], "open": init["open"]},
            "post": post,
        }));
        let mut seg = Self { sut, direct: mode == "direct", notif: vec![], ledger, dead: false, n: 0 };
        // `"up": false`: the exchange task has ended before the first request
        if init.get("up").and_then(|u| u.as_bool()) == Some(false) {
            post = seg.step(out, &kill_req(0, 0)).await;
        }
        (seg, post)
    }

    fn post(&self) -> Value {
        let mut p = self.ledger.clone();
        if p.get("panic").is_none() {
            p["notif"] = Value::Array(self.notif.clone());
        }
        p
    }

    async fn step(&mut self, out: &mut Out, r: &Value) -> Value {
        let op = op_of(r);
        let flag = r.get("drop").and_then(|d| d.as_i64()).unwrap_or(0);
        // mode direct has no exchange task and no client: these events do not exist there;
        // a recorded in-flight kill line is re-created by the request that follows it
        if (self.direct && (op == "kill" || op == "cancel")) || (op == "kill" && flag == 3) {
            return self.post();
        }
        self.n += 1;
        let mut line = json!({
            "a": op, "t": i(r, "t"), "side": s(r, "side"), "p": i(r, "p"), "q": i(r, "q"),
            "instr": s(r, "instr"), "kind": s(r, "kind"), "since": i(r, "since"),
            "drop": if self.direct { 0 } else { flag },
        });
        let was_killed = self.sut.is_killed();
        let served = if self.dead { Err("the exchange is gone after an earlier panic".to_string()) } else { self.sut.serve(r, self.n).await };
        match served {
            Ok(a) => {
                if !was_killed && self.sut.is_killed() && op != "kill" {
                    // the task was ended while this request was in flight: that is a step of its own
                    let k = kill_req(i(r, "t"), 3);
                    let mut kl = json!({
                        "a": "kill", "t": i(&k, "t"), "side": "none", "p": 0, "q": 0, "instr": "none", "kind": "none", "since": 0, "drop": 3,
                        "out": "killed", "why": "-", "id": -1, "filled": 0, "rt": -1, "echo": 1, "res": empty_res(),
                    });
                    kl["post"] = self.post();
                    out.line(&kl);
                }
                line["out"] = a.out;
                line["why"] = a.why;
                line["id"] = a.id;
                line["filled"] = a.filled;
                line["rt"] = a.rt;
                line["echo"] = json!(a.echo);
                line["res"] = a.res;
                self.notif.extend(a.notifs);
                match self.sut.project().await {
                    Ok(Some(p)) => self.ledger = p,
                    Ok(None) => {} // ended by the harness: unobservable, the last ledger stands
                    Err(p) => {
                        self.dead = true;
                        self.ledger = json!({"panic": p});
                    }
                }
            }
            Err(p) => {
                self.dead = true;
                line["out"] = json!("panic");
                line["why"] = json!("-");
                line["id"] = json!(-1);
                line["filled"] = json!(0);
                line["rt"] = json!(-1);
                line["echo"] = json!(1);
                line["res"] = empty_res();
                self.ledger = json!({"panic": p});
            }
        };
        let post = self.post();
        line["post"] = post.clone();
        out.line(&line);
        post
    }

    /// A burst of requests queued together (mode run): one line, one observation of the ledger.
    async fn burst(&mut self, out: &mut Out, reqs: &[Value]) -> Value {
        if reqs.len() == 1 || self.direct {
            let mut post = self.post();
            for r in reqs {
                post = self.step(out, r).await;
            }
            return post;
        }
        let mut items: Vec<Value> = reqs
            .iter()
            .map(|r| {
                json!({
                    "a": op_of(r), "t": i(r, "t"), "side": s(r, "side"), "p": i(r, "p"), "q": i(r, "q"),
                    "instr": s(r, "instr"), "kind": s(r, "kind"), "since": i(r, "since"), "drop": 0,
                })
            })
            .collect();
        let served = if self.dead { Err("the exchange is gone after an earlier panic".to_string()) } else { self.sut.burst(reqs, self.n).await };
        self.n += reqs.len() as u64;
        match served {
            Ok((answers, notifs)) => {
                for (it, a) in items.iter_mut().zip(answers) {
                    it["out"] = a.out;
                    it["why"] = a.why;
                    it["id"] = a.id;
                    it["filled"] = a.filled;
                    it["rt"] = a.rt;
                    it["echo"] = json!(a.echo);
                    it["res"] = a.res;
                }
                self.notif.extend(notifs);
                match self.sut.project().await {
                    Ok(Some(p)) => self.ledger = p,
                    Ok(None) => {}
                    Err(p) => {
                        self.dead = true;
                        self.ledger = json!({"panic": p});
                    }
                }
            }
            Err(p) => {
                self.dead = true;
                for it in items.iter_mut() {
                    it["out"] = json!("panic");
                    it["why"] = json!("-");
                    it["id"] = json!(-1);
                    it["filled"] = json!(0);
                    it["rt"] = json!(-1);
                    it["echo"] = json!(1);
                    it["res"] = empty_res();
                }
                self.ledger = json!({"panic": p});
            }
        }
        let post = self.post();
        out.line(&json!({"a": "burst", "k": reqs.len(), "hang": 0, "reqs": items, "post": post.clone()}));
        post
    }

    /// The end of the scenario: `reqs` (open orders nobody waits for), then the last request sender is dropped.
    async fn hangup(&mut self, out: &mut Out, reqs: &[Value], h: i64) -> Value {
        if self.direct || self.dead || self.sut.is_killed() || reqs.is_empty() {
            // no exchange task to hang up on: the requests are ordinary abandoned ones
            let mut post = self.post();
            for r in reqs {
                post = self.step(out, r).await;
            }
            return post;
        }
        let mut items: Vec<Value> = reqs
            .iter()
            .map(|r| {
                json!({
                    "a": "open", "t": i(r, "t"), "side": s(r, "side"), "p": i(r, "p"), "q": i(r, "q"),
                    "instr": s(r, "instr"), "kind": s(r, "kind"), "since": i(r, "since"), "drop": i(r, "drop"),
                    "out": "lost", "why": "-", "id": -1, "filled": 0, "rt": -1, "echo": 1, "res": empty_res(),
                })
            })
            .collect();
        let served = self.sut.hangup(reqs, self.n, h).await;
        self.n += reqs.len() as u64;
        match served {
            Ok(notifs) => self.notif.extend(notifs),
            Err(p) => {
                self.dead = true;
                for it in items.iter_mut() {
                    it["out"] = json!("panic");
                }
                self.ledger = json!({"panic": p});
            }
        }
        let post = self.post();
        out.line(&json!({"a": "burst", "k": reqs.len(), "hang": h, "reqs": items, "post": post.clone()}));
        post
    }

    fn end(self) {
        if let Sut::Run { task, .. } = self.sut {
            abort(&task);
        }
    }
}

// ---------------------------------------------------------------------------------------------
// seeded random driver
// ---------------------------------------------------------------------------------------------
fn resting(c: &str) -> Value {
    if c == "o3" {
        json!({"cid": "o3", "instr": "btc_usdt", "side": "sell", "p": 2, "q": 1, "filled": 0, "st": "cancelled"})
    } else if c == "o4" {
        json!({"cid": "o4", "instr": "eth_btc", "side": "buy", "p": 3, "q": 2, "filled": 0, "st": "cancelled"})
    } else if c == "o1" {
        json!({"cid": "o1", "instr": "btc_usdt", "side": "buy", "p": 1, "q": 1, "filled": 0, "st": "open"})
    } else {
        json!({"cid": c, "instr": "eth_btc", "side": "sell", "p": 2, "q": 2, "filled": 0, "st": "open"})
    }
}

fn random_world(rng: &mut rand::rngs::StdRng) -> Value {
    let fee = [0, 0, 1, 5, 10, 25, 50, 100][rng.random_range(0..8)];
    let lat = [0, 1, 2, 3, 10, 100][rng.random_range(0..6)];
    let mut bal = serde_json::Map::new();
    for a in ASSETS {
        let v: i64 = match rng.random_range(0..10) {
            0 => 0,
            1..=3 => 100 * rng.random_range(1..=12),
            _ => 25 * rng.random_range(0..=120),
        };
        bal.insert(a.to_string(), json!({"total": v, "free": v}));
    }
    // open and cancelled orders, possibly several on one instrument
    let open: Vec<Value> = ["o1", "o2", "o3", "o4"].iter().filter(|_| rng.random_bool(0.4)).map(|c| resting(c)).collect();
    // now and then the exchange task has already ended when the first request is made
    json!({"fee": fee, "lat": lat, "bal": bal, "open": open, "up": !rng.random_bool(0.04)})
}

fn open_req(t: i64, side: &str, p: i64, q: i64, instr: &str, kind: &str) -> Value {
    json!({"op": "open", "t": t, "side": side, "p": p, "q": q, "instr": instr, "kind": kind, "since": 0})
}
fn query_req(op: &str, t: i64, since: i64) -> Value {
    json!({"op": op, "t": t, "side": "none", "p": 0, "q": 0, "instr": "none", "kind": "none", "since": since})
}

fn random_request(rng: &mut rand::rngs::StdRng, world: &Value, post: &Value, t: i64) -> Value {
    let fee = i(world, "fee");
    let side = if rng.random_bool(0.5) { "buy" } else { "sell" };
    let (instr, base, quote) = LISTED[rng.random_range(0..LISTED.len())];
    let mut p = rng.random_range(1..=5);
    let mut q = rng.random_range(1..=4);
    // quantities are signed in this code base: the amount of an order is the magnitude
    let sign = match rng.random_range(0..20) {
        0..=2 => -1,
        3 => 0,
        _ => 1,
    };
    match rng.random_range(0..108) {
        0..=61 => {
            // every third market order aims at the boundary: an amount the spent asset covers exactly
            // (or misses by the smallest step), for both readings of "the spent asset"
            if rng.random_range(0..3) == 0 {
                let asset = if rng.random_bool(0.7) { if side == "buy" { quote } else { base } } else { quote };
                let have = post["bal"][asset]["free"].as_i64().unwrap_or(0);
                let mut hits = vec![];
                for pp in 1..=5 {
                    for qq in 1..=4 {
                        let need = if side == "buy" { pp * qq * (100 + fee) } else { qq * (100 + fee) };
                        if need == have || need == have + (100 + fee) || need + (100 + fee) == have {
                            hits.push((pp, qq));
                        }
                    }
                }
                if !hits.is_empty() {
                    (p, q) = hits[rng.random_range(0..hits.len())];
                }
            }
            open_req(t, side, p, sign * q, instr, "market")
        }
        62..=69 => open_req(t, side, p, sign * q, instr, "limit"),
        70..=77 => open_req(t, side, p, sign * q, UNLISTED, if rng.random_bool(0.8) { "market" } else { "limit" }),
        78..=84 => query_req("snapshot", t, 0),
        85..=90 => query_req("balances", t, 0),
        100..=104 => query_req("orders", t, 0),
        105..=107 => {
            let mut c = query_req("cancel", t, 0);
            c["instr"] = json!(if rng.random_bool(0.8) { instr } else { UNLISTED });
            c
        }
        _ => {
            // around the time of some fill, or anywhere
            let trades = post["trades"].as_array().cloned().unwrap_or_default();
            let since = if !trades.is_empty() && rng.random_bool(0.7) {
                trades[rng.random_range(0..trades.len())]["t"].as_i64().unwrap_or(0) + rng.random_range(-1..=1)
            } else {
                rng.random_range(0..=t + 60)
            };
            query_req("trades", t, since.max(0))
        }
    }
}

/// A full round of queries: account snapshot, balances, open orders, and trade queries whose
/// `time_since` lies below, at, between and above the recorded fill times.
fn query_round(rng: &mut rand::rngs::StdRng, post: &Value, t: i64) -> Vec<Value> {
    let mut times: Vec<i64> = post["trades"].as_array().map(|v| v.iter().filter_map(|x| x["t"].as_i64()).collect()).unwrap_or_default();
    times.sort();
    times.dedup();
    let mut sinces = vec![];
    if let (Some(lo), Some(hi)) = (times.first().copied(), times.last().copied()) {
        sinces.push((lo - 1).max(0));
        sinces.push(hi + 1);
        sinces.push(times[rng.random_range(0..times.len())]);
        for w in times.windows(2) {
            if w[1] - w[0] > 1 && rng.random_bool(0.6) {
                sinces.push(w[0] + rng.random_range(1..w[1] - w[0]));
            }
        }
        if times.len() >= 2 {
            sinces.push(times[times.len() / 2]);
        }
    } else {
        sinces.push(rng.random_range(0..=t + 5));
    }
    let mut v = vec![query_req("snapshot", t, 0), query_req("balances", t, 0), query_req("orders", t, 0)];
    v.extend(sinces.into_iter().map(|x| query_req("trades", t, x)));
    v
}

/// Can this request be part of a burst? (not the end of the exchange task, not an abandoned / in-flight-kill request)
fn burstable(r: &Value) -> bool {
    op_of(r) != "kill" && r.get("drop").and_then(|d| d.as_i64()).unwrap_or(0) == 0
}

/// Maximal runs `r, r' (bq=1), r'' (bq=1) ..` of burstable requests; everything else stands alone.
fn bursts_of(reqs: &[Value], run: bool) -> Vec<&[Value]> {
    let mut groups = vec![];
    let mut a = 0;
    while a < reqs.len() {
        let mut b = a + 1;
        while run && b < reqs.len() && burstable(&reqs[b - 1]) && burstable(&reqs[b]) && reqs[b].get("bq").and_then(|x| x.as_i64()) == Some(1) {
            b += 1;
        }
        groups.push(&reqs[a..b]);
        a = b;
    }
    groups
}

/// A burst of 2-4 requests for the random driver: opens that spend the same asset (the same request again: the
/// second may find the funds gone), opens on other assets, rejected ones, a query queued between two opens.
fn random_burst(rng: &mut rand::rngs::StdRng, world: &Value, post: &Value, t: i64) -> Vec<Value> {
    let k = rng.random_range(2..=4);
    let mut first = random_request(rng, world, post, t);
    if rng.random_bool(0.8) {
        // mostly start from a market order on a listed instrument
        for _ in 0..6 {
            if op_of(&first) == "open" && s(&first, "kind") == "market" && s(&first, "instr") != UNLISTED {
                break;
            }
            first = random_request(rng, world, post, t);
        }
    }
    let mut v = vec![first.clone()];
    let mut tt = t;
    while v.len() < k {
        // client times within a burst: equal, later, or earlier
        tt = match rng.random_range(0..6) {
            0 => (tt - 1).max(0),
            1..=3 => tt,
            _ => tt + rng.random_range(1..=2),
        };
        let mut r = match rng.random_range(0..10) {
            0..=3 => first.clone(),
            4..=5 => {
                let op = ["balances", "snapshot", "trades", "orders"][rng.random_range(0..4)];
                query_req(op, tt, if rng.random_bool(0.6) { 0 } else { rng.random_range(0..=tt + 3) })
            }
            _ => random_request(rng, world, post, tt),
        };
        r["t"] = json!(tt);
        r["bq"] = json!(1);
        v.push(r);
    }
    v
}

#[tokio::main(flavor = "current_thread", start_paused = true)]
async fn main() {
    let args = Args::parse();
    let mode = args.str("mode", "direct");
    let mut out = Out::create(args.req("out"));
    let mut segments = 0usize;
    let mut bursts = 0usize;
    let mut hangups = 0usize;
    match args.cmd.as_str() {
        "run" => {
            // --abandon K (mode run): every K-th open-order request of the scenarios is abandoned
            let every = if mode == "run" { args.usize("abandon", 0) } else { 0 };
            // --late K (mode run): every K-th scenario starts its exchange after the first request / burst was queued
            let late_every = if mode == "run" { args.usize("late", 0) } else { 0 };
            let mut opens = 0usize;
            let mut kills = 0usize;
            for (idx, mut scn) in read_ndjson(args.req("scenarios")).into_iter().enumerate() {
                // mode run: every third generated world starts its exchange late - after the first request
                // (or burst) has been queued (a recorded scenario says itself whether it did)
                if mode == "run" && scn["init"].get("late").is_none() && scn["init"].get("up").and_then(|u| u.as_bool()) != Some(false) {
                    scn["init"]["late"] = json!((late_every > 0 && idx % late_every == late_every - 1) as i64);
                }
                let (mut seg, _) = Segment::start(&mut out, &mode, &scn["init"]).await;
                segments += 1;
                let mut pending_inflight = false;
                let mut reqs: Vec<Value> = vec![];
                let evs = scn["evs"].as_array().expect("evs");
                // `bq`: queued together with the request before it (on the event, or in the scenario's `bq` list)
                let bq_of = |k: usize| evs.get(k).and_then(|e| e.get("bq").or_else(|| scn.get("bq").and_then(|b| b.get(k)))).and_then(|b| b.as_i64()).unwrap_or(0);
                for (k, e) in evs.iter().enumerate() {
                    let mut r = e.get("req").unwrap_or(e).clone();
                    let bq = bq_of(k);
                    r["bq"] = json!(bq);
                    // every other generated "kill" strikes while the request after it is in flight
                    if mode == "run" && every > 0 && op_of(&r) == "kill" && r.get("drop").is_none() {
                        kills += 1;
                        if kills % 2 == 0 {
                            pending_inflight = true;
                            continue;
                        }
                    }
                    if pending_inflight && op_of(&r) != "kill" {
                        r["drop"] = json!(3);
                        pending_inflight = false;
                    } else if mode == "run" && every > 0 && op_of(&r) == "open" && r.get("drop").is_none() && bq == 0 && bq_of(k + 1) == 0 {
                        opens += 1;
                        if opens % every == 0 {
                            r["drop"] = json!(1 + (opens / every) % 2);
                        }
                    }
                    reqs.push(r);
                }
                // the hang-up at the end: the events marked `hg` (a recorded scenario), else - `"hang": h` on the
                // scenario - the trailing open-order requests (at most three)
                let h = if mode == "run" { scn.get("hang").and_then(|x| x.as_i64()).unwrap_or(0) } else { 0 };
                let mut cut = reqs.len();
                if h > 0 {
                    let marked = reqs.iter().any(|r| r.get("hg").and_then(|x| x.as_i64()) == Some(1));
                    while cut > 0
                        && op_of(&reqs[cut - 1]) == "open"
                        && reqs[cut - 1].get("drop").and_then(|d| d.as_i64()).unwrap_or(0) != 3
                        && (if marked { reqs[cut - 1].get("hg").and_then(|x| x.as_i64()) == Some(1) } else { reqs.len() - cut < 3 })
                    {
                        cut -= 1;
                    }
                    for (pos, r) in reqs[cut..].iter_mut().enumerate() {
                        if !marked {
                            r["drop"] = json!(if (h + pos as i64) % 2 == 1 { 1 } else { 2 });
                        }
                        r["bq"] = json!(0);
                    }
                    if cut < reqs.len() {
                        reqs[cut]["bq"] = json!(0);
                    }
                }
                for group in bursts_of(&reqs[..cut], mode == "run") {
                    bursts += (group.len() > 1) as usize;
                    seg.burst(&mut out, group).await;
                }
                if cut < reqs.len() {
                    hangups += 1;
                    seg.hangup(&mut out, &reqs[cut..], h).await;
                }
                seg.end();
            }
        }
        "random" => {
            let mut rng = rng(args.u64("seed", 1));
            let steps = args.usize("steps", 4000);
            let seglen = args.usize("seglen", 30);
            let mut done = 0;
            while done < steps {
                let mut world = random_world(&mut rng);
                if mode == "run" && world["up"] == json!(true) {
                    world["late"] = json!(rng.random_bool(0.3) as i64);
                }
                let (mut seg, mut post) = Segment::start(&mut out, &mode, &world).await;
                segments += 1;
                let mut t: i64 = rng.random_range(0..5);
                // mode run: some exchanges are ended on the way, between two requests or while one is in flight
                let kill_at = if mode == "run" && rng.random_bool(0.15) { Some((rng.random_range(2..seglen.max(3)), rng.random_bool(0.5))) } else { None };
                let rounds = [rng.random_range(3..seglen.max(4)), rng.random_range(3..seglen.max(4))];
                let mut k = 0;
                while k < seglen {
                    // the client clock advances, stands still, steps back a little or jumps back far:
                    // request times (hence fill times) are in no particular order
                    t = match rng.random_range(0..10) {
                        0 => rng.random_range(0..=t),
                        1 => (t - rng.random_range(1..=3)).max(0),
                        2..=3 => t,
                        _ => t + rng.random_range(1..=4),
                    };
                    if mode == "run" && !rounds.contains(&k) && kill_at.map(|(at, _)| at != k).unwrap_or(true) && rng.random_range(0..5) == 0 {
                        let b = random_burst(&mut rng, &world, &post, t);
                        t = b.iter().map(|r| i(r, "t")).max().unwrap_or(t);
                        bursts += 1;
                        done += b.len();
                        k += b.len();
                        post = seg.burst(&mut out, &b).await;
                        if post.get("panic").is_some() {
                            break;
                        }
                        continue;
                    }
                    let batch = if rounds.contains(&k) { query_round(&mut rng, &post, t) } else { vec![random_request(&mut rng, &world, &post, t)] };
                    for mut r in batch {
                        if mode == "run" && op_of(&r) == "open" && rng.random_range(0..8) == 0 {
                            r["drop"] = json!(rng.random_range(1..=2));
                        }
                        if let Some((at, inflight)) = kill_at {
                            if at == k && inflight {
                                r["drop"] = json!(3);
                            } else if at == k {
                                seg.step(&mut out, &kill_req(t, 0)).await;
                            }
                        }
                        post = seg.step(&mut out, &r).await;
                        done += 1;
                        k += 1;
                    }
                    if post.get("panic").is_some() {
                        break;
                    }
                }
                // every third exchange that is still running is hung up on: 1-3 open orders nobody waits for,
                // then the last request sender goes away while they are inside the latency window
                if mode == "run" && post.get("panic").is_none() && !seg.sut.is_killed() && rng.random_range(0..3) == 0 {
                    let h = rng.random_range(1..=2);
                    let mut v = vec![];
                    for _ in 0..rng.random_range(1..=3) {
                        let mut r = random_request(&mut rng, &world, &post, t);
                        for _ in 0..8 {
                            if op_of(&r) == "open" {
                                break;
                            }
                            r = random_request(&mut rng, &world, &post, t);
                        }
                        if op_of(&r) == "open" {
                            r["drop"] = json!(rng.random_range(1..=2));
                            v.push(r);
                        }
                    }
                    if !v.is_empty() {
                        hangups += 1;
                        done += v.len();
                        seg.hangup(&mut out, &v, h).await;
                    }
                }
                seg.end();
            }
        }
        c => usage(&format!("unknown command {c}")),
    }
    let n = out.finish();
    println!("{}", json!({"lines": n, "segments": segments, "bursts": bursts, "hangups": hangups, "mode": mode}));
}
