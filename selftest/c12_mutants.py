#!/usr/bin/env python3
"""Source mutants for C12, applied to a scratch copy (never to /repo): each must make
`bin/check C12` report VIOLATION.

The scratch tree /verif/work/c12mut/{repo,verif/harness} mirrors the relative layout of
/repo and /verif/harness, so the copied harness builds against the copied (mutated) sources.
Usage: python3 selftest/c12_mutants.py [name ...]     (first build of the scratch copy ~1-3 min)
       python3 selftest/c12_mutants.py --clean         removes the scratch tree
"""
import importlib
import os
import shutil
import subprocess
import sys

HERE = os.path.dirname(os.path.abspath(__file__))
sys.path.insert(0, os.path.join(HERE, "..", "bin"))
import vlib  # noqa: E402

SCRATCH = os.path.join(vlib.WORKROOT, "c12mut")
STREAM = "barter-data/src/streams/reconnect/stream.rs"
MUTANTS = {
    # name: (file, old, new, what the property loses)
    "no_reset": (STREAM, "                        state.reset_backoff();\n", "",
                 "back-off is not reset after a success"),
    "no_cap": (STREAM, "let next_capped = std::cmp::min(next, self.policy.backoff_ms_max);", "let next_capped = next;",
               "back-off grows beyond the maximum"),
    "sleep_after_multiply": (STREAM, "let sleep_fut = state.generate_sleep_future();\n                        state.multiply_backoff();",
                             "state.multiply_backoff();\n                        let sleep_fut = state.generate_sleep_future();",
                             "the first wait is already multiplied"),
    "no_sleep": (STREAM, "                            sleep_fut.await;\n", "                            drop(sleep_fut);\n",
                 "failed attempts are not separated by waits"),
    "terminal_not_terminal": (STREAM, "                        None\n                    }\n                    Err(error) => Some(Err(error)),",
                              "                        Some(Err(error))\n                    }\n                    Err(error) => Some(Err(error)),",
                              "a terminal error does not end the connection"),
    "every_error_terminal": (STREAM, "Err(error) if is_terminal(&error) => {", "Err(error) if is_terminal(&error) || true => {",
                             "non-terminal errors end the connection instead of passing through"),
    "notice_twice": (STREAM, ".chain(futures::stream::once(future::ready(Event::Reconnecting(\n                    origin.clone(),\n                ))))",
                     ".chain(futures::stream::iter([Event::Reconnecting(origin.clone()), Event::Reconnecting(origin.clone())]))",
                     "two notices per drop"),
    "handler_drops_notice": (STREAM, "Event::Reconnecting(origin) => Some(Event::Reconnecting(origin)),", "Event::Reconnecting(_) => None,",
                             "with_error_handler loses the notices"),
    "forward_stops_on_notice": (STREAM, "tokio_stream::StreamExt::map_while(self, move |event| tx.send(event.into()).ok()).collect()",
                                "{ let mut n = 0usize; tokio_stream::StreamExt::map_while(self, move |event| { n += 1; if n > 3 { None } else { tx.send(event.into()).ok() } }).collect() }",
                                "forward_to stops after three events: the forwarded stream ends"),
    "first_failure_retried": (STREAM, "let initial = init_stream().await?;",
                              "let initial = match init_stream().await { Ok(s) => s, Err(_) => init_stream().await? };",
                              "the first init failing is retried instead of being an error"),
    "consumer_no_termination": ("barter-data/src/streams/consumer.rs", "    .with_termination_on_error(|error| error.is_terminal(), stream_key)\n",
                                "    .with_termination_on_error(|_error| false, stream_key)\n",
                                "init_market_stream no longer reconnects on terminal errors"),
    "socket_is_terminal": ("barter-data/src/error.rs", "DataError::InvalidSequence { .. } => true,",
                           "DataError::InvalidSequence { .. } | DataError::Socket(_) => true,",
                           "socket errors end the connection"),
    "merge_ignores_right_end": ("barter-integration/src/stream/merge.rs",
                                "    let right = right\n        .map(Some)\n        .chain(futures::stream::once(std::future::ready(None)));",
                                "    let right = right.map(Some);",
                                "merge does not end when the right input ends"),
    "merge_not_fused_prefers_left": ("barter-integration/src/stream/merge.rs", "left.merge(right).map_while(std::convert::identity).fuse()",
                                     "futures::StreamExt::filter_map(left.merge(right), |x| std::future::ready(x))",
                                     "merge never ends: items keep coming after an input ended"),
}


def sh(cmd, **kw):
    return subprocess.run(cmd, shell=True, text=True, stdout=subprocess.PIPE, stderr=subprocess.STDOUT, **kw)


def sync():
    os.makedirs(os.path.join(SCRATCH, "verif"), exist_ok=True)
    # by checksum and WITHOUT preserving times: a file whose content is restored gets a fresh mtime
    # (cargo's freshness test), an identical file is left alone
    sh("rsync -rlpc --delete --exclude target --exclude .git /repo/ %s/repo/" % SCRATCH)
    sh("rsync -rlpc --exclude target %s/ %s/verif/harness/" % (vlib.HARNESS, SCRATCH))


def run_check():
    real = vlib.HARNESS
    vlib.HARNESS = os.path.join(SCRATCH, "verif", "harness")
    try:
        mod = importlib.import_module("props.c12")
        ctx = vlib.Ctx("C12", "quick", int(os.environ.get("VERIF_SEED", "1")))
        ctx.impl_only = True
        real_finish = ctx.finish
        ctx.finish = lambda *a, **k: real_finish(*a, **dict(k, write_evidence=False))
        try:
            return mod.check(ctx), len({v.sig for v in ctx.violations}), sorted({v.sig for v in ctx.violations})[:6]
        except vlib.ToolError as e:
            shutil.rmtree(ctx.work, ignore_errors=True)
            return 2, 0, [str(e)[:300]]
    finally:
        vlib.HARNESS = real


def main():
    if "--clean" in sys.argv:
        shutil.rmtree(SCRATCH, ignore_errors=True)
        return 0
    names = [a for a in sys.argv[1:] if not a.startswith("-")] or list(MUTANTS)
    results = {}
    for name in names:
        f, old, new, what = MUTANTS[name]
        sync()
        p = os.path.join(SCRATCH, "repo", f)
        src = open(p).read()
        if src.count(old) != 1:
            print("MUTANT %s: anchor not found exactly once in %s" % (name, f))
            results[name] = "anchor"
            continue
        open(p, "w").write(src.replace(old, new))
        try:
            rc, nsig, sigs = run_check()
        finally:
            # restore by rewriting (fresh mtime): cargo decides freshness by mtime, an rsync -a restore
            # would keep the old mtime and leave the mutant compiled into the scratch target
            open(p, "w").write(src)
        results[name] = {0: "SURVIVED", 1: "caught", 2: "tool-error"}[rc]
        print("MUTANT %-28s %-10s (%s) %d signature(s) %s" % (name, results[name], what, nsig, sigs), flush=True)
    sync()
    for f in os.listdir(os.path.join(vlib.VERIF, "replays")):
        if f.startswith("C12_") and "--keep-replays" not in sys.argv:
            os.remove(os.path.join(vlib.VERIF, "replays", f))
    ok = all(v == "caught" for v in results.values())
    print("C12 mutants:", "ALL CAUGHT" if ok else results)
    return 0 if ok else 1


if __name__ == "__main__":
    sys.exit(main())
