SPECIFICATION GSpecT
CONSTANTS
  INSTR = {"i1"}
  PRICE = {1, 2}
  AMOUNT = {0, 1, 2}
  RULES = {"Spot", "Futures"}
  MCM = 5
  EVOLUTIONS <- FewEvolutions
  MaxEvents = 4
  MaxDeliver = 1000
  MaxReinit = 0
  EXPECTED = {1}
  MaxBuf = 0
  InitOrder = "snapshot-first"
  MaxLen = 4
INVARIANT Emit
CHECK_DEADLOCK FALSE
