"""The engine clock (spec/Clock.tla) - an additional stage of C20 ("the summary a back-test returns is computed from that
engine alone": every time an engine reports comes from its clock, and clones of one HistoricalClock share their state).

  TLC        Clock exhaustively: two handles over the whole decision table, three handles over a small alphabet (aliasing)
  spec->impl TLC-simulated behaviours of Clock (Gen_Clock) replayed by harness/src/bin/clock.rs into real HistoricalClock
             objects and real Engines; every reading of every handle after every step compared with the specification's
             expectation as an interval computed from the wall clock measured around the calls
  impl->spec a seeded driver (independent clocks, clones, late / equal / newer / untimed events of every kind, sleeps, clocks
             installed in real engines) recorded in integer milliseconds and validated by Trace_Clock (Clock's own actions)
Violations are C20 violations whose signatures start with "clock:"."""
import json

import vlib

MODULE = "Clock"
ASSUMPTIONS = [
    "engine clock: the machine's wall clock (Utc::now) does not step while a scenario is measured (checked against the monotonic "
    "clock; a disturbed scenario is measured again, never judged); it is read immediately before and after every call, so the "
    "instant the code read it is known up to that interval; the recorded traces are in whole milliseconds (floor), which adds one "
    "unit; a backwards step of the wall clock (the `delta >= 0` edge case of time()) is model-checked (WallBack) but cannot be "
    "driven in the implementation",
    "engine clock: the summary / audit / engine readings are taken from engines built over the harness world by Engine::new "
    "(engine_kit) and by SystemBuilder::build without execution links (seeded balances, meta.time_start); the clone a mock "
    "exchange stamps its responses with and the summaries of whole back-tests are judged by C20's own clock clause, not here",
]
ACTIONS = ["New", "Clone", "Process", "WallAdvance", "WallBack"]
KINDS_TIMED = ["MarketItem", "Balance", "OrderOpen", "OrderCancelInFlightOpen", "OrderCancelled", "CancelOk", "Trade"]
KINDS_UNTIMED = ["MarketReconnecting", "AccountReconnecting", "OrderOpenInFlight", "OrderCancelInFlightNone", "OrderFullyFilled",
                 "OrderOpenFailed", "OrderExpired", "CancelErr", "Shutdown", "Command", "TradingState"]
VIAS = ("bare", "engine", "system")     # a bare HistoricalClock / installed by Engine::new / handed to SystemBuilder::build
INT_LIMIT = 2 ** 30           # TLC integers are 32 bit: readings beyond this are screened (and are violations on their own)


# ------------------------------------------------------------------------------- self-test of the binding
def L(a, h=0, g=0, n=0, ev=None, lo=0, hi=None, v=0, src="-", via="selftest"):
    return {"a": a, "h": h, "g": g, "n": n, "ev": ev or {"kind": "-", "t": 0, "items": []}, "lo": lo, "hi": lo if hi is None else hi,
            "v": v, "src": src, "via": via}


def E(kind, t=0, items=()):
    return {"kind": kind, "t": t, "items": [{"kind": k, "t": tt} for k, tt in items]}


def synthetic_segment():
    """what a correct clock shows: a clone sees its origin's events, a separate clock does not; newer adopted, equal restarts
    the elapsed part, late and untimed ignored, a full snapshot counts with its most recent time"""
    return [
        L("Reset"),
        L("New", h=1, n=1000, lo=10), L("Read", h=1, v=1000, lo=10, src="clock.time"),
        L("Clone", h=1, g=2, lo=11),
        L("New", h=3, n=500, lo=12),
        L("Process", h=1, ev=E("Trade", 1100), lo=20), L("Read", h=2, v=1100, lo=20, src="clock.time"),        # 6, 7: the clone sees it
        L("Read", h=3, v=508, lo=20, src="clock.time"),                                                        # 8: the separate clock does not
        L("Read", h=1, v=1105, lo=25, src="clock.time"),                                                       # 9
        L("Process", h=2, ev=E("Balance", 1100), lo=30), L("Read", h=1, v=1100, lo=30, src="clock.time"),      # 10, 11: equal restarts
        L("Process", h=1, ev=E("MarketItem", 1050), lo=40), L("Read", h=1, v=1110, lo=40, src="clock.time"),   # 12, 13: late ignored
        L("Process", h=1, ev=E("CancelErr"), lo=45), L("Read", h=1, v=1115, lo=45, src="clock.time"),          # 14, 15: untimed ignored
        L("Process", h=1, ev=E("Snapshot", 0, [("OrderFullyFilled", 0), ("Balance", 1200), ("OrderOpen", 1150)]), lo=50),
        L("Read", h=2, v=1200, lo=50, hi=51, src="clock.time"),                                                # 17
        L("Read", h=2, v=1203, lo=53, hi=54, src="clock.time"),                                                # 18 (floor: 1203 or 1204 ...)
    ]


def corrupted_copies():
    seg = synthetic_segment()

    def mut(i, **kw):
        m = [dict(l) for l in seg]
        m[i] = dict(m[i], **kw)
        return m
    return [
        ("nothing (the original)", seg, None),
        ("a newer event not adopted by the clone", mut(6, v=1010), {"below-exchange-time", "after:newer"}),
        ("a separate clock moved by another clock's event", mut(7, v=1100), {"ahead", "after:new"}),
        ("the elapsed part not restarted by an event of equal time", mut(10, v=1110), {"ahead", "after:equal"}),
        ("a late event adopted", mut(12, v=1050), {"below-exchange-time", "after:late"}),
        ("the elapsed part restarted by a late event", mut(12, v=1100), {"behind", "after:late"}),
        ("the elapsed part restarted by an event without a time", mut(14, v=1100), {"behind", "after:untimed"}),
        ("a snapshot counted with its orders only", mut(16, v=1150), {"below-exchange-time", "after:newer"}),
        ("the elapsed part not added", mut(8, v=1100), {"behind", "after:newer"}),
        ("a reading two units beyond the measured interval", mut(17, v=1206), {"ahead", "after:newer"}),
        ("the kind of a processed event (a trade recorded as a fully-filled order report)", mut(5, ev=E("OrderFullyFilled")), {"ahead", "after:untimed"}),
        ("the time of a processed event", mut(5, ev=E("Trade", 1300)), {"below-exchange-time", "after:newer"}),
    ]


def corrupted_scenarios(scns):
    """spec -> impl self-test: one field of TLC's expectation changed by hand; the harness must reject each."""
    out = []
    for scn in scns:
        steps = scn["steps"]
        ks = [k for k, st in enumerate(steps) if st["step"]["a"] == "Process" and st["rel"] == "newer"]
        if not ks:
            continue
        k = ks[0]
        h = steps[k]["step"]["h"]
        # (a) the exchange time expected after a newer event is off by one spec unit; (b) the restart is not expected
        a = json.loads(json.dumps(scn))
        for st in a["steps"][k:]:
            for e in st["exp"]:
                if e["o"] == steps[k]["exp"][h - 1]["o"]:
                    e["ex"] += 1
                    e["time"] += 1
        out.append(("exchange time held", a))
        if len(out) >= 3:
            break
    for scn in scns:
        steps = scn["steps"]
        # (c) an aliasing expectation changed: a clone expected to be a separate object whose time is its seed ... simplest:
        # a WallAdvance the specification counts but the harness is told nothing of: expected elapsed ticks too many
        ks = [k for k, st in enumerate(steps) if st["step"]["a"] == "WallAdvance"]
        if ks:
            a = json.loads(json.dumps(scn))
            for st in a["steps"][ks[0]:]:
                for e in st["exp"]:
                    if e["o"]:
                        e["time"] += 400          # 400 ticks the machine never slept
            out.append(("elapsed part", a))
            break
    return out


# ------------------------------------------------------------------------------- judging
def describe(line):
    if line is None:
        return "the start"
    if line["a"] == "Process":
        return "processing %s through handle %d (%s)" % (json.dumps(line["ev"]), line["h"], line["via"])
    if line["a"] == "New":
        return "HistoricalClock::new(seed %d ms) as handle %d (%s)" % (line["n"], line["h"], line["via"])
    if line["a"] == "Clone":
        return "cloning handle %d as handle %d (%s)" % (line["h"], line["g"], line["via"])
    return line["a"]


def anomaly(line):
    if line.get("anomaly"):
        return line["anomaly"]
    if line.get("a") == "Read" and not (0 <= line["v"] < INT_LIMIT):
        return "far: %s read through handle %d (%s) is %d ms from the harness epoch - years away from every time delivered" % (
            line["src"], line["h"], line["via"], line["v"])
    return None


def validate_trace(ctx, trace_path, rp, selftest=True):
    lines = ctx.read_trace(trace_path)
    clean = ctx.path("clean_clock.ndjson")
    found, keep = ctx.screen_anomalies(lines, clean, anomaly)
    for n, d, seg in found:
        prev = next((x for x in reversed(seg[:-1]) if x.get("a") in ("Process", "New", "Clone")), None)
        ctx.violation("clock:anomaly:" + d.split(":")[0][:40], "engine clock: %s (after %s)" % (d, describe(prev)), rp)
    n_impl = len(keep)
    copies = corrupted_copies() if selftest else []
    bounds = []
    with open(clean, "a") as f:
        at = n_impl + 1
        for _, m, _ in copies:
            for l in m:
                f.write(json.dumps(l) + "\n")
            bounds.append((at, at + len(m) - 1))
            at += len(m)
    n, bad, _ = ctx.tlc_trace("Trace_Clock", "Trace_Clock.cfg", clean)
    ctx.cov["trace_events_validated"] -= n - n_impl          # (the self-test lines are not implementation events)
    # ---- the self-test: the original accepted, every corrupted copy rejected with the expected clause
    caught = []
    for (lo, hi), (what, _, tags) in zip(bounds, copies):
        got = [set(ctx.last_tags.get(b, [])) for b in bad if lo <= b <= hi]
        if tags is None:
            if got:
                raise vlib.ToolError("clock self-test: the well-formed trace was rejected (%s)" % got)
            continue
        if not any(tags <= g for g in got):
            raise vlib.ToolError("clock self-test: a trace with %s corrupted was not rejected as %s (rejections: %s)" % (what, sorted(tags), got))
        caught.append(what)
    # ---- the implementation's lines
    seen_segments = set()
    for b in sorted(x for x in bad if x <= n_impl):
        seg = ctx.segment(keep, b)
        start = b - len(seg)
        if start in seen_segments:
            continue                # (the first rejected reading of a segment is reported; later ones follow from it)
        seen_segments.add(start)
        line = keep[b - 1]
        tags = ctx.last_tags.get(b, ["unconsumed"])
        if "ill-formed" in tags or "unconsumed" in tags:
            # a call the specification has no step for, or wall readings out of order: the driver / the machine's clock, never the code
            raise vlib.ToolError("clock trace: line %d is not a well-formed record: %s" % (b, json.dumps(line)))
        prev = next((x for x in reversed(seg[:-1]) if x.get("a") in ("Process", "New", "Clone")), None)
        rel = next((t for t in tags if t.startswith("after:")), "after:-")
        what = "+".join(t for t in tags if not t.startswith("after:"))
        ctx.violation("clock:trace:%s:%s" % (rel, what),
                      "engine clock: after %s, %s read through handle %d (%s) between wall readings %d and %d ms is %d ms - not a reading "
                      "Clock allows (%s; the last event through this clock object was %s) [line %d]" % (
                          describe(prev), line.get("src"), line.get("h"), line.get("via"), line.get("lo"), line.get("hi"), line.get("v"),
                          what, rel[6:], b), rp)
    return n_impl, caught


def run_replay(ctx, scn_path, n_scn, label, rp_of):
    res_path = ctx.path("clock_results_%s.ndjson" % label)
    info = ctx.harness("clock", "run", "--scenarios", scn_path, "--results", res_path, "--tick-us", 1000, timeout=1200)
    ctx.cov["harness_runs"][-1].pop("covered", None)          # (reported once, under engine_clock)
    results = ctx.read_results(res_path)
    return info, results


def judge_replay(ctx, scns, results):
    for r in results:
        if r["ok"]:
            continue
        sig = r["sig"]
        if sig["dir"] == "tool":
            raise vlib.ToolError("clock replay: %s" % r["error"])
        ev = r["event"]
        ctx.violation("clock:replay:%s:%s:%s" % (sig["a"], sig["rel"], sig["dir"]),
                      "engine clock: TLC behaviour %d, step %d (%s%s): %s" % (
                          r["scn"], r["step"], ev["a"], " of " + json.dumps(ev["ev"]) + " [" + str(sig["rel"]) + "]" if ev["a"] == "Process" else "",
                          r["error"]),
                      {"kind": "clock", "mode": "scenario", "scenario": scns[r["scn"]]})


# ------------------------------------------------------------------------------- entry points
def run(ctx):
    ctx.assumptions += ASSUMPTIONS
    ctx.build("clock")
    cov = ctx.cov.setdefault("engine_clock", {})
    # ---- TLC decides the properties on the bounded models; every action taken
    ctx.tlc_mc("MC_Clock", "MC_Clock.cfg", timeout=600, coverage=False)
    ctx.tlc_mc("MC_Clock", "MC_Clock_alias.cfg", timeout=600, coverage=False)
    # (vacuity: -coverage on the full alphabet costs 3x; every action must be taken in the small configuration, and the
    #  behaviours replayed below must reach every arm of the decision table)
    r = ctx.tlc_mc("MC_Clock", "MC_Clock_actions.cfg", timeout=600, coverage=True)
    if sorted(a for a in r["actions"] if a != "Init") != sorted(ACTIONS):
        raise vlib.ToolError("Clock: actions reported by TLC %s, expected %s" % (sorted(r["actions"]), sorted(ACTIONS)))
    if not ctx.quick:
        ctx.tlc_mc("MC_Clock", "MC_Clock_deep.cfg", timeout=1500, coverage=False)          # two handles, times 0..3, wall 0..2
        ctx.tlc_mc("MC_Clock", "MC_Clock_thorough.cfg", timeout=1500, coverage=False)      # three handles, the whole alphabet
    # ---- spec -> impl
    p, scns = ctx.tlc_gen("Gen_Clock", "Gen_Clock.cfg", "clock_behaviours.ndjson", simulate=(300 if ctx.quick else 3000, 20), timeout=900)
    ctx.sample({"kind": "TLC-simulated behaviour of Clock (first steps)", "steps": [dict(st, exp=[e for e in st["exp"] if e["o"]]) for st in scns[0]["steps"][:4]]})
    info, results = run_replay(ctx, p, len(scns), "behaviours", None)
    judge_replay(ctx, scns, results)
    ctx.cov["scenarios_replayed"] += len(scns)
    covered = info.get("covered", {})
    cov["replayed_behaviours"] = len(scns)
    cov["replayed_steps"] = info.get("steps")
    cov["behaviours_not_judged_wall_clock_disturbed"] = info.get("unjudged")
    cov["replay_covered"] = covered
    if info.get("unjudged", 0) > len(scns) // 10:
        raise vlib.ToolError("clock replay: the wall clock was disturbed in %d of %d behaviours" % (info["unjudged"], len(scns)))
    if not ctx.violations:
        # vacuity: every arm of the decision table, every relation, both hosts, every read source
        def n(kind, rel):
            return sum(covered.get("process:%s:%s:%s" % (via, kind, rel), 0) for via in VIAS)
        missing = ["%s:%s" % (k, rel) for k in KINDS_TIMED for rel in ("newer", "equal", "late") if not n(k, rel)]
        missing += [k for k in KINDS_UNTIMED if not n(k, "untimed")]
        missing += [via for via in VIAS if not any(k.startswith("process:%s:" % via) for k in covered)]
        missing += ["Snapshot:" + rel for rel in ("newer", "equal", "late", "untimed")
                    if not n("Snapshot", rel)]
        missing += [s for s in ("clock.time", "engine.clock.time", "engine.time", "summary.time_engine_now", "audit.tick.context.time",
                                "engine.meta.time_start", "system.seeded-balance.time") if not covered.get("read:" + s)]
        missing += ["clone:%s->" % a for a in VIAS if not any(covered.get("clone:%s->%s" % (a, b)) for b in VIAS)]
        missing += ["clone:->%s" % b for b in VIAS if not any(covered.get("clone:%s->%s" % (a, b)) for a in VIAS)]
        if missing:
            raise vlib.ToolError("clock replay is vacuous: never exercised %s" % missing)
    # ---- the binding bites (spec -> impl): expectations corrupted by hand must be rejected
    cs = corrupted_scenarios(scns)
    cp = ctx.path("clock_corrupted.ndjson")
    with open(cp, "w") as f:
        for _, s in cs:
            f.write(json.dumps(s) + "\n")
    _, cres = run_replay(ctx, cp, len(cs), "corrupted", None)
    ctx.cov["harness_runs"].pop()
    not_caught = [what for (what, _), r in zip(cs, cres) if r["ok"]]
    if not_caught or len(cs) < 2:
        raise vlib.ToolError("clock self-test: %d expectations corrupted by hand (%s), not rejected: %s" % (len(cs), [w for w, _ in cs], not_caught))
    cov["corrupted_expectations_rejected"] = len(cs)
    # ---- impl -> spec
    tp = ctx.path("clock_trace.ndjson")
    info = ctx.harness("clock", "random", "--seed", ctx.seed, "--segments", 60 if ctx.quick else 1000, "--ops", 40, "--out", tp, timeout=1200)
    ctx.cov["harness_runs"][-1].pop("covered", None)
    n_impl, caught = validate_trace(ctx, tp, {"kind": "clock", "mode": "random", "seed": ctx.seed, "segments": 60 if ctx.quick else 1000})
    cov["trace_lines"] = n_impl
    cov["trace_covered"] = info.get("covered", {})
    cov["corrupted_traces_rejected"] = caught
    ctx.cov["traces_validated_against_impl"] += info.get("segments", 0)
    tc = info.get("covered", {})
    if not ctx.violations:
        missing = [k for k in KINDS_TIMED + KINDS_UNTIMED + ["Snapshot"] if not any(tc.get("process:%s:%s" % (via, k)) for via in VIAS)]
        missing += [via for via in VIAS if not any(k.startswith("process:%s:" % via) for k in tc)]
        missing += [x for x in ("sleeps", "read:audit.tick.context.time", "read:summary.time_engine_now", "read:engine.time", "read:clock.time",
                                "read:engine.meta.time_start", "read:system.seeded-balance.time") if not tc.get(x)]
        missing += ["clone:->%s" % b for b in VIAS if not any(tc.get("clone:%s->%s" % (a, b)) for a in VIAS)]
        if missing:
            raise vlib.ToolError("clock trace is vacuous: never exercised %s" % missing)
    vlib.log("engine clock: %d behaviours replayed, %d trace lines validated, %d + %d hand-corrupted inputs rejected" % (
        len(scns), n_impl, len(cs), len(caught)))


def replay(ctx, rp):
    ctx.build("clock")
    if rp.get("mode") == "scenario":
        p = ctx.path("clock_replay.ndjson")
        with open(p, "w") as f:
            f.write(json.dumps(rp["scenario"]) + "\n")
        _, results = run_replay(ctx, p, 1, "replay", None)
        judge_replay(ctx, [rp["scenario"]], results)
    else:
        tp = ctx.path("clock_trace.ndjson")
        ctx.harness("clock", "random", "--seed", rp.get("seed", 1), "--segments", rp.get("segments", 60), "--ops", 40, "--out", tp, timeout=1200)
        validate_trace(ctx, tp, rp, selftest=False)
    return ctx.finish(write_evidence=False)
