---------------------------- MODULE MC_EngineCore ----------------------------
(* Bounded instance of EngineCore for exhaustive model checking: a finite     *)
(* alphabet of events and environments over the harness world (three         *)
(* exchanges, six instruments).                                              *)
EXTENDS EngineCore

CONSTANT MaxSeq

E0(a, ex, inst) == Ev(a, ex, inst, "", "", "-", 0, FALSE, "-", <<>>, NoFilter)
F(k, set) == [k |-> k, set |-> set]
\* by-exchange filters over THREE exchanges: a single one (first / middle / last), the non-adjacent pair in both
\* orders (the instruments it selects - 0..3 and 5 - are not one contiguous block of instrument states)
Filters == {NoFilter, F("Exchanges", <<0>>), F("Exchanges", <<1>>), F("Exchanges", <<2>>), F("Exchanges", <<0, 2>>),
            F("Exchanges", <<2, 0>>), F("Instruments", <<1>>), F("Instruments", <<0, 5, 0>>),
            F("Instruments", <<0, 4>>), F("Underlyings", <<0>>), F("Underlyings", <<2>>), F("Underlyings", <<3, 4>>),
            F("Underlyings", <<5>>),
            \* a filter built from an EMPTY collection denotes the empty scope (not "no filter")
            F("Exchanges", <<>>), F("Instruments", <<>>), F("Underlyings", <<>>)}

MCEvents ==
       {E0("Market", ExOf(i), i) : i \in {0, 2, 4, 5}}
  \cup {E0("MarketNoPrice", ExOf(i), i) : i \in {0, 5}}
  \cup {E0(a, e, 0) : a \in {"MarketReconnecting", "AccountReconnecting"}, e \in {0, 1, 2}}
  \cup {Ev("OrderSnap", ExOf(i), i, "c1", k, "-", 0, FALSE, "-", <<>>, NoFilter) : i \in {0, 4, 5}, k \in {"Open", "Inactive"}}
  \cup {Ev("CancelResp", 0, 0, "c1", "", "-", 0, ok, "-", <<>>, NoFilter) : ok \in BOOLEAN}
  \cup {Ev("Trade", ExOf(i), i, "", "", sd, 1, FALSE, "-", <<>>, NoFilter) : i \in {2, 4, 5}, sd \in {"buy", "sell"}}
  \* (an odd quantity: the balance inside a full account snapshot of the exchange; even: a balance snapshot)
  \cup {Ev("Balance", 0, 0, "", "", "-", 3, FALSE, "-", <<>>, NoFilter), Ev("Balance", 2, 0, "", "", "-", 4, FALSE, "-", <<>>, NoFilter)}
  \cup {Ev("TradingState", 0, 0, "", "", "-", 0, FALSE, to, <<>>, NoFilter) : to \in {"Enabled", "Disabled"}}
  \cup {Ev("SendOpens", 0, 0, "", "", "-", 0, FALSE, "-", rs, NoFilter) :
           rs \in {<<OpenReq(0, "c1", "buy", 1)>>,
                   <<OpenReq(0, "c1", "buy", 1), OpenReq(4, "c2", "sell", 2), OpenReq(5, "c1", "buy", 2)>>,   \* one per exchange
                   <<Req("open", NEX, 0, "c2", "buy", 1, FALSE)>>}}        \* unknown exchange index
  \cup {Ev("SendCancels", 0, 0, "", "", "-", 0, FALSE, "-", rs, NoFilter) :
           rs \in {<<CancelReq(0, "c1", FALSE)>>, <<CancelReq(0, "c1", TRUE), CancelReq(4, "c2", FALSE), CancelReq(5, "c1", TRUE)>>}}
  \cup {Ev(a, 0, 0, "", "", "-", 0, FALSE, "-", <<>>, f) : a \in {"CancelOrders", "ClosePositions"}, f \in Filters}
  \cup {Ev("ClosePositionsCF", 0, 0, "", "", "-", 0, FALSE, "-", <<>>, f) : f \in {NoFilter, F("Exchanges", <<0, 2>>), F("Instruments", <<0, 4>>)}}
  \cup {E0("Shutdown", 0, 0)}

\* link states of the three exchanges: all healthy; the MIDDLE exchange closed / without a link; the two OUTER ones
\* unhealthy; first missing + last closed; nothing healthy on the first two + last missing.  Every fault occurs at every position.
Links == {<<"healthy", "healthy", "healthy">>, <<"healthy", "closed", "healthy">>, <<"unhealthy", "healthy", "unhealthy">>,
          <<"healthy", "missing", "healthy">>, <<"missing", "healthy", "closed">>, <<"closed", "unhealthy", "missing">>}
Scripts == {<< <<>>, <<>> >>,
            << <<>>, <<OpenReq(0, "c2", "buy", 1)>> >>,
            << <<CancelReq(0, "c1", TRUE)>>, <<OpenReq(4, "c2", "sell", 1), OpenReq(5, "c2", "sell", 1)>> >>}
\* (refusing "c2" while the strategy asks for nothing is the same environment as refusing nothing)
MCEnvs == {Env(l, s[1], s[2], r) : l \in Links, s \in Scripts, r \in {<<>>, <<"c2">>}} \ {Env(l, <<>>, <<>>, <<"c2">>) : l \in Links}

MCEnvs1 == {Env(<<"healthy", "healthy", "healthy">>, <<>>, <<OpenReq(0, "c2", "buy", 1)>>, <<>>)}

(***************************************************************************)
(* C19 scope, exhaustively: every filter x both commands from a rich set of *)
(* engine states (any mix of untracked / in-flight / open / cancel-in-flight*)
(* orders, long / short / no position, price known / unknown), one step.    *)
(* Every subset of the three exchanges (incl. the non-adjacent {0, 2}), of   *)
(* the six instruments and of the five distinct underlyings.                *)
(***************************************************************************)
InstOf(c, k, n, p) == [orders |-> [x \in CIDS |-> IF x = c THEN k ELSE "U"], net |-> n, priced |-> p]
InstA == {InstOf("c1", k, n, p) : k \in Kinds, n \in {0, 2}, p \in BOOLEAN}
InstB == {InstOf("c2", k, 0, TRUE) : k \in {"U", "Open", "CIFo"}}
InstC == {InstOf("c2", "U", n, TRUE) : n \in {0, -1}}
InstD == {InstOf("c1", "OIF", 0, TRUE), InstOf("c1", "Open", 2, TRUE)}
\* the instrument of the LAST exchange: something to cancel and to close / only an order in flight / nothing at all
InstF == {InstOf("c2", "Open", -1, TRUE), InstOf("c2", "OIF", 0, TRUE), InstInit}
ScopeInit == /\ st \in {[trading |-> "Disabled", conn |-> StInit("Disabled").conn, inst |-> <<a, b, c, d, e, f>>] :
                          a \in InstA, b \in InstB, c \in InstC, d \in InstB, e \in InstD, f \in InstF}
             /\ seq = 0 /\ tick = NoTick /\ dl = [e \in 1..NEX |-> {}]
             /\ last = [ev |-> NoEvent, env |-> NoEnv]
NonEmptySeqs(S) == {SetToSeq(T) : T \in SUBSET S}        \* (the empty collection included: the empty scope)
AllFilters == {NoFilter} \cup {F("Exchanges", q) : q \in NonEmptySeqs({0, 1, 2})} \cup {F("Exchanges", <<2, 0>>)}
                         \cup {F("Instruments", q) : q \in NonEmptySeqs({0, 1, 2, 3, 4, 5})}
                         \cup {F("Underlyings", q) : q \in NonEmptySeqs({0, 2, 3, 4, 5})}
ScopeEvents == {Ev(a, 0, 0, "", "", "-", 0, FALSE, "-", <<>>, f) : a \in {"CancelOrders", "ClosePositions"}, f \in AllFilters}
ScopeEnvs == {Env(l, <<>>, <<>>, <<>>) : l \in {<<"healthy", "healthy", "healthy">>, <<"unhealthy", "healthy", "healthy">>}}
ScopeStep == seq = 0 /\ \E ev \in ScopeEvents, env \in ScopeEnvs : Process(ev, env)
ScopeSpec == ScopeInit /\ [][ScopeStep]_vars

(***************************************************************************)
(* C03 / C14 step properties from a rich set of engine states (not only     *)
(* those reachable within the depth bound): every event x environment of    *)
(* the alphabet, one step, trading enabled and disabled, mixed link health. *)
(***************************************************************************)
RInstA == {InstOf("c1", k, n, TRUE) : k \in Kinds, n \in {0, 2}}
RInstE == {InstOf("c2", k, n, TRUE) : k \in {"U", "Open"}, n \in {0, -1}}
RInstF == {InstOf("c1", "Open", 2, TRUE), InstOf("c2", "U", 0, FALSE)}
\* connectivity: the first exchange in every combination, the middle one healthy, the last one the mirror image of the first
ConnSet == {[global |-> IF m = "Healthy" /\ a = "Healthy" THEN "Healthy" ELSE "Reconnecting",
             ex |-> << [market |-> m, account |-> a], [market |-> "Healthy", account |-> "Healthy"], [market |-> a, account |-> m] >>] :
               m \in {"Healthy", "Reconnecting"}, a \in {"Healthy", "Reconnecting"}}
RichInit == /\ st \in {[trading |-> tr, conn |-> cn, inst |-> <<a, InstInit, InstInit, InstInit, e, f>>] :
                         tr \in {"Enabled", "Disabled"}, cn \in ConnSet, a \in RInstA, e \in RInstE, f \in RInstF}
            /\ seq = 0 /\ tick = NoTick /\ dl = [x \in 1..NEX |-> {}]
            /\ last = [ev |-> NoEvent, env |-> NoEnv]
RichStep == seq = 0 /\ \E ev \in MCEvents, env \in MCEnvs : Process(ev, env)
RichSpec == RichInit /\ [][RichStep]_vars

Bound == seq <= MaxSeq
=============================================================================
