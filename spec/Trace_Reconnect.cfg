SPECIFICATION TSpec
CONSTANTS
  MaxOutcomes = 0
  MaxBody = 0
  MaxElems = 0
  Lats = {0}
  Gaps = {0}
  Slack = {0}
  Policies = {}
  Modes = {}
INVARIANTS Done TInv
POSTCONDITION Post
CHECK_DEADLOCK FALSE
