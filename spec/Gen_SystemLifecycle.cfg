SPECIFICATION GSpec
CONSTANTS
  EXCH = {"x1", "x2"}
  NMarket = 3
  CMDS = {"c1", "c2", "c3"}
  MaxAcct = 2
  MaxTakes = 2
  FEEDMODES = {"stream", "iter"}
  AUDITMODES = {"on", "off"}
  STOPS = {"shutdown", "abort", "backtest"}
  EarlyShutdown = FALSE
INVARIANTS Emit
CHECK_DEADLOCK FALSE
