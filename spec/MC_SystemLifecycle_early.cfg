SPECIFICATION Spec
CONSTANTS
  EXCH = {"x1", "x2"}
  NMarket = 2
  CMDS = {"c1"}
  MaxAcct = 1
  MaxTakes = 2
  FEEDMODES = {"stream", "iter"}
  AUDITMODES = {"on", "off"}
  STOPS = {"shutdown", "abort", "backtest"}
  EarlyShutdown = TRUE
INVARIANTS TypeOK BacktestDrains

CHECK_DEADLOCK FALSE
