SPECIFICATION G17
CONSTANTS
  Instr = {}
  Asset = {}
  PnLs = {}
  Costs = {}
  Bals = {}
  Vals <- ValsQuick
  MaxClosed = 0
  MaxBal = 0
  MaxVals = 5
  Gaps = {}
  RFs = {}
  Ivs = {}
INVARIANT Emit17
CHECK_DEADLOCK FALSE
