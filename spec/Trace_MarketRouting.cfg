SPECIFICATION TSpec
CONSTANTS
  NMarkets = 5
  Conns <- Routes
  KeyOffs = {0, 1, 2, 3, 4}
  PRICE = {6}
  AMOUNT = {5}
  TIME = {1}
  DupKinds = {0, 1, 2}
  MaxBatch = 3
INVARIANT Done
PROPERTIES TProps
POSTCONDITION Post
CHECK_DEADLOCK FALSE
