SPECIFICATION Spec
CONSTANTS
  Values = {0, 1, 2, 3}
  NegMag = {1, 2}
  Gaps = {0, 1}
  MaxLen = 2
  MaxResets = 1
INVARIANTS TypeOK RunIsRef ReadIsCurrent ResetIsInit PeakToTrough Recovery OnePerPeak NoneIffMonotone MaxIsLargest ClassicMDD
PROPERTIES ReadingIsPure PersistIsStutter
CHECK_DEADLOCK FALSE
VIEW View
