//! C13 — market-data routing conformance driver (spec/MarketRouting.tla).
//!
//! `c13 routes`
//!     prints the route table (exchange, subscription kind, instrument kind) the driver covers and
//!     whether `exchange_supports_instrument_kind_sub_kind` admits each of them
//! `c13 run    --scenarios f.ndjson --out trace.ndjson [--routes r1,r2] [--flavours keyed,named] [--details d.ndjson]`
//!     executes TLC-generated scenarios `{evs:[Subscribe|Message|Disconnect ..]}` on every route
//! `c13 random --seed S --steps N --out trace.ndjson [...]`
//!     seeded random sessions per route (re-connections, batches of several items per message)
//!
//! For every route (connector, subscription kind, instrument kind) and instrument flavour
//! (`Keyed<u32, MarketDataInstrument>` / `MarketInstrumentData<u32>` / indexed: `IndexedInstruments` +
//! real `index_market_data_subscription_batches` -> `Keyed<InstrumentIndex, MarketDataInstrument>`):
//!   real `WebSocketSubMapper::map(&subscriptions)`
//!   -> (Bitfinex: real `BitfinexWebSocketSubValidator::validate` over a loopback websocket served by
//!      the simulated venue, so the channel-id rewrite of the map is executed)
//!   -> real transformer selected by `StreamSelector` : `ExchangeTransformer::init(map, snapshots, tx)`
//!   -> payloads synthesised by a SIMULATED VENUE, parsed by the real `WebSocketParser` into the
//!      connector's own message type -> real `Transformer::transform`
//!   -> projection of the resulting `MarketEvent`s / errors = `out` of the trace line.
//!
//! CASE-TWIN flavours (`named_ct`, `generated_ct`): the same two `name_exchange` flavours, subscribed
//! with symbols the venue lists in MIXED case, two pairs of which differ only by letter case (see
//! `twin_names`).  The venue streams and echoes such a symbol exactly as listed and refuses a request
//! that does not name a listed symbol exactly.  Routes whose connector normalises the case of
//! `name_exchange` on the way to the wire (Binance: `Connector::requests` lower-cases the stream name)
//! cannot carry case-twins and are skipped (reported as `twins_skipped`).
//!
//! The simulated venue knows nothing about the connector's internal subscription ids: it derives
//! the market name it echoes from the subscription request the connector itself produced
//! (`Connector::requests`), rendered the way the venue renders it (upper-case symbol; Bitfinex: the
//! channel id it assigned in its `subscribed` response). Wire formats are transcribed from the doc
//! comments / unit-test fixtures of each venue module (trusted input, DESIGN section 10).
//!
//! Encoding of the spec's abstract item (p, a, s, t): price = p/4, amount = a/4 (decimal strings or
//! numbers as the venue sends them), side as the venue states it (sign of the amount for Gate.io
//! futures and Bitfinex, buyer-is-maker flag for Binance), time = 2020-01-01T00:00:00Z + t time units (500 ms; 1/64 s on
//! venues whose format carries sub-millisecond times - see `Route::time_unit_ns`), compared exactly.
//! L1 books: the side s names the book side that holds (p, a); the other side holds (p+40, a+40), or -
//! "bid_only" / "ask_only" - is empty (sent as price 0 / amount 0) and must be absent in the event.
//! L2 updates: one level (p, a) on the bid (buy) or ask (sell) side; update ids follow the
//! snapshot the harness hands to `init` (sequencing itself is C06's business).
use barter_data::{
    Identifier,
    books::{Level, OrderBook},
    error::DataError,
    event::MarketEvent,
    exchange::{
        Connector, StreamSelector,
        binance::{futures::BinanceFuturesUsd, spot::BinanceSpot},
        bitfinex::Bitfinex,
        bitmex::Bitmex,
        bybit::{futures::BybitPerpetualsUsd, spot::BybitSpot},
        coinbase::Coinbase,
        gateio::{
            future::{GateioFuturesBtc, GateioFuturesUsd},
            option::GateioOptions,
            perpetual::{GateioPerpetualsBtc, GateioPerpetualsUsd},
            spot::GateioSpot,
        },
        kraken::Kraken,
        okx::Okx,
    },
    instrument::{InstrumentData, MarketInstrumentData},
    subscriber::{
        mapper::{SubscriptionMapper, WebSocketSubMapper},
        validator::SubscriptionValidator,
    },
    subscription::{
        SubKind, Subscription, SubscriptionKind,
        book::{OrderBookEvent, OrderBookL1, OrderBooksL1, OrderBooksL2},
        exchange_supports_instrument_kind_sub_kind,
        liquidation::{Liquidation, Liquidations},
        trade::{PublicTrade, PublicTrades},
    },
    transformer::ExchangeTransformer,
};
use barter_data::{
    process_buffered_events,
    streams::builder::dynamic::{
        indexed::{generate_indexed_market_data_subscription_batches, index_market_data_subscription_batches},
        validate_batches,
    },
};
use barter_instrument::{
    Keyed, Side, Underlying,
    asset::Asset,
    exchange::ExchangeId,
    index::IndexedInstruments,
    instrument::{
        Instrument, InstrumentIndex,
        kind::{
            InstrumentKind,
            future::FutureContract,
            option::{OptionContract, OptionExercise, OptionKind},
            perpetual::PerpetualContract,
        },
        quote::InstrumentQuoteAsset,
        market_data::{
            MarketDataInstrument,
            kind::{MarketDataFutureContract, MarketDataInstrumentKind, MarketDataOptionContract},
        },
        name::InstrumentNameExchange,
    },
};
use barter_integration::{
    Transformer,
    error::SocketError,
    protocol::{
        StreamParser,
        websocket::{WebSocketParser, WsMessage, connect},
    },
    stream::ExchangeStream,
    subscription::SubscriptionId,
};
use chrono::{DateTime, TimeZone, Utc};
use futures::{SinkExt, Stream, StreamExt};
use rand::Rng;
use rust_decimal::Decimal;
use serde_json::{Value, json};
use std::{
    collections::HashMap,
    net::SocketAddr,
    sync::{
        Arc, Mutex,
        atomic::{AtomicU32, Ordering},
    },
};
use vh::util::*;

const NMARKETS: usize = 5;
const SNAPSHOT_SEQ: u64 = 100;

fn epoch_ms() -> i64 {
    time(0).timestamp_millis()
}

// ------------------------------------------------------------------------------------------------
// the transformer a connector selects for (instrument, kind): projected out of StreamSelector
// ------------------------------------------------------------------------------------------------
trait HasTransformer {
    type T;
}
impl<P, S, T> HasTransformer for ExchangeStream<P, S, T>
where
    P: StreamParser,
    S: Stream,
    T: Transformer,
{
    type T = T;
}
type Tr<E, I, K> = <<E as StreamSelector<I, K>>::Stream as HasTransformer>::T;

// ------------------------------------------------------------------------------------------------
// routes = the quantifier of C13 (must equal `Routes` of spec/MarketRouting.tla)
// ------------------------------------------------------------------------------------------------
#[derive(Clone, Copy, PartialEq, Eq, Debug)]
enum Fam {
    Binance { futures: bool },
    Bitfinex,
    Bitmex,
    Bybit,
    Coinbase,
    GateioSpot,
    GateioFut,
    Kraken,
    Okx,
}

#[derive(Clone, Copy, PartialEq, Eq, Debug)]
enum SK {
    Trades,
    L1,
    L2,
    Liq,
}

#[derive(Clone, Copy, Debug)]
struct Route {
    ex: &'static str,
    kind: &'static str,
    ikind: &'static str,
    fam: Fam,
    sk: SK,
}

impl Route {
    fn name(&self) -> String {
        format!("{}/{}/{}", self.ex, self.kind, self.ikind)
    }
    fn c(&self) -> Value {
        json!([self.ex, self.kind, self.ikind])
    }
    /// does the venue's message state an exchange time? (Binance spot book ticker does not)
    fn carries_time(&self) -> bool {
        !(self.ex == "binance_spot" && self.sk == SK::L1)
    }
    /// The time unit of the route: the spec's time t is the instant epoch + t units.  Venues state
    /// times with the full precision their wire format carries, and the event must carry exactly
    /// the stated instant (compared in nanoseconds):
    ///   * integer milliseconds (Binance "T"/"E", OKX "ts", Bybit "T", Gate.io futures
    ///     "create_time_ms", Bitfinex MTS) and BitMEX's RFC 3339 with milliseconds
    ///     ("2023-02-18T09:27:59.701Z"): unit 500 ms;
    ///   * sub-millisecond formats - Kraken seconds with six decimals ("1534614057.321597"),
    ///     Coinbase RFC 3339 with microseconds ("2014-11-07T08:19:27.028459Z"), Gate.io spot
    ///     milliseconds with four decimals ("1606292218213.4578"): unit 1/64 s = 15.625 ms, so the
    ///     stated instants have a non-zero sub-millisecond part (625 / 250 / 875 us ..) and are exact
    ///     in the f64 the connectors parse seconds / milliseconds into.
    fn time_unit_ns(&self) -> i64 {
        match self.fam {
            Fam::Kraken | Fam::Coinbase | Fam::GateioSpot => 15_625_000,
            _ => 500_000_000,
        }
    }
    /// can one venue message carry several items?
    fn array(&self) -> bool {
        self.sk == SK::Trades
            && matches!(self.fam, Fam::Kraken | Fam::Okx | Fam::Bybit | Fam::GateioFut | Fam::Bitmex)
    }
    fn sub_kind(&self) -> SubKind {
        match self.sk {
            SK::Trades => SubKind::PublicTrades,
            SK::L1 => SubKind::OrderBooksL1,
            SK::L2 => SubKind::OrderBooksL2,
            SK::Liq => SubKind::Liquidations,
        }
    }
}

fn routes() -> Vec<Route> {
    use Fam::*;
    let r = |ex, kind, ikind, fam, sk| Route { ex, kind, ikind, fam, sk };
    vec![
        r("binance_spot", "public_trades", "spot", Binance { futures: false }, SK::Trades),
        r("binance_spot", "l1", "spot", Binance { futures: false }, SK::L1),
        r("binance_spot", "l2", "spot", Binance { futures: false }, SK::L2),
        r("binance_futures_usd", "public_trades", "perpetual", Binance { futures: true }, SK::Trades),
        r("binance_futures_usd", "l1", "perpetual", Binance { futures: true }, SK::L1),
        r("binance_futures_usd", "l2", "perpetual", Binance { futures: true }, SK::L2),
        r("binance_futures_usd", "liquidations", "perpetual", Binance { futures: true }, SK::Liq),
        r("bitfinex", "public_trades", "spot", Bitfinex, SK::Trades),
        r("bitmex", "public_trades", "perpetual", Bitmex, SK::Trades),
        r("bybit_spot", "public_trades", "spot", Bybit, SK::Trades),
        r("bybit_perpetuals_usd", "public_trades", "perpetual", Bybit, SK::Trades),
        r("coinbase", "public_trades", "spot", Coinbase, SK::Trades),
        r("gateio_spot", "public_trades", "spot", GateioSpot, SK::Trades),
        r("gateio_futures_usd", "public_trades", "future", GateioFut, SK::Trades),
        r("gateio_futures_btc", "public_trades", "future", GateioFut, SK::Trades),
        r("gateio_perpetuals_usd", "public_trades", "perpetual", GateioFut, SK::Trades),
        r("gateio_perpetuals_btc", "public_trades", "perpetual", GateioFut, SK::Trades),
        r("gateio_options", "public_trades", "option", GateioFut, SK::Trades),
        r("kraken", "public_trades", "spot", Kraken, SK::Trades),
        r("kraken", "l1", "spot", Kraken, SK::L1),
        r("okx", "public_trades", "spot", Okx, SK::Trades),
        r("okx", "public_trades", "future", Okx, SK::Trades),
        r("okx", "public_trades", "perpetual", Okx, SK::Trades),
        r("okx", "public_trades", "option", Okx, SK::Trades),
    ]
}

/// The market universe of a route: five instruments whose venue names contain a same-prefix pair
/// (btc/usd is a prefix of btc/usdt; the 5000 strike is a prefix of the 50000 strike; two expiries
/// of one pair), a mixed-case input name (Eth/USDT) and a name with digits (1inch).
fn universe(ikind: &str) -> Vec<MarketDataInstrument> {
    let exp1 = Utc.with_ymd_and_hms(2030, 3, 29, 8, 0, 0).unwrap();
    let exp2 = Utc.with_ymd_and_hms(2030, 6, 28, 8, 0, 0).unwrap();
    // expiries on a year boundary: the ISO-8601 week-based year of these calendar dates is the NEXT year
    // (2024-12-30 is in ISO week 2025-W01, 2025-12-30 in 2026-W01); the first one's week-year is the
    // second one's calendar year
    let yb1 = Utc.with_ymd_and_hms(2024, 12, 30, 8, 0, 0).unwrap();
    let yb2 = Utc.with_ymd_and_hms(2025, 12, 30, 8, 0, 0).unwrap();
    let fut = |e| MarketDataInstrumentKind::Future(MarketDataFutureContract { expiry: e });
    // strike in tenths (canonical decimals: 50000, 2, 2.5)
    let opt = |kind, e, strike_tenths: i64| {
        MarketDataInstrumentKind::Option(MarketDataOptionContract {
            kind,
            exercise: OptionExercise::European,
            expiry: e,
            strike: Decimal::new(strike_tenths, 1).normalize(),
        })
    };
    let mk = |b: &str, q: &str, k| MarketDataInstrument::new(b, q, k);
    match ikind {
        "spot" | "perpetual" => {
            let k = || {
                if ikind == "spot" { MarketDataInstrumentKind::Spot } else { MarketDataInstrumentKind::Perpetual }
            };
            vec![mk("btc", "usdt", k()), mk("btc", "usd", k()), mk("Eth", "USDT", k()), mk("1inch", "usdt", k()), mk("xbt", "usd", k())]
        }
        "future" => vec![
            mk("btc", "usdt", fut(yb1)),
            mk("btc", "usdt", fut(yb2)),
            mk("btc", "usd", fut(exp1)),
            mk("Eth", "USDT", fut(exp1)),
            mk("1inch", "usdt", fut(exp2)),
        ],
        "option" => vec![
            mk("btc", "usdt", opt(OptionKind::Call, yb1, 500000)),
            mk("btc", "usdt", opt(OptionKind::Call, yb2, 500000)),
            mk("btc", "usdt", opt(OptionKind::Put, yb1, 500000)),
            // the same contract with strike 2 and with the fractional strike 2.5
            mk("1inch", "Usdt", opt(OptionKind::Put, exp1, 20)),
            mk("1inch", "Usdt", opt(OptionKind::Put, exp1, 25)),
        ],
        other => usage(&format!("unknown instrument kind {other}")),
    }
}

/// CASE-TWIN listing of a route: five markets the venue lists under MIXED-CASE symbols, in the venue's
/// own symbol format of the route (derived from the canonical symbols the venue echoes for the keyed
/// flavour by renaming the base asset `BTC`):
///   market 1  kPEPE..   market 2  KPEPE..   (differ only by case; the all-upper-case one comes later)
///   market 3  KSHIB..   market 4  kSHIB..   (differ only by case; the all-upper-case one comes first)
///   market 5  the canonical symbol of market 5 (an ordinary market next to them)
/// e.g. Bybit kPEPEUSDT / KPEPEUSDT, OKX kPEPE-USDT-SWAP / KPEPE-USDT-SWAP, Bitfinex tkPEPEUSDT / tKPEPEUSDT.
/// Distinct names are simply distinct markets of the spec.
fn twin_names(canon: &[String]) -> Vec<String> {
    let re = |name: &String, base: &str| {
        if !name.contains("BTC") {
            usage(&format!("case-twin listing: the canonical symbol {name} does not contain the base asset BTC"));
        }
        name.replacen("BTC", base, 1)
    };
    vec![re(&canon[0], "kPEPE"), re(&canon[0], "KPEPE"), re(&canon[1], "KSHIB"), re(&canon[1], "kSHIB"), canon[4].clone()]
}
/// the contracts behind the case-twin listing (twins are the same kind of contract)
fn twin_universe(uni: &[MarketDataInstrument]) -> Vec<MarketDataInstrument> {
    vec![uni[0].clone(), uni[0].clone(), uni[1].clone(), uni[1].clone(), uni[4].clone()]
}
/// Connectors that normalise the case of `name_exchange` on the way to the wire cannot carry
/// case-twins: Binance `Connector::requests` lower-cases the market of every stream name
/// (exchange/binance/mod.rs), so two symbols that differ only by case are one stream there.
fn normalises_case(fam: Fam) -> bool {
    matches!(fam, Fam::Binance { .. })
}

// ------------------------------------------------------------------------------------------------
// instrument flavours
// ------------------------------------------------------------------------------------------------
/// instrument keys: the spec's key n (1..NMARKETS) as the flavour's key type
trait KeyNum: Clone + std::fmt::Debug + PartialEq + Send + Sync + 'static {
    fn num(&self) -> i64;
}
impl KeyNum for u32 {
    fn num(&self) -> i64 {
        *self as i64
    }
}
/// `InstrumentIndex(i)` is the spec's key i + 1
impl KeyNum for InstrumentIndex {
    fn num(&self) -> i64 {
        self.0 as i64 + 1
    }
}

trait Flavour: InstrumentData<Key: KeyNum> + 'static {
    const NAME: &'static str;
    /// the instruments to subscribe, one per slot (market, key) in that order (a market repeated in
    /// two consecutive slots is subscribed twice)
    fn instruments(route: &Route, uni: &[MarketDataInstrument], names: &[String], slots: &[(usize, u32)], off: i64, judge: bool) -> Result<Vec<Self>, String>;
    /// flavours whose keys are positions in a collection translate them to the spec's keys with
    /// the table built by the last `instruments` call (`None`: the key is the spec's key)
    fn keymap() -> Option<HashMap<i64, i64>> {
        None
    }
}
impl Flavour for Keyed<u32, MarketDataInstrument> {
    const NAME: &'static str = "keyed";
    fn instruments(_: &Route, uni: &[MarketDataInstrument], _: &[String], slots: &[(usize, u32)], off: i64, judge: bool) -> Result<Vec<Self>, String> {
        let _ = (off, judge);
        Ok(slots.iter().map(|(m, key)| Keyed::new(*key, uni[*m - 1].clone())).collect())
    }
}
impl Flavour for MarketInstrumentData<u32> {
    const NAME: &'static str = "named";
    fn instruments(_: &Route, uni: &[MarketDataInstrument], names: &[String], slots: &[(usize, u32)], off: i64, judge: bool) -> Result<Vec<Self>, String> {
        let _ = (off, judge);
        Ok(slots
            .iter()
            .map(|(m, key)| MarketInstrumentData { key: *key, name_exchange: InstrumentNameExchange::new(names[*m - 1].as_str()), kind: uni[*m - 1].kind.clone() })
            .collect())
    }
}
/// The INDEXED flavour, built the way the indexed dynamic stream builder builds it: an
/// `IndexedInstruments` collection holding the whole universe of the route (sorted by the builder on
/// the internal name, which is chosen so that market m gets `InstrumentIndex(key_of(m, off) - 1)`),
/// then the real `index_market_data_subscription_batches` turns the un-indexed subscriptions of
/// the slots into `Keyed<InstrumentIndex, MarketDataInstrument>` subscriptions (the index comes from
/// the indexer: a market repeated in two slots gets the same index twice).
impl Flavour for Keyed<InstrumentIndex, MarketDataInstrument> {
    const NAME: &'static str = "indexed";
    fn instruments(route: &Route, uni: &[MarketDataInstrument], names: &[String], slots: &[(usize, u32)], off: i64, judge: bool) -> Result<Vec<Self>, String> {
        let _ = judge;
        let ex = exchange_id(route.ex);
        let mut builder = IndexedInstruments::builder();
        for (j, mdi) in uni.iter().enumerate() {
            let settle = || Asset::from(mdi.quote.name().as_str());
            let kind = match &mdi.kind {
                MarketDataInstrumentKind::Spot => InstrumentKind::Spot,
                MarketDataInstrumentKind::Perpetual => InstrumentKind::Perpetual(PerpetualContract { contract_size: Decimal::ONE, settlement_asset: settle() }),
                MarketDataInstrumentKind::Future(c) => InstrumentKind::Future(FutureContract { contract_size: Decimal::ONE, settlement_asset: settle(), expiry: c.expiry }),
                MarketDataInstrumentKind::Option(c) => InstrumentKind::Option(OptionContract {
                    contract_size: Decimal::ONE,
                    settlement_asset: settle(),
                    kind: c.kind,
                    exercise: c.exercise,
                    expiry: c.expiry,
                    strike: c.strike,
                }),
            };
            builder = builder.add_instrument(Instrument::new(
                ex,
                format!("i{}", key_of(j + 1, off)),
                names[j].as_str(),
                Underlying::new(mdi.base.name().as_str(), mdi.quote.name().as_str()),
                InstrumentQuoteAsset::UnderlyingQuote,
                kind,
                None,
            ));
        }
        let indexed = builder.build();
        let batch: Vec<Subscription<ExchangeId, MarketDataInstrument, SubKind>> =
            slots.iter().map(|(m, _)| Subscription::new(ex, uni[*m - 1].clone(), route.sub_kind())).collect();
        let out = index_market_data_subscription_batches(&indexed, [batch]).map_err(|e| format!("indexing the subscriptions failed: {e}"))?;
        Ok(out.into_iter().flatten().map(|sub| sub.instrument).collect())
    }
}

thread_local! {
    /// InstrumentIndex (as KeyNum::num) -> spec key, of the collection the `generated` flavour built last
    static GENERATED_KEYS: std::cell::RefCell<HashMap<i64, i64>> = std::cell::RefCell::new(HashMap::new());
}

/// The GENERATED flavour - `init_indexed_multi_exchange_market_stream`'s way to subscriptions:
/// an `IndexedInstruments` collection over several exchanges (inserted in a shuffled order; the
/// route's exchange holds the subscribed instruments, other exchanges hold decoys - one of them
/// with the venue symbol of the route's first market), then the real
/// `generate_indexed_market_data_subscription_batches(&collection, &sub_kinds)` and the real
/// `validate_batches`; the batch of the route's exchange, restricted to the route's kind (the
/// chunking `DynamicStreams::init` does), is what the mapper gets.
/// Judged here: one batch per exchange, holding exactly that exchange's instruments x the requested
/// kinds, each keyed by the instrument's index in the collection and named by its exchange name;
/// exact duplicates (a kind requested twice) removed, every distinct subscription kept.
/// Judged by the spec: a message of a market carries the index of exactly that instrument (the
/// index is translated to the spec's key through the collection: instrument at that position).
impl Flavour for MarketInstrumentData<InstrumentIndex> {
    const NAME: &'static str = "generated";
    fn keymap() -> Option<HashMap<i64, i64>> {
        Some(GENERATED_KEYS.with(|k| k.borrow().clone()))
    }
    fn instruments(route: &Route, uni: &[MarketDataInstrument], names: &[String], slots: &[(usize, u32)], off: i64, judge: bool) -> Result<Vec<Self>, String> {
        let ex = exchange_id(route.ex);
        let kind_of = |mdi: &MarketDataInstrument| {
            let settle = || Asset::from(mdi.quote.name().as_str());
            match &mdi.kind {
                MarketDataInstrumentKind::Spot => InstrumentKind::Spot,
                MarketDataInstrumentKind::Perpetual => InstrumentKind::Perpetual(PerpetualContract { contract_size: Decimal::ONE, settlement_asset: settle() }),
                MarketDataInstrumentKind::Future(c) => InstrumentKind::Future(FutureContract { contract_size: Decimal::ONE, settlement_asset: settle(), expiry: c.expiry }),
                MarketDataInstrumentKind::Option(c) => InstrumentKind::Option(OptionContract {
                    contract_size: Decimal::ONE,
                    settlement_asset: settle(),
                    kind: c.kind,
                    exercise: c.exercise,
                    expiry: c.expiry,
                    strike: c.strike,
                }),
            }
        };
        // requested kinds: the route's kind alone, with the other of trades / L1 after or before it;
        // a market subscribed twice as the same instrument = the kind requested twice
        let k = route.sub_kind();
        let ikind = uni[0].kind.clone();
        let k2 = [SubKind::PublicTrades, SubKind::OrderBooksL1].into_iter().find(|x| *x != k && exchange_supports_instrument_kind_sub_kind(&ex, &ikind, *x));
        let distinct: std::collections::BTreeSet<usize> = slots.iter().map(|(m, _)| *m).collect();
        let mut kinds = match ((off as usize + distinct.len()) % 3, k2) {
            (1, Some(k2)) => vec![k, k2],
            (2, Some(k2)) => vec![k2, k],
            _ => vec![k],
        };
        if slots.windows(2).any(|w| w[0] == w[1]) {
            kinds.push(k);
        }
        // the instruments: one per slot key (a second instrument under a market has its own internal
        // name and the same exchange name), plus decoys on the exchanges that support the kinds
        let mut all: Vec<Instrument<ExchangeId, Asset>> = vec![];
        let mut seen = std::collections::BTreeSet::new();
        for (m, key) in slots {
            if seen.insert(*key) {
                let mdi = &uni[*m - 1];
                all.push(Instrument::new(ex, format!("i{key}"), names[*m - 1].as_str(), Underlying::new(mdi.base.name().as_str(), mdi.quote.name().as_str()),
                                         InstrumentQuoteAsset::UnderlyingQuote, kind_of(mdi), None));
            }
        }
        let decoys = [(ExchangeId::BinanceFuturesUsd, MarketDataInstrumentKind::Perpetual), (ExchangeId::BinanceSpot, MarketDataInstrumentKind::Spot),
                      (ExchangeId::Kraken, MarketDataInstrumentKind::Spot), (ExchangeId::Okx, MarketDataInstrumentKind::Perpetual)];
        for (dex, dkind) in decoys {
            if dex == ex || !kinds.iter().all(|x| exchange_supports_instrument_kind_sub_kind(&dex, &dkind, *x)) {
                continue;
            }
            for (j, (b, q)) in [("btc", "usdt"), ("sol", "usdc")].into_iter().enumerate() {
                let mdi = MarketDataInstrument::new(b, q, dkind.clone());
                let name = if j == 0 && !names[0].is_empty() { names[0].clone() } else { format!("DECOY{j}-{}", dex.as_str()) };
                all.push(Instrument::new(dex, format!("x{j}"), name.as_str(), Underlying::new(b, q), InstrumentQuoteAsset::UnderlyingQuote, kind_of(&mdi), None));
            }
        }
        // shuffled insertion order (deterministic in the subscription)
        let mut seed = (off as u64 + 1) * 2654435761 + slots.len() as u64 * 40503 + distinct.iter().sum::<usize>() as u64;
        for i in (1..all.len()).rev() {
            seed = seed.wrapping_mul(6364136223846793005).wrapping_add(1442695040888963407);
            all.swap(i, (seed >> 33) as usize % (i + 1));
        }
        let mut builder = IndexedInstruments::builder();
        for inst in all {
            builder = builder.add_instrument(inst);
        }
        let collection = builder.build();

        // the real generator and the real validation of the dynamic builder
        let generated = generate_indexed_market_data_subscription_batches(&collection, &kinds);
        let batches = validate_batches(generated).map_err(|e| format!("validate_batches rejected the generated batches: {e}"))?;

        // expected, from the collection alone
        let mut want: std::collections::BTreeMap<ExchangeId, Vec<(usize, String, String, SubKind)>> = Default::default();
        let mut kinds_set = kinds.clone();
        kinds_set.sort();
        kinds_set.dedup();
        let mut table = HashMap::new();
        for inst in collection.instruments() {
            let e = inst.value.exchange.value;
            let name_internal = inst.value.name_internal.name().to_string();
            let spec_key = if e == ex && name_internal.starts_with('i') { name_internal[1..].parse::<i64>().unwrap_or(-1) } else { 100 + inst.key.0 as i64 };
            table.insert(inst.key.num(), spec_key);
            for sk in &kinds_set {
                want.entry(e).or_default().push((inst.key.0, inst.value.name_exchange.name().to_string(), MarketDataInstrumentKind::from(&inst.value.kind).to_string(), *sk));
            }
        }
        GENERATED_KEYS.with(|k| *k.borrow_mut() = table);
        let mut got: std::collections::BTreeMap<ExchangeId, Vec<(usize, String, String, SubKind)>> = Default::default();
        let mut batch_exchanges = vec![];
        for batch in &batches {
            let exs: std::collections::BTreeSet<ExchangeId> = batch.iter().map(|s| s.exchange).collect();
            if judge && exs.len() != 1 {
                return Err(format!("generated batches differ from the collection: a batch mixes the exchanges {exs:?}"));
            }
            batch_exchanges.extend(exs);
            for sub in batch {
                got.entry(sub.exchange).or_default().push((sub.instrument.key.0, sub.instrument.name_exchange.name().to_string(), sub.instrument.kind.to_string(), sub.kind));
            }
        }
        let n = batch_exchanges.len();
        batch_exchanges.sort();
        batch_exchanges.dedup();
        if judge && batch_exchanges.len() != n {
            return Err("generated batches differ from the collection: an exchange has more than one batch".to_string());
        }
        want.values_mut().for_each(|v| v.sort());
        got.values_mut().for_each(|v| v.sort());
        if judge && want != got {
            return Err(format!("generated batches differ from the collection (exchange -> [(index, exchange name, kind, sub kind)]): generated+validated {got:?}, the collection holds {want:?}"));
        }
        // the (exchange, kind) chunk DynamicStreams::init hands to the route's connector
        Ok(batches.into_iter().flatten().filter(|s| s.exchange == ex && s.kind == k).map(|s| s.instrument).collect())
    }
}

// ------------------------------------------------------------------------------------------------
// projections: implementation output -> spec `out` records
// ------------------------------------------------------------------------------------------------
fn rec(k: &str, key: Value, ex: &str, p: Value, a: Value, s: &str, t: Value) -> Value {
    json!({"k": k, "key": key, "ex": ex, "p": p, "a": a, "s": s, "t": t})
}
fn unid() -> Value {
    rec("unid", json!(0), "", json!(0), json!(0), "", json!(0))
}
fn err(text: String) -> Value {
    rec("err", json!(0), "", json!(0), json!(0), &text, json!(0))
}

/// value -> integer count of quarter units, else a string (never a spec value)
fn units_f64(v: f64) -> Value {
    let u = v * 4.0;
    if u.is_finite() && u.fract() == 0.0 && u.abs() < 1e9 { json!(u as i64) } else { json!(format!("not-a-quarter:{v}")) }
}
fn units_dec(v: Decimal) -> Value {
    dec_json(v * Decimal::from(4))
}
fn side_str(s: Side) -> &'static str {
    match s {
        Side::Buy => "buy",
        Side::Sell => "sell",
    }
}

trait Proj {
    /// (p, a, s, inner time that must equal time_exchange if the event kind repeats it)
    fn proj(&self) -> Result<(Value, Value, &'static str, Option<DateTime<Utc>>), String>;
}
impl Proj for PublicTrade {
    fn proj(&self) -> Result<(Value, Value, &'static str, Option<DateTime<Utc>>), String> {
        Ok((units_f64(self.price), units_f64(self.amount), side_str(self.side), None))
    }
}
impl Proj for Liquidation {
    fn proj(&self) -> Result<(Value, Value, &'static str, Option<DateTime<Utc>>), String> {
        Ok((units_f64(self.price), units_f64(self.quantity), side_str(self.side), Some(self.time)))
    }
}
fn level_units(l: &Level) -> Option<(i64, i64)> {
    Some((units_dec(l.price).as_i64()?, units_dec(l.amount).as_i64()?))
}
impl Proj for OrderBookL1 {
    fn proj(&self) -> Result<(Value, Value, &'static str, Option<DateTime<Utc>>), String> {
        let units = |l: &Level| level_units(l).ok_or_else(|| format!("l1 level not in quarter units: {self:?}"));
        let (bid, ask) = match (self.best_bid, self.best_ask) {
            (Some(bid), Some(ask)) => (bid, ask),
            // one-sided book: the event states the other side as absent
            (Some(bid), None) => {
                let b = units(&bid)?;
                return Ok((json!(b.0), json!(b.1), "bid_only", Some(self.last_update_time)));
            }
            (None, Some(ask)) => {
                let a = units(&ask)?;
                return Ok((json!(a.0), json!(a.1), "ask_only", Some(self.last_update_time)));
            }
            (None, None) => return Err(format!("l1 event states neither a best bid nor a best ask: {self:?}")),
        };
        let (b, a) = (units(&bid)?, units(&ask)?);
        // the side named by the item holds (p, a), the other one (p+40, a+40)
        let (s, lo, hi) = if b.0 < a.0 { ("buy", b, a) } else { ("sell", a, b) };
        if hi != (lo.0 + 40, lo.1 + 40) {
            return Err(format!("l1 event states levels the message did not: best bid {b:?} best ask {a:?} (quarter units)"));
        }
        Ok((json!(lo.0), json!(lo.1), s, Some(self.last_update_time)))
    }
}
impl Proj for OrderBookEvent {
    fn proj(&self) -> Result<(Value, Value, &'static str, Option<DateTime<Utc>>), String> {
        let OrderBookEvent::Update(book) = self else {
            return Err("l2 snapshot where an update was sent".to_string());
        };
        let (b, a) = (book.bids().levels(), book.asks().levels());
        let (s, l) = match (b.len(), a.len()) {
            (1, 0) => ("buy", &b[0]),
            (0, 1) => ("sell", &a[0]),
            _ => return Err(format!("l2 update with {} bids / {} asks", b.len(), a.len())),
        };
        let Some(u) = level_units(l) else { return Err(format!("l2 level not in quarter units: {l:?}")) };
        Ok((json!(u.0), json!(u.1), s, None))
    }
}

/// initial snapshots a kind's transformer needs at `init`
trait KindExt: SubscriptionKind {
    fn snapshots<Key: KeyNum>(keys: &[Key], ex: ExchangeId) -> Vec<MarketEvent<Key, Self::Event>>;
}
impl KindExt for PublicTrades {
    fn snapshots<Key: KeyNum>(_: &[Key], _: ExchangeId) -> Vec<MarketEvent<Key, PublicTrade>> {
        vec![]
    }
}
impl KindExt for OrderBooksL1 {
    fn snapshots<Key: KeyNum>(_: &[Key], _: ExchangeId) -> Vec<MarketEvent<Key, OrderBookL1>> {
        vec![]
    }
}
impl KindExt for Liquidations {
    fn snapshots<Key: KeyNum>(_: &[Key], _: ExchangeId) -> Vec<MarketEvent<Key, Liquidation>> {
        vec![]
    }
}
impl KindExt for OrderBooksL2 {
    fn snapshots<Key: KeyNum>(keys: &[Key], ex: ExchangeId) -> Vec<MarketEvent<Key, OrderBookEvent>> {
        keys.iter()
            .map(|k| MarketEvent {
                time_exchange: time(0),
                time_received: time(0),
                exchange: ex,
                instrument: k.clone(),
                kind: OrderBookEvent::Snapshot(OrderBook::new(SNAPSHOT_SEQ, None, Vec::<Level>::new(), Vec::<Level>::new())),
            })
            .collect()
    }
}

// ------------------------------------------------------------------------------------------------
// the simulated venue
// ------------------------------------------------------------------------------------------------
#[derive(Clone, Copy, Debug)]
struct Item {
    p: i64,
    a: i64,
    buy: bool,
    /// L1 only: the other book side is empty ("bid_only" / "ask_only")
    only: bool,
    t: i64,
}
impl Item {
    fn from_json(v: &Value) -> Self {
        let (buy, only) = match s(v, "s") {
            "buy" => (true, false),
            "sell" => (false, false),
            "bid_only" => (true, true),
            "ask_only" => (false, true),
            other => usage(&format!("unknown side {other}")),
        };
        Item { p: i(v, "p"), a: i(v, "a"), buy, only, t: i(v, "t") }
    }
    fn json(&self) -> Value {
        let s = match (self.buy, self.only) {
            (true, false) => "buy",
            (false, false) => "sell",
            (true, true) => "bid_only",
            (false, true) => "ask_only",
        };
        json!({"p": self.p, "a": self.a, "s": s, "t": self.t})
    }
    /// the instant the venue states for this item, in ns since the Unix epoch: the epoch of the
    /// harness + t time units of the route (see `Route::time_unit_ns`)
    fn ns(&self, route: &Route) -> i64 {
        epoch_ms() * 1_000_000 + self.t * route.time_unit_ns()
    }
}

/// quarter units -> decimal string with two places ("1.50")
fn q2(v: i64) -> String {
    format!("{}.{:02}", v / 4, (v % 4) * 25)
}
fn qf(v: i64) -> f64 {
    v as f64 / 4.0
}
fn rfc3339(ns: i64, frac: &str) -> String {
    DateTime::<Utc>::from_timestamp_nanos(ns).format(&format!("%Y-%m-%dT%H:%M:%S{frac}Z")).to_string()
}
/// seconds with six decimals (Kraken: "1534614057.321597")
fn secs_str(ns: i64) -> String {
    format!("{}.{:06}", ns / 1_000_000_000, (ns % 1_000_000_000) / 1000)
}

/// A market as the venue lists it: the channel and the symbol it echoes in data messages.
#[derive(Clone, Debug)]
struct Listed {
    channel: String,
    echo: String,
}

/// How the venue renders a symbol it was asked for (all eight venues echo upper-case symbols;
/// Bitfinex keeps the lower-case `t` prefix of trading pairs).
fn echo_of(fam: Fam, token: &str) -> String {
    match fam {
        Fam::Bitfinex if token.starts_with('t') => format!("t{}", token[1..].to_uppercase()),
        _ => token.to_uppercase(),
    }
}

/// The venue's own symbol of a dated contract: everything but the expiry is taken from the connector's
/// request (upper-cased), the expiry component is rendered by the venue from the contract's CALENDAR
/// expiry date in the venue's documented format -
///   OKX     YYMMDD   ("230526" = 26th of May 2023,   doc comment of okx/market.rs::format_expiry;
///                     "BTC-USD-191227", "BTC-USD-231229-35000-C" in okx/subscription.rs, okx/trade.rs)
///   Gate.io YYYYMMDD ("20241231" = 31st of December 2024, doc comment of gateio/market.rs::format_expiry;
///                     "ETH_USDT_QUARTERLY_20201225" in gateio/perpetual/trade.rs)
/// - independently of how the connector formatted it.  Likewise the STRIKE component of an option
/// symbol is the canonical decimal string of the contract's strike, without trailing zeros and with
/// its fraction ("BTC-USD-231229-35000-C" in okx/trade.rs; a 2.5 strike is "...-2.5-C"), rendered by
/// the venue from the contract's strike.
fn venue_symbol(route: &Route, inst: &MarketDataInstrument, echo: String) -> Result<String, String> {
    use chrono::Datelike;
    let (expiry, option) = match &inst.kind {
        MarketDataInstrumentKind::Future(c) => (c.expiry, false),
        MarketDataInstrumentKind::Option(c) => (c.expiry, true),
        _ => return Ok(echo),
    };
    let echo = match (&inst.kind, route.fam) {
        (MarketDataInstrumentKind::Option(c), Fam::Okx | Fam::GateioFut) => {
            let idx = if route.fam == Fam::Okx { 3 } else { 2 };
            let mut parts: Vec<String> = echo.split('-').map(|x| x.to_string()).collect();
            match parts.get(idx) {
                Some(x) if !x.is_empty() && x.chars().all(|c| c.is_ascii_digit() || c == '.') => parts[idx] = c.strike.normalize().to_string(),
                _ => return Err(format!("no strike component at position {idx} of the requested symbol {echo}")),
            }
            parts.join("-")
        }
        _ => echo,
    };
    let d = expiry.date_naive();
    // (separator, index of the expiry component, rendered expiry)
    let (sep, idx, text) = match route.fam {
        Fam::Okx => ('-', 2, format!("{:02}{:02}{:02}", d.year() % 100, d.month(), d.day())),
        Fam::GateioFut if option => ('-', 1, format!("{:04}{:02}{:02}", d.year(), d.month(), d.day())),
        Fam::GateioFut => ('_', 3, format!("{:04}{:02}{:02}", d.year(), d.month(), d.day())),
        _ => return Ok(echo),
    };
    let mut parts: Vec<String> = echo.split(sep).map(|x| x.to_string()).collect();
    match parts.get(idx) {
        Some(x) if x.len() == text.len() && x.chars().all(|c| c.is_ascii_digit()) => parts[idx] = text,
        _ => return Err(format!("no expiry component at position {idx} of the requested symbol {echo}")),
    }
    Ok(parts.join(&sep.to_string()))
}

/// The (channel, market) tokens of the subscription requests a connector produced.
fn parse_requests(fam: Fam, msgs: &[WsMessage]) -> Result<Vec<(String, String)>, String> {
    let mut out = vec![];
    let st = |v: &Value| v.as_str().map(|x| x.to_string()).ok_or_else(|| format!("not a string: {v}"));
    for m in msgs {
        let WsMessage::Text(text) = m else { return Err(format!("non-text subscription request {m:?}")) };
        let v: Value = serde_json::from_str(text.as_str()).map_err(|e| format!("request is not JSON: {e}"))?;
        let arr = |k: &str| v.get(k).and_then(|x| x.as_array()).cloned().ok_or_else(|| format!("request without array `{k}`: {v}"));
        match fam {
            Fam::Binance { .. } => {
                for p in arr("params")? {
                    let p = st(&p)?;
                    let (mk, ch) = p.split_once('@').ok_or_else(|| format!("stream name without @: {p}"))?;
                    out.push((format!("@{ch}"), mk.to_string()));
                }
            }
            Fam::Kraken => {
                let ch = st(&v["subscription"]["name"])?;
                for p in arr("pair")? {
                    out.push((ch.clone(), st(&p)?));
                }
            }
            Fam::Okx => {
                for a in arr("args")? {
                    out.push((st(&a["channel"])?, st(&a["instId"])?));
                }
            }
            Fam::Coinbase => {
                for ch in arr("channels")? {
                    for p in arr("product_ids")? {
                        out.push((st(&ch)?, st(&p)?));
                    }
                }
            }
            Fam::Bybit => {
                for a in arr("args")? {
                    let a = st(&a)?;
                    let (ch, mk) = a.split_once('.').ok_or_else(|| format!("topic without '.': {a}"))?;
                    out.push((ch.to_string(), mk.to_string()));
                }
            }
            Fam::GateioSpot | Fam::GateioFut => {
                let ch = st(&v["channel"])?;
                for p in arr("payload")? {
                    out.push((ch.clone(), st(&p)?));
                }
            }
            Fam::Bitmex => {
                for a in arr("args")? {
                    let a = st(&a)?;
                    let (ch, mk) = a.split_once(':').ok_or_else(|| format!("topic without ':': {a}"))?;
                    out.push((ch.to_string(), mk.to_string()));
                }
            }
            Fam::Bitfinex => out.push((st(&v["channel"])?, st(&v["symbol"])?)),
        }
    }
    Ok(out)
}

/// L1 encoding: (bid price, bid amount, ask price, ask amount) in quarter units
fn l1_levels(it: &Item) -> (i64, i64, i64, i64) {
    // an empty side is sent as price 0 / amount 0 (what the connectors' `is_zero` guards expect)
    let other = if it.only { (0, 0) } else { (it.p + 40, it.a + 40) };
    if it.buy { (it.p, it.a, other.0, other.1) } else { (other.0, other.1, it.p, it.a) }
}

/// One venue message about `mk` carrying `items` (exactly one item unless `route.array()`).
/// `seq`: last update id of the market's L2 stream; `chan`: Bitfinex channel id; `n`: message counter.
fn payload(route: &Route, mk: &Listed, items: &[Item], seq: u64, chan: u32, n: u64) -> String {
    let it = &items[0];
    let ns = |x: &Item| x.ns(route);
    let msx = |x: &Item| x.ns(route) / 1_000_000;
    let ms = msx(it);
    let echo = mk.echo.as_str();
    let ch = mk.channel.as_str();
    let side_lc = |x: &Item| if x.buy { "buy" } else { "sell" };
    let side_cap = |x: &Item| if x.buy { "Buy" } else { "Sell" };
    let v = match (route.fam, route.sk) {
        (Fam::Binance { futures: false }, SK::Trades) => json!({
            "e": "trade", "E": ms + 3, "s": echo, "t": n, "p": q2(it.p), "q": q2(it.a), "b": 10108767791u64,
            "a": 10108764858u64, "T": ms, "m": !it.buy, "M": true}),
        (Fam::Binance { futures: true }, SK::Trades) => json!({
            "e": "trade", "E": ms + 3, "T": ms, "s": echo, "t": n, "p": q2(it.p), "q": q2(it.a), "X": "MARKET", "m": !it.buy}),
        (Fam::Binance { futures }, SK::L1) => {
            let (bp, ba, ap, aa) = l1_levels(it);
            if futures {
                json!({"e": "bookTicker", "u": n, "s": echo, "b": q2(bp), "B": q2(ba), "a": q2(ap), "A": q2(aa), "T": ms, "E": ms + 3})
            } else {
                json!({"u": n, "s": echo, "b": q2(bp), "B": q2(ba), "a": q2(ap), "A": q2(aa)})
            }
        }
        (Fam::Binance { futures }, SK::L2) => {
            let lvl = json!([[q2(it.p), q2(it.a)]]);
            let (b, a) = if it.buy { (lvl, json!([])) } else { (json!([]), lvl) };
            if futures {
                json!({"e": "depthUpdate", "E": ms, "T": ms, "s": echo, "U": seq, "u": seq + 1, "pu": seq, "b": b, "a": a})
            } else {
                json!({"e": "depthUpdate", "E": ms, "s": echo, "U": seq + 1, "u": seq + 1, "b": b, "a": a})
            }
        }
        (Fam::Binance { .. }, SK::Liq) => json!({
            "e": "forceOrder", "E": ms + 3,
            "o": {"s": echo, "S": if it.buy { "BUY" } else { "SELL" }, "o": "LIMIT", "f": "IOC", "q": q2(it.a), "p": q2(it.p),
                  "ap": q2(it.p), "X": "FILLED", "l": q2(it.a), "z": q2(it.a), "T": ms}}),
        (Fam::Kraken, SK::Trades) => {
            let trades: Vec<Value> = items
                .iter()
                .map(|x| json!([format!("{}000", q2(x.p)), format!("{}000000", q2(x.a)), secs_str(ns(x)), if x.buy { "b" } else { "s" }, "l", ""]))
                .collect();
            json!([0, trades, ch, echo])
        }
        (Fam::Kraken, SK::L1) => {
            let (bp, ba, ap, aa) = l1_levels(it);
            json!([0, [format!("{}000", q2(bp)), format!("{}000", q2(ap)), secs_str(ns(it)), format!("{}000000", q2(ba)), format!("{}000000", q2(aa))], ch, echo])
        }
        (Fam::Okx, SK::Trades) => {
            let data: Vec<Value> = items
                .iter()
                .enumerate()
                .map(|(j, x)| json!({"instId": echo, "tradeId": (n * 10 + j as u64).to_string(), "px": q2(x.p), "sz": q2(x.a), "side": side_lc(x), "ts": msx(x).to_string()}))
                .collect();
            json!({"arg": {"channel": ch, "instId": echo}, "data": data})
        }
        (Fam::Coinbase, SK::Trades) => json!({
            "type": "match", "trade_id": n, "sequence": n + 50, "maker_order_id": "ac928c66-ca53-498f-9c13-a110027a60e8",
            "taker_order_id": "132fb6ae-456b-4654-b4e0-d681ac05cea1", "time": rfc3339(ns(it), "%.6f"), "product_id": echo,
            "size": q2(it.a), "price": q2(it.p), "side": side_lc(it)}),
        (Fam::Bybit, SK::Trades) => {
            let data: Vec<Value> = items
                .iter()
                .enumerate()
                .map(|(j, x)| json!({"T": msx(x), "s": echo, "S": side_cap(x), "v": q2(x.a), "p": q2(x.p), "L": "PlusTick",
                                     "i": format!("20f43950-d8dd-5b31-9112-{:012}", n * 10 + j as u64), "BT": false}))
                .collect();
            json!({"topic": format!("{ch}.{echo}"), "type": "snapshot", "ts": ms, "data": data})
        }
        (Fam::GateioSpot, SK::Trades) => json!({
            "time": ms / 1000, "time_ms": ms + 3, "channel": ch, "event": "update",
            "result": {"id": n, "create_time": ms / 1000, "create_time_ms": format!("{}.{:04}", ms, (ns(it) % 1_000_000) / 100), "side": side_lc(it),
                       "currency_pair": echo, "amount": q2(it.a), "price": q2(it.p)}}),
        (Fam::GateioFut, SK::Trades) => {
            let data: Vec<Value> = items
                .iter()
                .enumerate()
                .map(|(j, x)| json!({"size": if x.buy { qf(x.a) } else { -qf(x.a) }, "id": n * 10 + j as u64, "create_time": msx(x) / 1000,
                                     "create_time_ms": msx(x), "price": q2(x.p), "contract": echo}))
                .collect();
            json!({"time": ms / 1000, "time_ms": ms + 3, "channel": ch, "event": "update", "result": data})
        }
        (Fam::Bitmex, SK::Trades) => {
            let data: Vec<Value> = items
                .iter()
                .enumerate()
                .map(|(j, x)| json!({"timestamp": rfc3339(ns(x), "%.3f"), "symbol": echo, "side": side_cap(x), "size": qf(x.a), "price": qf(x.p),
                                     "tickDirection": "MinusTick", "trdMatchID": format!("31e50cb7-e005-a44e-f354-{:012}", n * 10 + j as u64),
                                     "grossValue": 814184, "homeNotional": 0.00814184, "foreignNotional": 200, "trdType": "Regular"}))
                .collect();
            json!({"table": ch, "action": "insert", "data": data})
        }
        (Fam::Bitfinex, SK::Trades) => json!([chan, "te", [n, ms, if it.buy { qf(it.a) } else { -qf(it.a) }, qf(it.p)]]),
        (f, k) => usage(&format!("no wire format for {f:?}/{k:?}")),
    };
    v.to_string()
}

/// The Bitfinex side of the subscription handshake, served over a loopback websocket so that the
/// connector's own validator performs the channel-id rewrite of the instrument map.
#[derive(Clone)]
struct Bfx {
    addr: SocketAddr,
    assigned: Arc<Mutex<HashMap<String, u32>>>,
    /// case-twin flavours: the venue lists mixed-case symbols and echoes a symbol exactly as listed
    exact: Arc<std::sync::atomic::AtomicBool>,
}

async fn bfx_server() -> Bfx {
    let listener = tokio::net::TcpListener::bind("127.0.0.1:0").await.expect("bind loopback");
    let addr = listener.local_addr().unwrap();
    let assigned: Arc<Mutex<HashMap<String, u32>>> = Arc::default();
    let next = Arc::new(AtomicU32::new(420_000));
    let shared = assigned.clone();
    let exact: Arc<std::sync::atomic::AtomicBool> = Arc::default();
    let exact_shared = exact.clone();
    tokio::spawn(async move {
        loop {
            let Ok((stream, _)) = listener.accept().await else { continue };
            let _ = stream.set_nodelay(true);
            let assigned = shared.clone();
            let next = next.clone();
            let exact = exact_shared.clone();
            tokio::spawn(async move {
                let Ok(mut ws) = tokio_tungstenite::accept_async(stream).await else { return };
                let info = json!({"event": "info", "version": 2, "serverId": "sim-0001", "platform": {"status": 1}});
                if ws.send(WsMessage::text(info.to_string())).await.is_err() {
                    return;
                }
                let mut seen = std::collections::HashSet::new();
                while let Some(Ok(msg)) = ws.next().await {
                    let WsMessage::Text(text) = msg else { continue };
                    let Ok(v) = serde_json::from_str::<Value>(text.as_str()) else { continue };
                    if v["event"] != "subscribe" {
                        continue;
                    }
                    let symbol = if exact.load(Ordering::SeqCst) { v["symbol"].as_str().unwrap_or("").to_string() } else { echo_of(Fam::Bitfinex, v["symbol"].as_str().unwrap_or("")) };
                    // a second subscribe for a symbol already subscribed on this connection changes
                    // nothing (the venue keeps the one channel)
                    if !seen.insert(symbol.clone()) {
                        continue;
                    }
                    let channel = v["channel"].as_str().unwrap_or("").to_string();
                    // channel ids are per connection and unrelated to anything the client knows
                    let id = next.fetch_add(7, Ordering::SeqCst);
                    assigned.lock().unwrap().insert(symbol.clone(), id);
                    let pair = symbol.trim_start_matches('t').to_string();
                    let ok = json!({"event": "subscribed", "channel": channel, "chanId": id, "symbol": symbol, "pair": pair});
                    // the venue then sends the channel's snapshot: [CHANNEL_ID, [[ID, MTS, AMOUNT, PRICE], ..]]
                    let snap = json!([id, [[1, epoch_ms(), 0.25, 1.5], [2, epoch_ms(), -0.25, 1.5]]]);
                    if ws.send(WsMessage::text(ok.to_string())).await.is_err() || ws.send(WsMessage::text(snap.to_string())).await.is_err() {
                        return;
                    }
                }
            });
        }
    });
    Bfx { addr, assigned, exact }
}

// ------------------------------------------------------------------------------------------------
// one connection of one route
// ------------------------------------------------------------------------------------------------
struct Session<T> {
    transformer: T,
    chan: HashMap<String, u32>,
    seq: [u64; NMARKETS],
    requests: Vec<String>,
    map_ids: Vec<String>,
    /// the requests named other markets than the venue's symbols of the subscribed instruments
    request_mismatch: Option<Value>,
    /// translation of collection positions to the spec's keys (`generated` flavour)
    keymap: Option<HashMap<i64, i64>>,
}

fn key_of(m: usize, off: i64) -> u32 {
    (((m as i64 - 1 + off) % NMARKETS as i64) + 1) as u32
}

/// one slot per subscription: market m with key `key_of(m, off)`; the repeated market `d` (0: none)
/// occupies two consecutive slots - `dk` 1: the same instrument again, 2: a second instrument with
/// the key NMARKETS + 1 that resolves to the same market
fn slots_of(markets: &[usize], off: i64, d: usize, dk: i64) -> Vec<(usize, u32)> {
    let mut v = vec![];
    for m in markets {
        v.push((*m, key_of(*m, off)));
        if *m == d && dk > 0 {
            v.push((*m, if dk == 2 { NMARKETS as u32 + 1 } else { key_of(*m, off) }));
        }
    }
    v
}

fn make_subs<E, I, K>(route: &Route, kind: &K, uni: &[MarketDataInstrument], names: &[String], slots: &[(usize, u32)], off: i64, judge: bool) -> Result<Vec<Subscription<E, I, K>>, String>
where
    E: Connector,
    I: Flavour,
    K: SubscriptionKind,
{
    let instruments = I::instruments(route, uni, names, slots, off, judge)?;
    if I::NAME != "generated" && instruments.len() != slots.len() {
        return Err(format!("{} instruments for {} subscriptions", instruments.len(), slots.len()));
    }
    // the conversion DynamicStreams::init performs for the (ExchangeId, SubKind) arm
    Ok(instruments.into_iter().map(|i| Subscription::new(E::default(), i, kind.clone())).collect())
}

/// The venue's listing: for every market of the universe the (channel, symbol) the venue would use,
/// derived from the subscription request the connector produces for that instrument alone.
fn listing<E, I, K>(route: &Route, kind: &K, uni: &[MarketDataInstrument], names: &[String], exact: bool) -> Result<Vec<Listed>, String>
where
    E: Connector,
    I: Flavour,
    K: SubscriptionKind,
    Subscription<E, I, K>: Identifier<E::Channel> + Identifier<E::Market>,
{
    (1..=NMARKETS)
        .map(|m| {
            // (off = 2: the `generated` flavour then requests the route's kind alone; what the generator
            //  makes of its collection is judged at Subscribe, not while the venue's listing is read)
            let subs = make_subs::<E, I, K>(route, kind, uni, names, &slots_of(&[m], 2, 0, 0), 2, false)?;
            let meta = WebSocketSubMapper::map::<E, I, K>(&subs);
            let toks = parse_requests(route.fam, &meta.ws_subscriptions)?;
            match toks.as_slice() {
                // case-twin flavours: the listing is given - the venue lists (and echoes) exactly the symbol
                // the instrument is named by; only the channel is read from the connector's request
                [(ch, _)] if exact => Ok(Listed { channel: ch.clone(), echo: names[m - 1].clone() }),
                [(ch, mk)] => Ok(Listed { channel: ch.clone(), echo: venue_symbol(route, &uni[m - 1], echo_of(route.fam, mk))? }),
                other => Err(format!("request for one instrument names {} markets: {other:?}", other.len())),
            }
        })
        .collect()
}

async fn subscribe<E, I, K>(
    route: &Route,
    kind: &K,
    uni: &[MarketDataInstrument],
    names: &[String],
    list: &[Listed],
    markets: &[usize],
    off: i64,
    dup: (usize, i64),
    bfx: &Bfx,
    exact: bool,
) -> Result<Session<Tr<E, I, K>>, String>
where
    E: Connector + StreamSelector<I, K> + Send + Sync,
    I: Flavour,
    K: KindExt + Send + Sync,
    <E as StreamSelector<I, K>>::Stream: HasTransformer,
    Tr<E, I, K>: ExchangeTransformer<E, I::Key, K>,
    Subscription<E, I, K>: Identifier<E::Channel> + Identifier<E::Market>,
{
    let subs = make_subs::<E, I, K>(route, kind, uni, names, &slots_of(markets, off, dup.0, dup.1), off, true)?;
    let meta = WebSocketSubMapper::map::<E, I, K>(&subs);
    let requests: Vec<String> = meta.ws_subscriptions.iter().map(|m| m.to_string()).collect();
    let mut map_ids: Vec<String> = meta.instrument_map.0.keys().map(|k| k.0.to_string()).collect();
    map_ids.sort();

    // the venue reads the requests: they must name exactly the subscribed markets of its listing
    let mut asked: Vec<(String, String)> =
        parse_requests(route.fam, &meta.ws_subscriptions)?.into_iter().map(|(ch, mk)| if exact { (ch, mk) } else { (ch, echo_of(route.fam, &mk)) }).collect();
    let mut want: Vec<(String, String)> = markets.iter().map(|m| (list[*m - 1].channel.clone(), list[*m - 1].echo.clone())).collect();
    // (a market subscribed twice may be requested once or twice)
    asked.sort();
    asked.dedup();
    want.sort();
    // the venue subscribes what it was asked for; a symbol it does not list is refused
    if let Some(unknown) = asked.iter().find(|a| !list.iter().any(|l| (&l.channel, &l.echo) == (&a.0, &a.1))) {
        return Err(format!("subscription refused: the venue lists no market {unknown:?} (asked {asked:?}, subscribed instruments are {want:?})"));
    }
    let request_mismatch = if asked != want { Some(json!({"requests_name": asked, "venue_symbols_of_subscribed_instruments": want})) } else { None };

    let mut chan = HashMap::new();
    let map = if route.fam == Fam::Bitfinex {
        bfx.assigned.lock().unwrap().clear();
        bfx.exact.store(exact, Ordering::SeqCst);
        let mut ws = connect(format!("ws://{}", bfx.addr)).await.map_err(|e| format!("loopback connect: {e}"))?;
        for m in meta.ws_subscriptions.iter().cloned() {
            ws.send(m).await.map_err(|e| format!("loopback send: {e}"))?;
        }
        let (map, _buffered) = <E::SubValidator as SubscriptionValidator>::validate::<E, I::Key, K>(meta.instrument_map, &mut ws)
            .await
            .map_err(|e| format!("subscription validation failed: {e}"))?;
        chan = bfx.assigned.lock().unwrap().clone();
        map
    } else {
        meta.instrument_map
    };

    let keys: Vec<I::Key> = subs.iter().map(|s| s.instrument.key().clone()).collect();
    let snapshots = K::snapshots(&keys, E::ID);
    let (tx, _rx) = tokio::sync::mpsc::unbounded_channel();
    let transformer = <Tr<E, I, K> as ExchangeTransformer<E, I::Key, K>>::init(map, &snapshots, tx)
        .await
        .map_err(|e| format!("transformer init failed: {e}"))?;
    Ok(Session { transformer, chan, seq: [SNAPSHOT_SEQ; NMARKETS], requests, map_ids, request_mismatch, keymap: I::keymap() })
}

fn unid_prefix() -> String {
    // DataError::Socket carries the SocketError's own text
    let s = SocketError::Unidentifiable(SubscriptionId::from("\u{1}")).to_string();
    s.split('\u{1}').next().unwrap_or("").to_string()
}

/// parse with the real `WebSocketParser`, transform with the real transformer, project
fn feed<T, Key, Ev>(route: &Route, keymap: Option<&HashMap<i64, i64>>, t: &mut T, text: &str, out: &mut Vec<Value>)
where
    T: Transformer<Output = MarketEvent<Key, Ev>, Error = DataError>,
    Key: KeyNum,
    Ev: Proj,
{
    if WebSocketParser::parse::<T::Input>(Ok(WsMessage::Ping(vec![1u8].into()))).is_some() {
        out.push(err("a ping frame is not skipped by the parser".to_string()));
    }
    let input = match WebSocketParser::parse::<T::Input>(Ok(WsMessage::text(text.to_string()))) {
        Some(Ok(input)) => input,
        Some(Err(e)) => {
            out.push(err(format!("the connector's message type does not parse the venue message: {e}")));
            return;
        }
        None => return,
    };
    let results = match catch(move || t.transform(input).into_iter().collect::<Vec<_>>()) {
        Ok(r) => r,
        Err(p) => {
            out.push(err(format!("panic in transform: {p}")));
            return;
        }
    };
    out.extend(results.into_iter().map(|r| project(route, keymap, r)));
}

/// The buffered path of `MarketStream::init`: frames received while the subscriptions were being
/// validated are replayed through the new transformer by the public `process_buffered_events`.
/// Ping / pong frames and a text frame no connector message type parses are skipped by design; the
/// data messages must come out exactly as on the live path.
fn feed_buffered<T, Key, Ev>(route: &Route, keymap: Option<&HashMap<i64, i64>>, t: &mut T, texts: &[String], out: &mut Vec<Value>)
where
    T: Transformer<Output = MarketEvent<Key, Ev>, Error = DataError>,
    Key: KeyNum,
    Ev: Proj,
{
    let mut frames = vec![WsMessage::Ping(vec![1u8, 2, 3].into())];
    frames.extend(texts.iter().map(|x| WsMessage::text(x.clone())));
    frames.push(WsMessage::text(json!({"c13": "a frame that is not a market-data message"}).to_string()));
    frames.push(WsMessage::Pong(vec![4u8].into()));
    match catch(move || process_buffered_events::<WebSocketParser, T>(t, frames).into_iter().collect::<Vec<_>>()) {
        Ok(results) => out.extend(results.into_iter().map(|r| project(route, keymap, r))),
        Err(p) => out.push(err(format!("panic in process_buffered_events: {p}"))),
    }
}

/// one output of the transformer -> spec `out` record
fn project<Key, Ev>(route: &Route, keymap: Option<&HashMap<i64, i64>>, r: Result<MarketEvent<Key, Ev>, DataError>) -> Value
where
    Key: KeyNum,
    Ev: Proj,
{
    let prefix = unid_prefix();
    {
        match r {
            Ok(ev) => match ev.kind.proj() {
                Err(text) => err(text),
                Ok((p, a, s, inner)) => {
                    if inner.is_some_and(|x| x != ev.time_exchange) {
                        err(format!("event kind time {:?} differs from time_exchange {}", inner, ev.time_exchange))
                    } else {
                        let t = if route.carries_time() {
                            // exact, in nanoseconds: the event's instant must be the stated one
                            let d = ev.time_exchange.timestamp_nanos_opt().map(|n| n - epoch_ms() * 1_000_000);
                            match d {
                                Some(d) if d % route.time_unit_ns() == 0 => json!(d / route.time_unit_ns()),
                                _ => json!(format!("not-a-stated-instant:{}", ev.time_exchange.format("%Y-%m-%dT%H:%M:%S%.9fZ"))),
                            }
                        } else {
                            json!(0)
                        };
                        let key = match keymap {
                            None => ev.instrument.num(),
                            // a position that is not in the collection at all is no spec key either
                            Some(map) => map.get(&ev.instrument.num()).copied().unwrap_or(1000 + ev.instrument.num()),
                        };
                        rec("ev", json!(key), ev.exchange.as_str(), p, a, s, t)
                    }
                }
            },
            Err(DataError::Socket(s)) if s.starts_with(&prefix) => unid(),
            Err(e) => err(format!("error: {e}")),
        }
    }
}

// ------------------------------------------------------------------------------------------------
// driver
// ------------------------------------------------------------------------------------------------
enum Work {
    Scenarios(Vec<Value>),
    Random { seed: u64, steps: usize },
}

struct Ctx {
    out: Out,
    details: Option<Out>,
    work: Work,
    flavours: Vec<String>,
    onesided: String,
    stats: serde_json::Map<String, Value>,
    /// route/flavour pairs of the case-twin flavours skipped because the connector normalises the case
    twins_skipped: Vec<String>,
}

impl Ctx {
    /// `x` = (repeated market, kind of repetition, buffered)
    fn line(&mut self, route: &Route, fl: &str, a: &str, markets: &[usize], off: i64, x: (usize, i64, bool), m: usize, fs: &[Item], out: Vec<Value>, detail: Value) {
        let fsj: Vec<Value> = fs.iter().map(|x| x.json()).collect();
        self.out.line(&json!({"a": a, "c": route.c(), "fl": fl, "S": markets, "off": off, "d": x.0, "dk": x.1, "buf": x.2, "m": m, "fs": fsj, "out": out}));
        if let Some(d) = self.details.as_mut() {
            let n = self.out.lines;
            d.line(&json!({"line": n, "a": a, "route": route.name(), "fl": fl, "detail": detail}));
        }
    }
    fn bump(&mut self, key: &str, field: &str, by: u64) {
        let e = self.stats.entry(key.to_string()).or_insert_with(|| json!({}));
        let cur = e.get(field).and_then(|x| x.as_u64()).unwrap_or(0);
        e[field] = json!(cur + by);
    }
}

struct Live<T> {
    sess: Session<T>,
    markets: Vec<usize>,
}

async fn run_flavour<E, I, K>(kind: K, route: &Route, names: &[String], ctx: &mut Ctx, bfx: &Bfx, twins: bool) -> Vec<String>
where
    E: Connector + StreamSelector<I, K> + Send + Sync,
    I: Flavour,
    K: KindExt + Send + Sync,
    K::Event: Proj,
    <E as StreamSelector<I, K>>::Stream: HasTransformer,
    Tr<E, I, K>: ExchangeTransformer<E, I::Key, K>,
    Subscription<E, I, K>: Identifier<E::Channel> + Identifier<E::Market>,
{
    let fl_name = if twins { format!("{}_ct", I::NAME) } else { I::NAME.to_string() };
    let fl = fl_name.as_str();
    let uni = if twins { twin_universe(&universe(route.ikind)) } else { universe(route.ikind) };
    let twin = if twins { twin_names(names) } else { vec![] };
    let names: &[String] = if twins { &twin } else { names };
    if twins && !ctx.flavours.iter().any(|f| f == fl) {
        return names.to_vec();
    }
    if twins && normalises_case(route.fam) {
        ctx.twins_skipped.push(format!("{}/{}", route.name(), fl));
        return names.to_vec();
    }
    let list = match listing::<E, I, K>(route, &kind, &uni, names, twins) {
        Ok(l) => l,
        Err(e) => usage(&format!("{}: the simulated venue cannot read the connector's subscription request: {e}", route.name())),
    };
    let echoes: Vec<String> = list.iter().map(|l| l.echo.clone()).collect();
    if !ctx.flavours.iter().any(|f| f == fl) {
        return echoes;
    }
    let key = format!("{}/{}", route.name(), fl);
    let mut n_msg: u64 = 1000;
    let mut live: Option<Live<Tr<E, I, K>>> = None;
    // a failing subscription may cost the validator's timeout: after three failures the route is
    // reported as failing without further attempts
    let mut sub_failures: Vec<String> = vec![];

    // one step of a scenario / of the random driver
    macro_rules! step {
        ($a:expr, $markets:expr, $off:expr, $x:expr, $m:expr, $fs:expr) => {{
            let (a, markets, off, x, m, fs): (&str, Vec<usize>, i64, (usize, i64, bool), usize, Vec<Item>) = ($a, $markets, $off, $x, $m, $fs);
            const NOX: (usize, i64, bool) = (0, 0, false);
            match a {
                "Subscribe" => {
                    live = None;
                    let attempt = if sub_failures.len() >= 3 {
                        Err(format!("{} (not retried)", sub_failures[0]))
                    } else {
                        subscribe::<E, I, K>(route, &kind, &uni, names, &list, &markets, off, (x.0, x.1), bfx, twins).await
                    };
                    match attempt {
                        Ok(sess) => {
                            let d = json!({"requests": sess.requests, "internal_subscription_ids": sess.map_ids, "venue_channel_ids": sess.chan,
                                           "subscriptions_in_order": slots_of(&markets, off, x.0, x.1).iter().map(|(m, k)| format!("{} (key {}, venue symbol {})", uni[*m - 1], k, list[*m - 1].echo)).collect::<Vec<_>>()});
                            if let Some(mm) = &sess.request_mismatch {
                                ctx.bump(&key, "request_mismatch", 1);
                                let e = ctx.stats.get_mut(&key).unwrap();
                                if e.get("request_mismatch_example").is_none() {
                                    e["request_mismatch_example"] = json!({"S": markets, "off": off, "detail": mm});
                                }
                            }
                            live = Some(Live { sess, markets: markets.clone() });
                            ctx.line(route, fl, a, &markets, off, (x.0, x.1, false), 0, &[], vec![], d);
                        }
                        Err(e) => {
                            if sub_failures.len() < 3 && !e.starts_with("subscription refused") {
                                sub_failures.push(e.clone());
                            }
                            ctx.line(route, fl, a, &markets, off, (x.0, x.1, false), 0, &[], vec![err(e.clone())], json!({"error": e}))
                        }
                    }
                    ctx.bump(&key, "subscribes", 1);
                }
                "Disconnect" => {
                    live = None;
                    ctx.line(route, fl, a, &[], 0, NOX, 0, &[], vec![], json!({}));
                }
                "Message" => {
                    let Some(l) = live.as_mut() else {
                        // the subscription of this session failed (already reported on its line)
                        ctx.line(route, fl, a, &[], 0, (0, 0, x.2), m, &fs, vec![err("no session: the subscription failed".to_string())], json!({}));
                        continue;
                    };
                    let mk = &list[m - 1];
                    // Bitfinex identifies by the channel id of this connection; an unsubscribed market has none
                    let chan = l.sess.chan.get(&mk.echo).copied().unwrap_or(990_000 + m as u32);
                    let mut out = vec![];
                    let mut texts = vec![];
                    let groups: Vec<Vec<Item>> = if route.array() { vec![fs.clone()] } else { fs.iter().map(|x| vec![*x]).collect() };
                    for g in groups {
                        n_msg += 1;
                        let text = payload(route, mk, &g, l.sess.seq[m - 1], chan, n_msg);
                        let before = out.len();
                        if x.2 {
                            feed_buffered(route, l.sess.keymap.as_ref(), &mut l.sess.transformer, std::slice::from_ref(&text), &mut out);
                        } else {
                            feed(route, l.sess.keymap.as_ref(), &mut l.sess.transformer, &text, &mut out);
                        }
                        if route.sk == SK::L2 && out[before..].iter().any(|o| o["k"] == "ev") {
                            l.sess.seq[m - 1] += 1;
                        }
                        texts.push(text);
                    }
                    let subscribed = l.markets.contains(&m);
                    ctx.bump(&key, if subscribed { "messages_subscribed" } else { "messages_unsubscribed" }, 1);
                    for o in &out {
                        ctx.bump(&key, &format!("out_{}", o["k"].as_str().unwrap_or("?")), 1);
                    }
                    ctx.line(route, fl, a, &[], 0, (0, 0, x.2), m, &fs, out, json!({"buffered": x.2, "venue_messages": texts, "market": format!("{} (venue symbol {})", uni[m - 1], mk.echo)}));
                }
                other => usage(&format!("unknown step {other}")),
            }
        }};
    }

    let reset = |ctx: &mut Ctx| ctx.line(route, fl, "Reset", &[], 0, (0, 0, false), 0, &[], vec![], json!({}));

    match std::mem::replace(&mut ctx.work, Work::Scenarios(vec![])) {
        Work::Scenarios(scns) => {
            for scn in &scns {
                // generated items range over the four L1 side values; on other routes "bid_only" /
                // "ask_only" mean "buy" / "sell" (`map`), or the scenario - a duplicate - is skipped
                let one_sided = |e: &Value| e["fs"].as_array().is_some_and(|x| x.iter().any(|f| f["s"] == "bid_only" || f["s"] == "ask_only"));
                if route.sk != SK::L1 && ctx.onesided == "skip" && scn["evs"].as_array().expect("evs").iter().any(one_sided) {
                    continue;
                }
                // (the exhaustive set holds every message live and buffered: flavours differ only in how
                //  the subscriptions are made, so the buffered half runs on the first flavour only; the
                //  other sets mix live and buffered messages on every flavour)
                if I::NAME != "keyed" && ctx.onesided == "skip" && scn["evs"].as_array().expect("evs").iter().any(|e| e["buf"] == true) {
                    continue;
                }
                reset(ctx);
                live = None;
                for e in scn["evs"].as_array().expect("evs") {
                    let markets: Vec<usize> = e["S"].as_array().map(|x| x.iter().map(|v| v.as_u64().unwrap() as usize).collect()).unwrap_or_default();
                    let mut fs: Vec<Item> = e["fs"].as_array().map(|x| x.iter().map(Item::from_json).collect()).unwrap_or_default();
                    if route.sk != SK::L1 {
                        fs.iter_mut().for_each(|f| f.only = false);
                    }
                    let x = (e["d"].as_u64().unwrap_or(0) as usize, e["dk"].as_i64().unwrap_or(0), e["buf"].as_bool().unwrap_or(false));
                    step!(s(e, "a"), markets, e["off"].as_i64().unwrap_or(0), x, e["m"].as_u64().unwrap_or(0) as usize, fs);
                }
            }
            ctx.work = Work::Scenarios(scns);
        }
        Work::Random { seed, steps } => {
            let salt = key.bytes().fold(0u64, |h, b| h.wrapping_mul(131).wrapping_add(b as u64));
            let mut rng = rng(seed ^ salt);
            let mut since_reset = usize::MAX;
            for _ in 0..steps {
                if since_reset >= 40 {
                    reset(ctx);
                    live = None;
                    since_reset = 0;
                }
                since_reset += 1;
                if live.is_none() {
                    // every market with probability 1/2; now and then everything or nothing
                    let markets: Vec<usize> = match rng.random_range(0..10) {
                        0 => vec![],
                        1 => (1..=NMARKETS).collect(),
                        _ => (1..=NMARKETS).filter(|_| rng.random_bool(0.5)).collect(),
                    };
                    // one subscription in three repeats one of its markets (twice in a row)
                    let dup = if !markets.is_empty() && rng.random_range(0..3) == 0 {
                        (markets[rng.random_range(0..markets.len())], rng.random_range(1..=2), false)
                    } else {
                        (0, 0, false)
                    };
                    step!("Subscribe", markets, rng.random_range(0..NMARKETS as i64), dup, 0, vec![]);
                } else if rng.random_range(0..12) == 0 {
                    step!("Disconnect", vec![], 0, (0, 0, false), 0, vec![]);
                } else {
                    let m = rng.random_range(1..=NMARKETS);
                    let n = if route.array() { [1, 1, 2, 3][rng.random_range(0..4)] } else { 1 };
                    let fs: Vec<Item> = (0..n)
                        .map(|_| Item { p: [2, 6, 10, 14, 401][rng.random_range(0..5)], a: [1, 5, 9, 4000][rng.random_range(0..4)], buy: rng.random_bool(0.5), only: route.sk == SK::L1 && rng.random_range(0..3) == 0, t: rng.random_range(0..=9) })
                        .collect();
                    step!("Message", vec![], 0, (0, 0, rng.random_range(0..3) == 0), m, fs);
                }
            }
            ctx.work = Work::Random { seed, steps };
        }
    }
    echoes
}

/// both instrument flavours of one route; the `named` flavour is subscribed with the venue's own
/// symbols (what the venue echoes for the `keyed` flavour) as `name_exchange`
macro_rules! route {
    ($E:ty, $K:expr, $r:expr, $ctx:expr, $bfx:expr) => {{
        let none: Vec<String> = vec![String::new(); NMARKETS];
        let names = run_flavour::<$E, Keyed<u32, MarketDataInstrument>, _>($K, $r, &none, $ctx, $bfx, false).await;
        run_flavour::<$E, MarketInstrumentData<u32>, _>($K, $r, &names, $ctx, $bfx, false).await;
        run_flavour::<$E, Keyed<InstrumentIndex, MarketDataInstrument>, _>($K, $r, &names, $ctx, $bfx, false).await;
        run_flavour::<$E, MarketInstrumentData<InstrumentIndex>, _>($K, $r, &names, $ctx, $bfx, false).await;
        // the case-twin flavours: the two `name_exchange` flavours again, with mixed-case venue symbols
        run_flavour::<$E, MarketInstrumentData<u32>, _>($K, $r, &names, $ctx, $bfx, true).await;
        run_flavour::<$E, MarketInstrumentData<InstrumentIndex>, _>($K, $r, &names, $ctx, $bfx, true).await;
    }};
}

async fn run_route(r: &Route, ctx: &mut Ctx, bfx: &Bfx) {
    match (r.ex, r.kind) {
        ("binance_spot", "public_trades") => route!(BinanceSpot, PublicTrades, r, ctx, bfx),
        ("binance_spot", "l1") => route!(BinanceSpot, OrderBooksL1, r, ctx, bfx),
        ("binance_spot", "l2") => route!(BinanceSpot, OrderBooksL2, r, ctx, bfx),
        ("binance_futures_usd", "public_trades") => route!(BinanceFuturesUsd, PublicTrades, r, ctx, bfx),
        ("binance_futures_usd", "l1") => route!(BinanceFuturesUsd, OrderBooksL1, r, ctx, bfx),
        ("binance_futures_usd", "l2") => route!(BinanceFuturesUsd, OrderBooksL2, r, ctx, bfx),
        ("binance_futures_usd", "liquidations") => route!(BinanceFuturesUsd, Liquidations, r, ctx, bfx),
        ("bitfinex", "public_trades") => route!(Bitfinex, PublicTrades, r, ctx, bfx),
        ("bitmex", "public_trades") => route!(Bitmex, PublicTrades, r, ctx, bfx),
        ("bybit_spot", "public_trades") => route!(BybitSpot, PublicTrades, r, ctx, bfx),
        ("bybit_perpetuals_usd", "public_trades") => route!(BybitPerpetualsUsd, PublicTrades, r, ctx, bfx),
        ("coinbase", "public_trades") => route!(Coinbase, PublicTrades, r, ctx, bfx),
        ("gateio_spot", "public_trades") => route!(GateioSpot, PublicTrades, r, ctx, bfx),
        ("gateio_futures_usd", "public_trades") => route!(GateioFuturesUsd, PublicTrades, r, ctx, bfx),
        ("gateio_futures_btc", "public_trades") => route!(GateioFuturesBtc, PublicTrades, r, ctx, bfx),
        ("gateio_perpetuals_usd", "public_trades") => route!(GateioPerpetualsUsd, PublicTrades, r, ctx, bfx),
        ("gateio_perpetuals_btc", "public_trades") => route!(GateioPerpetualsBtc, PublicTrades, r, ctx, bfx),
        ("gateio_options", "public_trades") => route!(GateioOptions, PublicTrades, r, ctx, bfx),
        ("kraken", "public_trades") => route!(Kraken, PublicTrades, r, ctx, bfx),
        ("kraken", "l1") => route!(Kraken, OrderBooksL1, r, ctx, bfx),
        ("okx", "public_trades") => route!(Okx, PublicTrades, r, ctx, bfx),
        other => usage(&format!("no connector for route {other:?}")),
    }
}

fn exchange_id(name: &str) -> ExchangeId {
    serde_json::from_value(json!(name)).unwrap_or_else(|e| usage(&format!("exchange id {name}: {e}")))
}

#[tokio::main(flavor = "current_thread")]
async fn main() {
    let args = Args::parse();
    let all = routes();
    if args.cmd == "routes" {
        let table: Vec<Value> = all
            .iter()
            .map(|r| {
                let kind = universe(r.ikind)[0].kind.clone();
                json!({"route": r.c(), "supported": exchange_supports_instrument_kind_sub_kind(&exchange_id(r.ex), &kind, r.sub_kind()),
                       "sub_kind": format!("{:?}", r.sub_kind())})
            })
            .collect();
        println!("{}", json!({"routes": table}));
        return;
    }
    let selected: Vec<Route> = match args.get("routes") {
        None | Some("all") => all,
        Some(list) => {
            let want: Vec<&str> = list.split(',').collect();
            let sel: Vec<Route> = all.into_iter().filter(|r| want.contains(&r.name().as_str())).collect();
            if sel.len() != want.len() {
                usage(&format!("unknown route in --routes {list}"));
            }
            sel
        }
    };
    let work = match args.cmd.as_str() {
        "run" => Work::Scenarios(read_ndjson(args.req("scenarios"))),
        "random" => Work::Random { seed: args.u64("seed", 1), steps: args.usize("steps", 400) },
        other => usage(&format!("unknown command {other}")),
    };
    let mut ctx = Ctx {
        out: Out::create(args.req("out")),
        details: args.get("details").map(Out::create),
        work,
        flavours: args.str("flavours", "keyed,named,indexed,generated,named_ct,generated_ct").split(',').map(|x| x.to_string()).collect(),
        onesided: args.str("onesided", "map"),
        stats: serde_json::Map::new(),
        twins_skipped: vec![],
    };
    let bfx = bfx_server().await;
    for r in &selected {
        run_route(r, &mut ctx, &bfx).await;
    }
    let Ctx { out, details, stats, twins_skipped, .. } = ctx;
    let lines = out.finish();
    if let Some(d) = details {
        d.finish();
    }
    println!("{}", json!({"lines": lines, "routes": selected.len(), "per_route": stats, "twins_skipped": twins_skipped}));
}
