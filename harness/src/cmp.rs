//! Comparison of an *expected* JSON value produced by TLC with an *actual* JSON value projected
//! from the implementation (spec -> impl direction for deterministic / numeric specifications).
//!
//! expected forms:
//!   {"n": N, "d": D}            exact rational; actual must be a decimal string / number equal to
//!                               N/D exactly when D = 2^a 5^b, else within `TOL * max(1,|N/D|)`
//!   {"anyOf": [e1, e2, ..]}     actual must match one of the alternatives (allowed nondeterminism)
//!   {"any": true}               anything
//!   objects / arrays            recursively, same keys / same length
//!   scalars                     equal (numbers compared as decimals, so 2 == "2.0")
use rust_decimal::Decimal;
use serde_json::Value;
use std::str::FromStr;

/// relative tolerance "up to decimal rounding" (rust_decimal carries 28 significant digits)
pub const TOL: &str = "0.000000000000000001";

pub fn as_decimal(v: &Value) -> Option<Decimal> {
    match v {
        Value::Number(n) => {
            if let Some(i) = n.as_i64() {
                Some(Decimal::from(i))
            } else {
                Decimal::from_str(&n.to_string()).ok().or_else(|| Decimal::from_scientific(&n.to_string()).ok())
            }
        }
        Value::String(s) => Decimal::from_str(s).ok().or_else(|| Decimal::from_scientific(s).ok()),
        _ => None,
    }
}

fn is_rational(v: &Value) -> Option<(i128, i128)> {
    let o = v.as_object()?;
    if o.len() == 2 {
        let n = o.get("n")?.as_i64()?;
        let d = o.get("d")?.as_i64()?;
        return Some((n as i128, d as i128));
    }
    None
}

pub fn rational_matches(n: i128, d: i128, actual: Decimal) -> bool {
    // |actual - n/d| <= tol * max(1, |n/d|)   <=>   |actual*d - n| <= tol * max(|d|, |n|)
    let d_dec = Decimal::from_i128_with_scale(d, 0);
    let n_dec = Decimal::from_i128_with_scale(n, 0);
    let Some(lhs) = actual.checked_mul(d_dec).map(|x| (x - n_dec).abs()) else { return false };
    // exact when representable
    let mut dd = d.abs();
    while dd % 2 == 0 { dd /= 2; }
    while dd % 5 == 0 { dd /= 5; }
    let tol = Decimal::from_str(TOL).unwrap() * std::cmp::max(d.abs(), n.abs()).min(i64::MAX as i128).to_string().parse::<Decimal>().unwrap();
    if dd == 1 {
        // representable: allow only the tolerance as well (results may have been rounded at 28 digits)
        lhs <= tol
    } else {
        lhs <= tol
    }
}

/// Returns Err(path: explanation) for the first mismatch.
pub fn json_match(expected: &Value, actual: &Value, path: &str) -> Result<(), String> {
    if let Some((n, d)) = is_rational(expected) {
        let Some(a) = as_decimal(actual) else {
            return Err(format!("{path}: expected {n}/{d}, got non-numeric {actual}"));
        };
        return if rational_matches(n, d, a) { Ok(()) } else { Err(format!("{path}: expected {n}/{d}, got {a}")) };
    }
    if let Some(o) = expected.as_object() {
        if let Some(alts) = o.get("anyOf").and_then(|x| x.as_array()) {
            if o.len() == 1 {
                let mut errs = vec![];
                for alt in alts {
                    match json_match(alt, actual, path) {
                        Ok(()) => return Ok(()),
                        Err(e) => errs.push(e),
                    }
                }
                return Err(format!("{path}: none of {} allowed alternatives matched: {}", alts.len(), errs.join(" | ")));
            }
        }
        if o.len() == 1 && o.get("any") == Some(&Value::Bool(true)) {
            return Ok(());
        }
        let Some(a) = actual.as_object() else {
            return Err(format!("{path}: expected object {expected}, got {actual}"));
        };
        for (k, ev) in o {
            let Some(av) = a.get(k) else { return Err(format!("{path}.{k}: missing in implementation state")) };
            json_match(ev, av, &format!("{path}.{k}"))?;
        }
        for k in a.keys() {
            if !o.contains_key(k) {
                return Err(format!("{path}.{k}: unexpected in implementation state"));
            }
        }
        return Ok(());
    }
    if let Some(arr) = expected.as_array() {
        let Some(a) = actual.as_array() else {
            return Err(format!("{path}: expected array {expected}, got {actual}"));
        };
        if arr.len() != a.len() {
            return Err(format!("{path}: expected {} elements, got {} ({actual})", arr.len(), a.len()));
        }
        for (i, (e, x)) in arr.iter().zip(a).enumerate() {
            json_match(e, x, &format!("{path}[{i}]"))?;
        }
        return Ok(());
    }
    if expected == actual {
        return Ok(());
    }
    if let (Some(e), Some(a)) = (as_decimal(expected), as_decimal(actual)) {
        if expected.is_number() || actual.is_number() {
            return if e == a { Ok(()) } else { Err(format!("{path}: expected {e}, got {a}")) };
        }
    }
    Err(format!("{path}: expected {expected}, got {actual}"))
}

#[cfg(test)]
mod tests {
    use super::*;
    use serde_json::json;
    #[test]
    fn rationals() {
        assert!(json_match(&json!({"n":1,"d":3}), &json!("0.3333333333333333333333333333"), "x").is_ok());
        assert!(json_match(&json!({"n":1,"d":3}), &json!("0.3334"), "x").is_err());
        assert!(json_match(&json!({"n":5,"d":2}), &json!("2.5"), "x").is_ok());
        assert!(json_match(&json!({"n":5,"d":2}), &json!("2.50000001"), "x").is_err());
        assert!(json_match(&json!({"anyOf":[1,2]}), &json!(2), "x").is_ok());
        assert!(json_match(&json!({"a":{"n":-3,"d":1}}), &json!({"a":"-3.000"}), "x").is_ok());
        assert!(json_match(&json!(2), &json!("2.0"), "x").is_ok());
    }
}
