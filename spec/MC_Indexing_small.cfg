SPECIFICATION Spec
CONSTANTS
  Universe <- U7
  MaxLen = 2
INVARIANTS Dense Unique Inverse Resolve OrderFree Sorted Aligned RoundTrip OnlyOwn Outbound Inbound
CHECK_DEADLOCK FALSE
