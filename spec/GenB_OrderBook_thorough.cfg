SPECIFICATION GSpecR
CONSTANTS
  PRICE = {1, 2, 3, 4, 5, 6, 7, 8}
  AMOUNT = {0, 1, 2, 3, 4}
  SEQS = {1, 2, 3, 4, 5}
  MaxLong = 5
  MaxShort = 4
  MaxSnap = 6
  StableUpTo = 20
  MaxLen = 40
  Large = 99
INVARIANT Emit
CHECK_DEADLOCK FALSE
