-------------------------- MODULE Gen_MockExchange --------------------------
(* Scenario generation for the conformance harness (spec -> impl): request    *)
(* sequences of MockExchange printed as JSON, one line per behaviour:         *)
(*   {"init": {fee, lat, bal, open, up}, "evs": [ {req, out, why, id, filled} ]} *)
(* (`up` = FALSE: the exchange task has ended before the first request)      *)
(* The harness replays `init` + the `req` of every element into the real     *)
(* exchange; what the implementation answers is judged by Trace_MockExchange *)
(* (the `out`/`id` printed here are only what the specification expects).     *)
(*  GSpec  (exhaustive): every initial account x every request - one          *)
(*         implementation test per arm x balance situation.                   *)
(*  GSpecR (simulation): long random request sequences; the request is drawn  *)
(*         with RandomElement so that a step has a single successor.          *)
EXTENDS MockExchange, Json
CONSTANTS MaxLen, OrderSubsets
VARIABLES init, hist, done

gvars == <<vars, init, hist, done>>

Max(S) == CHOOSE x \in S : \A y \in S : y <= x

SetToSeq(S) == LET RECURSIVE F(_) F(T) == IF T = {} THEN <<>> ELSE LET x == CHOOSE x \in T : TRUE IN <<x>> \o F(T \ {x}) IN F(S)

GInit == /\ fee \in FeePcts
         /\ lat \in Lats
         /\ bal \in {[a \in Assets |-> [total |-> f[a], free |-> f[a]]] : f \in [Assets -> BalInit]}
         /\ orders \in (IF OrderSubsets THEN SUBSET {OpenOrder(c) : c \in OpenCids}
                                          ELSE {{OpenOrder(c) : c \in OpenCids}})
         \* an exchange whose task has already ended: one account is enough (nothing depends on it)
         /\ up \in (IF \A a \in Assets : bal[a].free = Max(BalInit) THEN BOOLEAN ELSE {TRUE})
         /\ nextId = 0 /\ now = 0 /\ trades = <<>> /\ notif = <<>>
         /\ last = Resp(NoReq, "init", "-", -1, 0)
         /\ res = NoRes
         /\ init = [fee |-> fee, lat |-> lat, bal |-> bal, open |-> SetToSeq(orders), up |-> up]
         /\ hist = <<>>
         /\ done = FALSE

GStep == /\ ~done /\ Len(hist) < MaxLen
         /\ \E r \in Requests \cup {KillReq} : \E id \in FreshIds : \E tt \in ClockChoices(r) :
               Serve(r, id, tt, "offline")
         /\ hist' = Append(hist, last')
         /\ UNCHANGED <<init, done>>

\* most requests are market orders on listed instruments (the arms with a ledger effect); the
\* rest is spread over everything a client can send.  Every draw is bound through a singleton
\* set (a RandomElement inside a LET is re-drawn at every reference).
ReqClass(c) == IF c <= 22 THEN {r \in OpenReqs : Market(r) /\ Listed(r)}
               ELSE IF c <= 26 THEN OpenReqs
               ELSE IF c <= 31 THEN TradeReqs
               ELSE IF c <= 33 THEN SnapReqs
               ELSE IF c <= 35 THEN BalReqs
               ELSE IF c <= 37 THEN OrdReqs
               ELSE IF c <= 39 THEN CancelReqs
               ELSE {KillReq}

GStepR == /\ ~done /\ Len(hist) < MaxLen
          /\ \E c \in {RandomElement(1..40)} : \E r \in {RandomElement(ReqClass(c))} :
                \E id \in FreshIds : \E tt \in ClockChoices(r) : Serve(r, id, tt, "offline")
          /\ hist' = Append(hist, last')
          /\ UNCHANGED <<init, done>>

GFinish == /\ ~done /\ Len(hist) = MaxLen
           /\ done' = TRUE
           /\ UNCHANGED <<vars, init, hist>>

GSpec  == GInit /\ [][GStep \/ GFinish]_gvars
GSpecR == GInit /\ [][GStepR \/ GFinish]_gvars

Emit == done => PrintT(<<"SCN", ToJson([init |-> init, evs |-> hist])>>)
=============================================================================
