"""C13 - market-data messages are attributed to the subscribed instrument, or rejected
(spec/MarketRouting.tla)."""
import json
import os
import re
import vlib

MODULE = "MarketRouting"
REPO = os.environ.get("VERIF_REPO", "/repo")
META = {
    "technique": "TLC model checking of MarketRouting (every subset of a 5-market universe x messages for every "
                 "market, 24 routes) + TLC-generated scenarios and seeded random sessions executed on the real "
                 "subscription indexer / mapper / Bitfinex validator (loopback websocket) / transformers with payloads from a simulated "
                 "venue, validated line by line by TLC (Trace_MarketRouting)",
    "level_text": "model_checking",
    "level_note": "exhaustive for the bounded TLC models; the implementation is bound by trace validation of "
                  "enumerated (all subsets x all markets) and sampled sessions per route",
}
ASSUMPTIONS = [
    "venue wire formats are a trusted input of the harness, transcribed from the doc comments and unit-test "
    "fixtures of each venue module; all venues echo upper-case symbols in data messages (Bitfinex: the channel id "
    "of its `subscribed` response); Gate.io echoes the subscribed channel name",
    "the simulated venue derives the symbol it echoes from the subscription request the connector produced "
    "(Connector::requests), never from the connector's internal subscription id",
    "instruments of one subscription set have distinct venue names; `MarketInstrumentData` instruments are "
    "subscribed with the venue's own symbol as name_exchange",
    "instrument flavours per route: Keyed<u32, MarketDataInstrument>, MarketInstrumentData<u32>, and the indexed "
    "flavour: an IndexedInstruments collection of the route's whole universe + the real "
    "index_market_data_subscription_batches (as the indexed dynamic stream builder does) -> "
    "Keyed<InstrumentIndex, MarketDataInstrument>; the event must carry the InstrumentIndex of exactly the instrument "
    "subscribed under the market; universe instruments are pairwise distinguishable by (exchange, kind, base, quote)",
    "fourth flavour `generated` (the path of init_indexed_multi_exchange_market_stream): an IndexedInstruments "
    "collection over several exchanges in shuffled insertion order -> the real "
    "generate_indexed_market_data_subscription_batches (trades, L1, both, a kind twice) -> the real validate_batches; "
    "the harness judges the batches against the collection (one batch per exchange, exactly its instruments x kinds, "
    "key = position in the collection, exact duplicates removed, distinct subscriptions kept), the spec judges the "
    "attribution of messages (the index an event carries is translated to the spec's key by looking the position up in "
    "the collection); decoy exchanges are those that support all requested kinds",
    "a market may be subscribed twice in a row (the same instrument again, or a second instrument with its own key "
    "that resolves to the same market - not for the indexed flavour, where the indexer gives both the same index): for "
    "that market either key is acceptable, every other market must carry exactly its own key; the simulated Bitfinex "
    "venue ignores a repeated subscribe of one symbol on a connection",
    "messages replayed through the public process_buffered_events (frames buffered during subscription validation) "
    "must give exactly the outputs of the live path, in order; ping/pong frames and a text frame no message type "
    "parses are skipped by design",
    "L1 routes (Binance book ticker, Kraken spread): an empty book side is sent as price 0 / amount 0 (the convention "
    "the connectors' own `is_zero` guards in binance/book/l1.rs and kraken/book/l1.rs encode); the event must then "
    "state exactly the other side and no level for the empty one",
    "future/option market strings are taken as the mapper formats them, EXCEPT the expiry component, which the "
    "simulated venue renders itself from the contract's calendar expiry date in the venue's documented format: OKX "
    "YYMMDD (doc comment of okx/market.rs::format_expiry: '230526' = 26th of May 2023; fixtures 'BTC-USD-191227', "
    "'BTC-USD-231229-35000-C'), Gate.io YYYYMMDD (doc comment of gateio/market.rs::format_expiry: '20241231'; fixture "
    "'ETH_USDT_QUARTERLY_20201225'); the future/option universes contain contracts expiring 2024-12-30 and 2025-12-30 "
    "(ISO week-year != calendar year) next to ordinary expiries",
    "the strike component of an option symbol (OKX, Gate.io) is likewise rendered by the simulated venue from the "
    "contract's strike as its canonical decimal string, no trailing zeros, fraction kept (fixture "
    "'BTC-USD-231229-35000-C' in okx/trade.rs; strike 2.5 -> '...-2.5-C'); strikes are given in canonical form; the "
    "option universes contain one contract with strike 2 and the same contract with strike 2.5",
    "the venue subscribes what the request names (a symbol it does not list is refused) and streams every listed "
    "market under its own symbol",
    "Gate.io futures/perpetual/option trade amount: sign as delivered or absolute value are both accepted (DESIGN 5.4)",
    "exchange times are stated with the full precision the venue's wire format carries and compared EXACTLY (ns): "
    "integer ms (Binance, OKX, Bybit, Gate.io futures, Bitfinex), RFC 3339 with ms (BitMEX '2023-02-18T09:27:59.701Z'), "
    "and with a non-zero sub-millisecond part where the format has one: Kraken seconds with six decimals "
    "('1534614057.321597'), Coinbase RFC 3339 with microseconds ('2014-11-07T08:19:27.028459Z'), Gate.io spot "
    "create_time_ms with four decimals ('1606292218213.4578'); stated instants are multiples of 1/64 s there (exact in f64)",
    "Binance spot book-ticker messages carry no exchange time: the event time of that route is not constrained",
    "DynamicStreams::init itself (sockets) is not executed: the (ExchangeId, SubKind) arms it dispatches to are, "
    "and the check fails as a tool error if that list and the route table differ",
    "Binance L2: only routing is judged here (update ids follow the snapshot handed to init); sequencing is C06",
    "case-twin flavours (named_ct = MarketInstrumentData<u32>, generated_ct = MarketInstrumentData<InstrumentIndex>; the "
    "flavours that take name_exchange verbatim): the simulated venue ALSO lists markets under mixed-case symbols in the "
    "route's own symbol format - market 1 kPEPE.. / market 2 KPEPE.. and market 3 KSHIB.. / market 4 kSHIB.. differ only "
    "by letter case (the all-upper-case one subscribed later resp. first), market 5 is an ordinary symbol; distinct "
    "symbols are distinct markets of the spec (no case relation in the spec); the venue streams and echoes such a symbol "
    "EXACTLY as listed and refuses a request that does not name a listed symbol exactly; every subset of these five "
    "markets is subscribed and a message for every market is sent (one twin subscribed and the other not -> "
    "unidentifiable; both subscribed -> each carries its own key)",
    "routes whose connector normalises the case of name_exchange on the way to the wire cannot carry case-twins and "
    "are skipped by the case-twin flavours: the seven Binance routes (Connector::requests of exchange/binance/mod.rs "
    "lower-cases the market of every stream name, so symbols that differ only by case are ONE stream there - such a "
    "pair is outside what the venue can list); the check fails as a tool error if the skipped set is anything else",
]
TWIN_FLAVOURS = ("named_ct", "generated_ct")

SUBKIND = {"PublicTrades": "public_trades", "OrderBooksL1": "l1", "OrderBooksL2": "l2", "Liquidations": "liquidations",
           "OrderBooksL3": "l3", "Candles": "candles"}


def snake(name):
    return re.sub(r"(?<!^)(?=[A-Z])", "_", name).lower()


def check_quantifier(ctx):
    """The route table of the harness, `Routes` of the spec and the dispatch arms of
    DynamicStreams::init must describe the same (exchange, kind) pairs."""
    src = open(os.path.join(REPO, "barter-data/src/streams/builder/dynamic/mod.rs")).read()
    arms = {(snake(e), SUBKIND.get(k, k)) for e, k in re.findall(r"\(ExchangeId::(\w+),\s*SubKind::(\w+)\)\s*=>", src)}
    info = ctx.harness("c13", "routes")
    table = [tuple(r["route"]) for r in info["routes"]]
    unsupported = [r["route"] for r in info["routes"] if not r["supported"]]
    if unsupported:
        raise vlib.ToolError("routes not admitted by exchange_supports_instrument_kind_sub_kind: %s" % unsupported)
    pairs = {(e, k) for e, k, _ in table}
    if pairs != arms:
        raise vlib.ToolError("the (ExchangeId, SubKind) pairs of DynamicStreams::init changed: only in the code %s, "
                             "only in the C13 route table %s - extend harness/src/bin/c13.rs and spec Routes"
                             % (sorted(arms - pairs), sorted(pairs - arms)))
    spec = open(os.path.join(vlib.SPEC, MODULE + ".tla")).read()
    body = spec.split("Routes == {", 1)[1].split("}", 1)[0]
    spec_routes = set(re.findall(r'<<"([\w]+)",\s*"([\w]+)",\s*"([\w]+)">>', body))
    if spec_routes != set(table):
        raise vlib.ToolError("Routes of MarketRouting.tla and the harness route table differ: %s"
                             % sorted(spec_routes ^ set(table)))
    ctx.cov["routes"] = ["/".join(r) for r in table]
    ctx.cov["dispatch_arms_in_code"] = len(arms)
    return table


def well_typed(o):
    return (o.get("k") in ("ev", "unid") and all(isinstance(o.get(f), int) and not isinstance(o.get(f), bool)
                                                  for f in ("key", "p", "a", "t"))
            and isinstance(o.get("s"), str) and isinstance(o.get("ex"), str))


NAMES = {"p": "price", "a": "amount", "s": "side", "t": "time", "key": "instrument-key"}


def anomaly(line):
    """outcomes the spec's value domains cannot express: errors other than `unidentifiable`,
    panics, a failed subscription, values that are not the quarter-unit / half-second values the
    venue message carried"""
    for o in line.get("out", []):
        if o.get("k") == "err":
            return o.get("s") or "error"
        if not well_typed(o):
            bad = [NAMES[f] for f in ("key", "p", "a", "t") if not isinstance(o.get(f), int)]
            return "fields %s: event with a value the message did not carry: %s" % ("+".join(bad), json.dumps(o))
    return None


def sign_open(line):
    return line["c"][0].startswith("gateio_") and line["c"][0] != "gateio_spot"


def route_of(line):
    return "/".join(line["c"])


def subs_of(seg):
    """market -> acceptable keys as the last Subscribe of the segment says (two for a market under
    which two instruments were subscribed)"""
    subs = {}
    for l in seg:
        if l["a"] == "Subscribe":
            subs = {m: [((m - 1 + l["off"]) % 5) + 1] + ([6] if m == l.get("d") and l.get("dk") == 2 else []) for m in l["S"]}
        elif l["a"] in ("Disconnect", "Reset"):
            subs = {}
    return subs


def classify(line, subs):
    m, out, fs = line["m"], line["out"], line["fs"]
    sub = m in subs
    if not out:
        oc = "no-output"
    elif sub:
        evs = [o for o in out if o["k"] == "ev"]
        if not evs:
            oc = "unidentifiable"
        elif any(o["key"] not in subs[m] for o in evs):
            oc = "event-for-another-instrument"
        elif any(o["ex"] != line["c"][0] for o in evs):
            oc = "wrong-exchange-id"
        elif len(out) != len(fs) or len(evs) != len(out):
            oc = "item-count"
        else:
            def differs(o, i, f):
                if f == "a" and sign_open(line) and i["s"] == "sell" and o["a"] == -i["a"]:
                    return False
                if f == "t" and line["c"] == ["binance_spot", "l1", "spot"]:
                    return False
                return o[f] != i[f]
            diff = sorted({NAMES[f] for o, i in zip(out, fs) for f in "past" if differs(o, i, f)})
            oc = "fields:" + "+".join(diff)
    else:
        oc = "event-for-unsubscribed-market" if any(o["k"] == "ev" for o in out) else "not-one-unidentifiable-error"
    return "%s/%s:%s%s->%s" % (route_of(line), line["fl"], "buffered-" if line.get("buf") else "",
                               "subscribed" if sub else "unsubscribed", oc)


def scenario_of(seg):
    return {"evs": [{k: l[k] for k in ("a", "S", "off", "d", "dk", "buf", "m", "fs")} for l in seg if l["a"] != "Reset"]}


def details(ctx, route, fl, scenario):
    """re-run one scenario with the venue messages / requests recorded (for the description)"""
    n = len(ctx.cov["harness_runs"])
    scn = ctx.path("detail_%d.ndjson" % n)
    with open(scn, "w") as f:
        f.write(json.dumps(scenario) + "\n")
    det = ctx.path("detail_%d.out.ndjson" % n)
    ctx.harness("c13", "run", "--scenarios", scn, "--out", ctx.path("detail_%d.trace.ndjson" % n), "--routes", route,
                "--flavours", fl, "--details", det)
    return [json.loads(l) for l in open(det)]


def describe(ctx, line, seg, subs, verbose=False):
    route, fl = route_of(line), line["fl"]
    last_sub = ([l for l in seg if l["a"] == "Subscribe"] or [{}])[-1]
    rep = ""
    if last_sub.get("dk"):
        rep = " (market %d subscribed twice in a row: %s)" % (last_sub["d"], "the same instrument" if last_sub["dk"] == 1 else "a second instrument, key 6")
    text = "%s (%s instruments): subscribed markets->acceptable keys %s%s; %svenue message about market %d with items %s -> %s" % (
        route, fl, json.dumps(subs, sort_keys=True), rep, "BUFFERED (process_buffered_events) " if line.get("buf") else "",
        line["m"], json.dumps(line["fs"]), json.dumps(line["out"]))
    try:
        det = details(ctx, route, fl, scenario_of(seg))
        sub = [d for d in det if d["a"] == "Subscribe"][-1]["detail"]
        msg = [d for d in det if d["a"] == "Message"][-1]["detail"]
        text += " | connector's request %s, its internal subscription ids %s; venue sent %s" % (
            json.dumps(sub.get("requests")), json.dumps(sub.get("internal_subscription_ids")), json.dumps(msg.get("venue_messages")))
        if verbose:
            for d in det:
                vlib.log("  replay %s %s" % (d["a"], json.dumps(d["detail"])))
    except Exception as e:  # the description is best effort
        text += " (no details: %s)" % e
    return text


def validate(ctx, trace_path, label, verbose=False):
    lines = ctx.read_trace(trace_path)
    clean = ctx.path("clean_" + label + ".ndjson")
    found, keep = ctx.screen_anomalies(lines, clean, anomaly)
    seen = set()
    for n, d, seg in found:
        line = seg[-1]
        cls = re.sub(r"[^A-Za-z+]+", "-", d.split(":")[0])[:48].strip("-")
        sig = "%s/%s:anomaly:%s" % (route_of(line), line["fl"], cls)
        desc = "%s (%s): %s on %s [%s, line %d]" % (route_of(line), line["fl"], d, json.dumps({k: line[k] for k in ("a", "S", "off", "m", "fs")}), label, n)
        if sig not in seen and line["a"] == "Message":
            seen.add(sig)
            try:  # what the venue sent (best effort)
                det = details(ctx, route_of(line), line["fl"], scenario_of(seg))
                desc += " | venue sent %s" % json.dumps([x for x in det if x["a"] == "Message"][-1]["detail"].get("venue_messages"))
            except Exception as e:
                desc += " (no details: %s)" % e
        ctx.violation(sig, desc, {"route": route_of(line), "flavour": line["fl"], "scenario": scenario_of(seg)})
    n, bad, truncated = ctx.tlc_trace("Trace_" + MODULE, "Trace_" + MODULE + ".cfg", clean)
    for b in bad:
        seg = ctx.segment(keep, b)
        line = keep[b - 1]
        if line["a"] != "Message":
            raise vlib.ToolError("trace line %d of %s (%s) is not a step of the protocol the harness drives: %s"
                                 % (b, label, line["a"], json.dumps(line)[:400]))
        subs = subs_of(seg[:-1])
        sig = classify(line, subs)
        if sig in seen:
            desc = sig
        else:
            seen.add(sig)
            desc = describe(ctx, line, seg, subs, verbose) + " [%s, line %d]" % (label, b)
        ctx.violation(sig, desc, {"route": route_of(line), "flavour": line["fl"], "scenario": scenario_of(seg)})
    ctx.cov["traces_validated_against_impl"] += sum(1 for l in keep if l["a"] == "Reset")
    return keep


def arms(ctx, info, need=True):
    """per route x flavour: how many lines exercised each arm (vacuity guard)"""
    hist = ctx.cov.setdefault("arm_hits", {})
    for key, v in info.get("per_route", {}).items():
        h = hist.setdefault(key, {})
        for f, c in v.items():
            if isinstance(c, int):
                h[f] = h.get(f, 0) + c
        if v.get("request_mismatch"):
            # the connector's subscription request names other venue symbols than those of the subscribed
            # instruments: the venue streams other markets than the ones subscribed
            route, fl = key.rsplit("/", 1)
            ex = v["request_mismatch_example"]
            ctx.violation("%s:subscribed->request-names-other-markets" % key,
                          "%s (%s instruments): subscribing markets %s, the connector's request names %s but the venue's "
                          "symbols of these instruments are %s (%d such subscription(s))" % (
                              route, fl, ex["S"], json.dumps(ex["detail"]["requests_name"]),
                              json.dumps(ex["detail"]["venue_symbols_of_subscribed_instruments"]), v["request_mismatch"]),
                          {"route": route, "flavour": fl, "scenario": {"evs": [
                              {"a": "Subscribe", "S": ex["S"], "off": ex["off"], "d": 0, "dk": 0, "buf": False, "m": 0, "fs": []}]}})
        if need and not (v.get("messages_subscribed") and v.get("messages_unsubscribed") and v.get("subscribes")):
            ctx.c13_vacuous = getattr(ctx, "c13_vacuous", []) + [(key, v)]


def twins(ctx, info, table):
    """the case-twin flavours must have run on every route but the Binance ones (whose connector
    lower-cases the market on the wire)"""
    want_skipped = {"%s/%s" % ("/".join(r), fl) for r in table if r[0].startswith("binance_") for fl in TWIN_FLAVOURS}
    want_run = {"%s/%s" % ("/".join(r), fl) for r in table if not r[0].startswith("binance_") for fl in TWIN_FLAVOURS}
    skipped = set(info.get("twins_skipped", []))
    ran = {k for k in info.get("per_route", {}) if k.rsplit("/", 1)[1] in TWIN_FLAVOURS}
    if skipped != want_skipped or ran != want_run:
        raise vlib.ToolError("case-twin flavours: skipped %s (expected %s), ran on %d routes x flavours (expected %d: %s)"
                             % (sorted(skipped), sorted(want_skipped), len(ran), len(want_run), sorted(ran ^ want_run)))
    ctx.cov["case_twin_route_flavours"] = len(ran)
    ctx.cov["case_twin_routes_skipped_connector_normalises_case"] = sorted({k.rsplit("/", 1)[0] for k in skipped})


def twin_shapes(ctx, keep):
    """coverage counters of the case-twin shapes in a validated trace (vacuity guard): messages about
    a market whose case-twin (1<->2, 3<->4) is / is not subscribed"""
    c = ctx.cov.setdefault("case_twin_shapes", {"subscribed_twin_unsubscribed": 0, "unsubscribed_twin_subscribed": 0,
                                                "both_subscribed": 0, "events": 0, "unidentifiable": 0})
    subs = set()
    for l in keep:
        if l["fl"] not in TWIN_FLAVOURS:
            continue
        if l["a"] == "Subscribe":
            subs = set() if l["out"] else set(l["S"])
        elif l["a"] in ("Disconnect", "Reset"):
            subs = set()
        elif l["a"] == "Message" and l["m"] <= 4:
            m = l["m"]
            tw = {1: 2, 2: 1, 3: 4, 4: 3}[m]
            if m in subs and tw in subs:
                c["both_subscribed"] += 1
            elif m in subs:
                c["subscribed_twin_unsubscribed"] += 1
            elif tw in subs:
                c["unsubscribed_twin_subscribed"] += 1
            c["events"] += sum(1 for o in l["out"] if o["k"] == "ev")
            c["unidentifiable"] += sum(1 for o in l["out"] if o["k"] == "unid")


def vacuity(ctx):
    """a route x flavour that exercised no message arm is a tool error - unless that is the finding
    (its subscriptions failed and were reported as violations)"""
    for key, v in getattr(ctx, "c13_vacuous", []):
        if not any(x.sig.startswith(key + ":") for x in ctx.violations):
            raise vlib.ToolError("vacuous run: route %s exercised %s" % (key, v))
    ctx.c13_vacuous = []


def check(ctx):
    ctx.assumptions += ASSUMPTIONS
    ctx.build("c13")
    table = check_quantifier(ctx)
    ctx.tlc_mc(MODULE, "MC_MarketRouting.cfg" if ctx.quick else "MC_MarketRouting_thorough.cfg", timeout=1500)
    ctx.tlc_mc(MODULE, "MC_MarketRouting_batch.cfg", timeout=600)
    # (i) every subset of the universe x both key assignments x one message for every market
    p_t, scn_t = ctx.tlc_gen("Gen_" + MODULE, "GenT_MarketRouting.cfg", "transitions.ndjson")
    # (ii) simulated sessions with re-connections
    nb = 40 if ctx.quick else 400
    p_b, scn_b = ctx.tlc_gen("Gen_" + MODULE, "GenB_MarketRouting.cfg", "behaviours.ndjson", simulate=(nb, 30), timeout=900)
    ctx.sample({"kind": "TLC scenario (subset x message), run on every route and flavour", "scenario": scn_t[len(scn_t) // 2]})
    ctx.sample({"kind": "TLC simulated session", "scenario": {"evs": scn_b[0]["evs"][:8]}})
    # (iii) a market subscribed twice in a row (same instrument / a second instrument under the same
    #       market), every subset, then a message for every market, live and buffered alternating
    p_d, scn_d = ctx.tlc_gen("Gen_" + MODULE, "GenD_MarketRouting.cfg", "repeated.ndjson")
    ctx.sample({"kind": "TLC scenario with a repeated market", "scenario": scn_d[len(scn_d) // 2]})
    for label, scn, n in (("transitions", p_t, len(scn_t)), ("repeated", p_d, len(scn_d)), ("behaviours", p_b, len(scn_b))):
        out = ctx.path("trace_%s.ndjson" % label)
        # generated items range over the four L1 side values: on other routes the one-sided ones are
        # duplicates (skipped in the exhaustive set, mapped to buy/sell in the sessions)
        info = ctx.harness("c13", "run", "--scenarios", scn, "--out", out, "--onesided", "skip" if label == "transitions" else "map")
        arms(ctx, info)
        twins(ctx, info, table)
        keep = validate(ctx, out, label)
        twin_shapes(ctx, keep)
        vacuity(ctx)
        ctx.cov["scenarios_replayed"] += sum(1 for l in keep if l["a"] == "Reset")
        if label == "transitions":
            ok = [l for l in keep if l["a"] == "Message" and l["out"] and l["out"][0]["k"] == "ev"]
            if ok:
                ctx.sample({"kind": "recorded implementation line (accepted by the spec)", "line": ok[len(ok) // 3]})
    steps = 400 if ctx.quick else 6000
    out = ctx.path("trace_random.ndjson")
    info = ctx.harness("c13", "random", "--seed", ctx.seed, "--steps", steps, "--out", out)
    arms(ctx, info)
    twins(ctx, info, table)
    twin_shapes(ctx, validate(ctx, out, "random"))
    vacuity(ctx)
    shapes = ctx.cov.get("case_twin_shapes", {})
    if not ctx.violations and not all(shapes.get(k) for k in ("subscribed_twin_unsubscribed", "unsubscribed_twin_subscribed", "both_subscribed")):
        raise vlib.ToolError("vacuous run: case-twin shapes not all exercised: %s" % shapes)
    total_ev = sum(h.get("out_ev", 0) for h in ctx.cov["arm_hits"].values())
    if total_ev == 0:
        raise vlib.ToolError("vacuous run: no route produced a single event")
    return ctx.finish()


def replay(ctx, rp):
    ctx.build("c13")
    scn = ctx.path("replay_scn.ndjson")
    with open(scn, "w") as f:
        f.write(json.dumps(rp["scenario"]) + "\n")
    out = ctx.path("replay_trace.ndjson")
    info = ctx.harness("c13", "run", "--scenarios", scn, "--out", out, "--routes", rp["route"], "--flavours", rp["flavour"])
    arms(ctx, info, need=False)
    keep = validate(ctx, out, "replay", verbose=True)
    for l in keep:
        vlib.log("  %s" % json.dumps(l))
    return ctx.finish(write_evidence=False)
