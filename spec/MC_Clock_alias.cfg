SPECIFICATION Spec
CONSTANTS
  HANDLES = {1, 2, 3}
  TIMES = {0, 1}
  MAXWALL = 1
  ITEMLISTS <- ItemListsSmall
  Events <- EventsSmall
INVARIANTS TypeOK ExLastIsMax TimeNotBelowEx TimeAddsElapsed SharedIffCloned
PROPERTIES Monotone LateIgnored UntimedIgnored NewerAdopted EqualTimeRestartsElapsed ObservedSharing CloneNew
VIEW View
CHECK_DEADLOCK FALSE
