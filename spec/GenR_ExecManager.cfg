SPECIFICATION GSpecR
CONSTANTS
  STALL = {}
  LateResponseOK = TRUE
  NoTimeout = FALSE
  STALLOFF = {9000, 9001, 9002, 9003, 9004, 9005, 1, 120, 170, 300}
  REQ = {1, 2, 3, 4}
  T = 100
  ACCEPT = {0, 50, 100, 150}
  DELAY = {0, 50, 100, 150, 250}
  EX = 0
  INST = {0, 1, 2}
  SIDE = {"buy", "sell"}
  PRICE = {7, 11, 12, 13, 14}
  QTY = {1, 2, 3}
  BUNDLE = {"lim", "mkt"}
  NS = {1, 2, 3, 4}
  SHUT = {9000, 9001, 9002, 9003, 9004, 9005, 9006, 9007, 9008, 9009, 9010, 9011, 0, 50, 100, 150, 200, 250}
INVARIANTS WellFormed PrintScn
CHECK_DEADLOCK FALSE
