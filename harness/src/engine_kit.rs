//! A real `Engine` wired for conformance drivers (C03, C09, C10, C14, C19 ...):
//!  * `MultiExchangeTxMap<FaultyTx>` — execution links whose fault state the driver scripts
//!    (healthy: logs what was delivered; unhealthy: recoverable error; closed: a genuine
//!    `UnboundedTx` whose receiver was dropped; missing: `None` slot in the map),
//!  * `ScriptStrategy` — algo output taken from a script cell shared with the driver; counting
//!    on-disconnect / on-trading-disabled hooks; the repository's default close-positions logic,
//!  * `ScriptRisk` — refuses the client order ids the driver lists.
//!
//! The abstract events of spec/EngineCore.tla are turned into real `EngineEvent`s here
//! (`make_event`), and the real `EngineState` / `AuditTick` are projected back (`project_state`,
//! `project_tick`). These are the only translations between the two worlds.
use crate::{util::*, world2 as world};
use barter::{
    EngineEvent,
    engine::{
        Engine, EngineOutput,
        action::{
            ActionOutput,
            generate_algo_orders::GenerateAlgoOrdersOutput,
            send_requests::{SendCancelsAndOpensOutput, SendRequestsOutput},
        },
        audit::{AuditTick, EngineAudit},
        clock::HistoricalClock,
        command::Command,
        error::EngineError,
        execution_tx::MultiExchangeTxMap,
        state::{
            connectivity::Health,
            instrument::filter::InstrumentFilter,
            trading::TradingState,
        },
    },
    execution::{AccountStreamEvent, request::ExecutionRequest},
    risk::{RiskApproved, RiskManager, RiskRefused},
    strategy::{
        algo::AlgoStrategy,
        close_positions::{ClosePositionsStrategy, close_open_positions_with_market_orders},
        on_disconnect::OnDisconnectStrategy,
        on_trading_disabled::OnTradingDisabled,
    },
};
use barter_data::{
    event::{DataKind, MarketEvent},
    streams::consumer::MarketStreamEvent,
    subscription::trade::PublicTrade,
};
use barter_execution::{
    AccountEvent, AccountEventKind,
    balance::{AssetBalance, Balance},
    order::{
        Order, OrderKey, OrderKind, TimeInForce,
        id::{ClientOrderId, OrderId, StrategyId},
        request::{OrderRequestCancel, OrderRequestOpen, OrderResponseCancel, RequestCancel, RequestOpen},
        state::{ActiveOrderState, Cancelled, Open, OrderState},
    },
    error::{ConnectivityError, OrderError},
    trade::{AssetFees, Trade, TradeId},
};
use barter_instrument::{
    Side, Underlying,
    asset::AssetIndex,
    exchange::{ExchangeId, ExchangeIndex},
    instrument::InstrumentIndex,
};
use barter_integration::{
    Unrecoverable,
    channel::{Tx, UnboundedTx, mpsc_unbounded},
    collection::one_or_many::OneOrMany,
    snapshot::Snapshot,
};
use parking_lot::Mutex;
use serde_json::{Value, json};
use std::{collections::HashSet, sync::Arc};

// ------------------------------------------------------------------------------------------
// execution links
// ------------------------------------------------------------------------------------------
#[derive(Debug, Clone, Copy, PartialEq, Eq)]
pub enum LinkMode {
    Healthy,
    Unhealthy,
    Closed,
}

#[derive(Debug, Clone)]
pub struct FaultyTx {
    pub mode: LinkMode,
    pub log: Arc<Mutex<Vec<ExecutionRequest>>>,
    closed: UnboundedTx<ExecutionRequest>,
}

#[derive(Debug)]
pub enum FaultyErr {
    Unhealthy,
    Closed(tokio::sync::mpsc::error::SendError<ExecutionRequest>),
}

impl Unrecoverable for FaultyErr {
    fn is_unrecoverable(&self) -> bool {
        match self {
            FaultyErr::Unhealthy => false,
            FaultyErr::Closed(e) => e.is_unrecoverable(),
        }
    }
}

impl Tx for FaultyTx {
    type Item = ExecutionRequest;
    type Error = FaultyErr;
    fn send<Item: Into<Self::Item>>(&self, item: Item) -> Result<(), Self::Error> {
        match self.mode {
            LinkMode::Healthy => {
                self.log.lock().push(item.into());
                Ok(())
            }
            LinkMode::Unhealthy => Err(FaultyErr::Unhealthy),
            // the genuine closed-channel path: a real UnboundedTx whose receiver is gone
            LinkMode::Closed => self.closed.send(item.into()).map_err(FaultyErr::Closed),
        }
    }
}

pub struct Links {
    pub logs: Vec<Arc<Mutex<Vec<ExecutionRequest>>>>,
}

impl Links {
    pub fn new() -> Self {
        Self { logs: (0..world::EXCHANGES.len()).map(|_| Arc::new(Mutex::new(vec![]))).collect() }
    }
    /// `modes[e]` in {"healthy","unhealthy","closed","missing"}, one per exchange of the world
    pub fn tx_map(&self, modes: &[String]) -> MultiExchangeTxMap<FaultyTx> {
        if modes.len() != world::N_EX {
            usage(&format!("env.link must name the link state of each of the {} exchanges (got {})", world::N_EX, modes.len()));
        }
        MultiExchangeTxMap::from_iter(world::EXCHANGES.iter().enumerate().map(|(e, id)| {
            let mode = match modes[e].as_str() {
                "healthy" => Some(LinkMode::Healthy),
                "unhealthy" => Some(LinkMode::Unhealthy),
                "closed" => Some(LinkMode::Closed),
                "missing" => None,
                m => usage(&format!("bad link mode {m}")),
            };
            let (closed, rx) = mpsc_unbounded();
            drop(rx);
            (*id, mode.map(|mode| FaultyTx { mode, log: self.logs[e].clone(), closed }))
        }))
    }
    pub fn take(&self) -> Vec<Vec<ExecutionRequest>> {
        self.logs.iter().map(|l| std::mem::take(&mut *l.lock())).collect()
    }
}

// ------------------------------------------------------------------------------------------
// scripted strategy / risk
// ------------------------------------------------------------------------------------------
#[derive(Debug, Default)]
pub struct Script {
    pub cancels: Vec<OrderRequestCancel>,
    pub opens: Vec<OrderRequestOpen>,
    pub algo_calls: usize,
    pub disconnects: Vec<ExchangeId>,
    pub disabled_calls: usize,
    /// the close-positions strategy of this step: false = the repository's default (market orders
    /// only), true = a CUSTOM strategy that first cancels the resting orders of the matching
    /// instruments and then closes with the same market orders (event `ClosePositionsCF`)
    pub close_cancel_first: bool,
}

#[derive(Debug, Clone)]
pub struct ScriptStrategy {
    pub id: StrategyId,
    pub script: Arc<Mutex<Script>>,
    /// None: close-positions orders use the fixed id "x"; Some: fresh ids "x<n>" (C10 driver:
    /// client order ids are never reused while tracked)
    pub fresh_close_cids: Option<Arc<std::sync::atomic::AtomicUsize>>,
}

impl AlgoStrategy for ScriptStrategy {
    type State = world::State;
    fn generate_algo_orders(
        &self,
        _: &Self::State,
    ) -> (
        impl IntoIterator<Item = OrderRequestCancel<ExchangeIndex, InstrumentIndex>>,
        impl IntoIterator<Item = OrderRequestOpen<ExchangeIndex, InstrumentIndex>>,
    ) {
        let mut s = self.script.lock();
        s.algo_calls += 1;
        (s.cancels.clone(), s.opens.clone())
    }
}

pub const CLOSE_CID: &str = "x";

impl ClosePositionsStrategy for ScriptStrategy {
    type State = world::State;
    fn close_positions_requests<'a>(
        &'a self,
        state: &'a Self::State,
        filter: &'a InstrumentFilter<ExchangeIndex, AssetIndex, InstrumentIndex>,
    ) -> (
        impl IntoIterator<Item = OrderRequestCancel<ExchangeIndex, InstrumentIndex>> + 'a,
        impl IntoIterator<Item = OrderRequestOpen<ExchangeIndex, InstrumentIndex>> + 'a,
    )
    where
        ExchangeIndex: 'a,
        AssetIndex: 'a,
        InstrumentIndex: 'a,
    {
        // the repository's default close-positions logic
        let fresh: Option<&std::sync::atomic::AtomicUsize> = self.fresh_close_cids.as_deref();
        let (no_cancels, opens) = close_open_positions_with_market_orders(&self.id, state, filter, move |_| match fresh {
            None => ClientOrderId::new(CLOSE_CID),
            Some(n) => ClientOrderId::new(format!("{CLOSE_CID}{}", n.fetch_add(1, std::sync::atomic::Ordering::Relaxed))),
        });
        // ... preceded, for the custom "cancel first" strategy, by cancels of the matching instruments' resting orders
        // (built the way the engine's own cancel-orders action builds them)
        let mut cancels: Vec<OrderRequestCancel<ExchangeIndex, InstrumentIndex>> = no_cancels.into_iter().collect();
        if self.script.lock().close_cancel_first {
            cancels.extend(state.instruments.orders(filter).flat_map(|orders| barter::engine::state::order::manager::OrderManager::orders(orders).filter_map(Order::to_request_cancel)));
        }
        (cancels, opens.into_iter().collect::<Vec<_>>())
    }
}

#[derive(Debug, Clone, Default)]
pub struct ScriptRisk {
    pub refuse: Arc<Mutex<HashSet<String>>>,
}

impl RiskManager for ScriptRisk {
    type State = world::State;
    fn check(
        &self,
        _: &Self::State,
        cancels: impl IntoIterator<Item = OrderRequestCancel<ExchangeIndex, InstrumentIndex>>,
        opens: impl IntoIterator<Item = OrderRequestOpen<ExchangeIndex, InstrumentIndex>>,
    ) -> (
        impl IntoIterator<Item = RiskApproved<OrderRequestCancel<ExchangeIndex, InstrumentIndex>>>,
        impl IntoIterator<Item = RiskApproved<OrderRequestOpen<ExchangeIndex, InstrumentIndex>>>,
        impl IntoIterator<Item = RiskRefused<OrderRequestCancel<ExchangeIndex, InstrumentIndex>>>,
        impl IntoIterator<Item = RiskRefused<OrderRequestOpen<ExchangeIndex, InstrumentIndex>>>,
    ) {
        let refuse = self.refuse.lock().clone();
        let (rc, ac): (Vec<_>, Vec<_>) = cancels.into_iter().partition(|r| refuse.contains(r.key.cid.0.as_str()));
        let (ro, ao): (Vec<_>, Vec<_>) = opens.into_iter().partition(|r| refuse.contains(r.key.cid.0.as_str()));
        (
            ac.into_iter().map(RiskApproved::new),
            ao.into_iter().map(RiskApproved::new),
            rc.into_iter().map(|r| RiskRefused::new(r, "scripted refusal")),
            ro.into_iter().map(|r| RiskRefused::new(r, "scripted refusal")),
        )
    }
}

pub type Eng = Engine<HistoricalClock, world::State, MultiExchangeTxMap<FaultyTx>, ScriptStrategy, ScriptRisk>;

impl OnDisconnectStrategy<HistoricalClock, world::State, MultiExchangeTxMap<FaultyTx>, ScriptRisk> for ScriptStrategy {
    type OnDisconnect = ExchangeId;
    fn on_disconnect(engine: &mut Eng, exchange: ExchangeId) -> Self::OnDisconnect {
        engine.strategy.script.lock().disconnects.push(exchange);
        exchange
    }
}

impl OnTradingDisabled<HistoricalClock, world::State, MultiExchangeTxMap<FaultyTx>, ScriptRisk> for ScriptStrategy {
    type OnTradingDisabled = ();
    fn on_trading_disabled(engine: &mut Eng) -> Self::OnTradingDisabled {
        engine.strategy.script.lock().disabled_calls += 1;
    }
}

pub struct Kit {
    pub engine: Eng,
    pub links: Links,
    pub script: Arc<Mutex<Script>>,
    pub refuse: Arc<Mutex<HashSet<String>>>,
}

pub fn strategy_id() -> StrategyId {
    StrategyId::new("vh")
}

impl Kit {
    pub fn new(trading: TradingState) -> Self {
        let links = Links::new();
        let script = Arc::new(Mutex::new(Script::default()));
        let refuse = Arc::new(Mutex::new(HashSet::new()));
        let engine = Engine::new(
            HistoricalClock::new(time(0)),
            world::engine_state(trading),
            links.tx_map(&vec!["healthy".to_string(); world::EXCHANGES.len()]),
            ScriptStrategy { id: strategy_id(), script: script.clone(), fresh_close_cids: None },
            ScriptRisk { refuse: refuse.clone() },
        );
        Self { engine, links, script, refuse }
    }

    /// Select the close-positions strategy for the event about to be processed.
    pub fn set_close_mode(&mut self, ev: &Value) {
        self.script.lock().close_cancel_first = ev["a"].as_str() == Some("ClosePositionsCF");
    }

    /// An environment recorded for the former two-exchange world (replay files): the links it does not
    /// name are healthy.
    pub fn normalise_env(env: &Value) -> Value {
        let mut env = env.clone();
        if let Some(link) = env["link"].as_array_mut() {
            while link.len() < world::N_EX {
                link.push(json!("healthy"));
            }
        }
        env
    }

    /// Install the step's environment: link fault states, the strategy's output, risk refusals.
    pub fn set_env(&mut self, env: &Value) {
        let modes: Vec<String> = env["link"].as_array().expect("env.link").iter().map(|m| m.as_str().unwrap().to_string()).collect();
        self.engine.execution_txs = self.links.tx_map(&modes);
        let mut s = self.script.lock();
        s.cancels = env["algoC"].as_array().expect("algoC").iter().map(cancel_req).collect();
        s.opens = env["algoO"].as_array().expect("algoO").iter().map(open_req).collect();
        *self.refuse.lock() = env["refuse"].as_array().expect("refuse").iter().map(|c| c.as_str().unwrap().to_string()).collect();
    }
}

// ------------------------------------------------------------------------------------------
// abstract request <-> real request
//   {"k":"open"|"cancel","ex":E,"inst":I,"cid":"c1","side":"buy"|"sell"|"-","qty":Q,"hasId":bool}
// ------------------------------------------------------------------------------------------
pub fn side_of(s: &str) -> Side {
    match s {
        "buy" => Side::Buy,
        "sell" => Side::Sell,
        x => usage(&format!("bad side {x}")),
    }
}
pub fn side_str(s: Side) -> &'static str {
    match s {
        Side::Buy => "buy",
        Side::Sell => "sell",
    }
}

fn key_of(r: &Value) -> OrderKey {
    OrderKey {
        exchange: ExchangeIndex(i(r, "ex") as usize),
        instrument: InstrumentIndex(i(r, "inst") as usize),
        strategy: strategy_id(),
        cid: ClientOrderId::new(s(r, "cid")),
    }
}

pub const REQ_PRICE: i64 = 10;

pub fn open_req(r: &Value) -> OrderRequestOpen {
    OrderRequestOpen {
        key: key_of(r),
        state: RequestOpen {
            side: side_of(s(r, "side")),
            price: dec(REQ_PRICE),
            quantity: dec(i(r, "qty")),
            kind: OrderKind::Limit,
            time_in_force: TimeInForce::GoodUntilCancelled { post_only: false },
        },
    }
}

pub fn cancel_req(r: &Value) -> OrderRequestCancel {
    OrderRequestCancel { key: key_of(r), state: RequestCancel { id: b(r, "hasId").then(|| OrderId::new("o1")) } }
}

pub fn open_json(r: &OrderRequestOpen) -> Value {
    json!({"k": "open", "ex": r.key.exchange.index(), "inst": r.key.instrument.index(), "cid": r.key.cid.0.as_str(),
           "side": side_str(r.state.side), "qty": dec_json(r.state.quantity), "hasId": false})
}
pub fn cancel_json(r: &OrderRequestCancel) -> Value {
    json!({"k": "cancel", "ex": r.key.exchange.index(), "inst": r.key.instrument.index(), "cid": r.key.cid.0.as_str(),
           "side": "-", "qty": 0, "hasId": r.state.id.is_some()})
}
pub fn exec_json(r: &ExecutionRequest) -> Value {
    match r {
        ExecutionRequest::Open(o) => open_json(o),
        ExecutionRequest::Cancel(c) => cancel_json(c),
        ExecutionRequest::Shutdown => json!({"k": "shutdown", "ex": -1, "inst": -1, "cid": "", "side": "-", "qty": 0, "hasId": false}),
    }
}

// ------------------------------------------------------------------------------------------
// abstract event -> real EngineEvent.   Uniform descriptor (all fields always present):
//  {"a":..., "ex":E, "inst":I, "cid":"c1", "kind":"Open"|"Inactive"|..., "side":"buy"|"sell"|"-",
//   "qty":Q, "ok":bool, "to":"Enabled"|"Disabled"|"-", "price":P, "reqs":[request..],
//   "filter":{"k":"None"|"Exchanges"|"Instruments"|"Underlyings","set":[ints]}, "t":T}
// ------------------------------------------------------------------------------------------
pub fn exchange_id(e: i64) -> ExchangeId {
    world::EXCHANGES[e as usize]
}

pub fn underlying(u: i64) -> Underlying<AssetIndex> {
    // The Underlyings filter compares the Underlying<AssetIndex> of an instrument (asset indices are
    // per exchange): `u` = an instrument index naming "the underlying of that instrument"
    // (in world2 instruments 0 and 1 share theirs).
    let st = world::engine_state(TradingState::Disabled);
    st.instruments.instrument_index(&InstrumentIndex(u as usize)).instrument.underlying.clone()
}

pub fn filter_of(f: &Value) -> InstrumentFilter {
    let set: Vec<i64> = f["set"].as_array().expect("filter.set").iter().map(|x| x.as_i64().unwrap()).collect();
    match s(f, "k") {
        "None" => InstrumentFilter::None,
        // through the public constructors, as a user builds a filter from a collection (possibly empty)
        "Exchanges" => InstrumentFilter::exchanges(set.iter().map(|e| ExchangeIndex(*e as usize))),
        "Instruments" => InstrumentFilter::instruments(set.iter().map(|x| InstrumentIndex(*x as usize))),
        "Underlyings" => InstrumentFilter::underlyings(set.iter().map(|u| underlying(*u))),
        k => usage(&format!("bad filter kind {k}")),
    }
}

thread_local! {
    /// exchange time of the last open report built per client order id (for "tie" reports)
    static LAST_REPORT: std::cell::RefCell<std::collections::HashMap<String, i64>> = std::cell::RefCell::new(Default::default());
}

pub fn order_snapshot(e: &Value) -> Order<ExchangeIndex, InstrumentIndex, OrderState<AssetIndex, InstrumentIndex>> {
    let mut t = i(e, "t");
    // optional "tie": true -> an open report carrying the SAME exchange timestamp as the previous
    // open report for this id but a different filled quantity (two fills in one exchange millisecond)
    let tie = e.get("tie").and_then(|x| x.as_bool()).unwrap_or(false);
    let mut filled = 0;
    if s(e, "kind") == "Open" {
        let cid = s(e, "cid").to_string();
        LAST_REPORT.with(|m| {
            let mut m = m.borrow_mut();
            if tie {
                if let Some(prev) = m.get(&cid) {
                    t = *prev;
                    filled = 1;
                }
            }
            m.insert(cid, t);
        });
    }
    let state = match s(e, "kind") {
        "Open" => OrderState::active(Open::new(OrderId::new("o1"), time(t), dec(filled))),
        "Inactive" => match t % 3 {
            0 => OrderState::inactive(Cancelled::new(OrderId::new("o1"), time(t))),
            1 => OrderState::fully_filled(),
            _ => OrderState::expired(),
        },
        k => usage(&format!("bad order report kind {k}")),
    };
    // reports carry the request's own fields when the driver knows them (as the execution manager does)
    let side = if s(e, "side") == "-" { Side::Buy } else { side_of(s(e, "side")) };
    let qty = if i(e, "qty") == 0 { 2 } else { i(e, "qty") };
    Order {
        key: key_of(e),
        side,
        price: dec(REQ_PRICE),
        quantity: dec(qty),
        kind: OrderKind::Limit,
        time_in_force: TimeInForce::GoodUntilCancelled { post_only: false },
        state,
    }
}

pub fn make_event(e: &Value) -> EngineEvent<DataKind> {
    let t = i(e, "t");
    let ex = i(e, "ex");
    let inst = InstrumentIndex(i(e, "inst").max(0) as usize);
    let account = |kind: AccountEventKind<ExchangeIndex, AssetIndex, InstrumentIndex>| {
        EngineEvent::Account(AccountStreamEvent::Item(AccountEvent { exchange: ExchangeIndex(ex as usize), kind }))
    };
    match s(e, "a") {
        "Market" => EngineEvent::Market(MarketStreamEvent::Item(MarketEvent {
            time_exchange: time(t),
            time_received: time(t),
            exchange: exchange_id(ex),
            instrument: inst,
            kind: DataKind::Trade(PublicTrade { id: format!("m{t}"), price: i(e, "price") as f64, amount: 1.0, side: Side::Buy }),
        })),
        // a market item without a price of its own: a one-sided or empty top of book, a candle, a liquidation
        "MarketNoPrice" => EngineEvent::Market(MarketStreamEvent::Item(MarketEvent {
            time_exchange: time(t),
            time_received: time(t),
            exchange: exchange_id(ex),
            instrument: inst,
            kind: {
                use barter_data::{books::Level, subscription::{book::OrderBookL1, candle::Candle, liquidation::Liquidation}};
                let level = Some(Level::new(dec(i(e, "price").max(1)), dec(1)));
                match t.rem_euclid(5) {
                    0 => DataKind::OrderBookL1(OrderBookL1 { last_update_time: time(t), best_bid: level, best_ask: None }),
                    1 => DataKind::OrderBookL1(OrderBookL1 { last_update_time: time(t), best_bid: None, best_ask: level }),
                    2 => DataKind::OrderBookL1(OrderBookL1 { last_update_time: time(t), best_bid: None, best_ask: None }),
                    3 => DataKind::Candle(Candle { close_time: time(t), open: 1.0, high: 2.0, low: 0.5, close: 1.5, volume: 3.0, trade_count: 2 }),
                    _ => DataKind::Liquidation(Liquidation { side: Side::Sell, price: 1.0, quantity: 1.0, time: time(t) }),
                }
            },
        })),
        "MarketReconnecting" => EngineEvent::Market(MarketStreamEvent::Reconnecting(exchange_id(ex))),
        "AccountReconnecting" => EngineEvent::Account(AccountStreamEvent::Reconnecting(exchange_id(ex))),
        // every third order report arrives inside a FULL account snapshot (the re-sync after a reconnect) that lists the
        // instrument with this one report: for the order it is the same report - in particular an open report about an
        // order whose cancel is in flight leaves the cancel in flight
        "OrderSnap" if t.rem_euclid(3) == 0 => account(AccountEventKind::Snapshot(barter_execution::AccountSnapshot {
            exchange: ExchangeIndex(ex as usize),
            balances: vec![],
            instruments: vec![barter_execution::InstrumentAccountSnapshot { instrument: inst, orders: vec![order_snapshot(e)] }],
        })),
        "OrderSnap" => account(AccountEventKind::OrderSnapshot(Snapshot(order_snapshot(e)))),
        "CancelResp" => account(AccountEventKind::OrderCancelled(OrderResponseCancel {
            key: key_of(e),
            // a failed cancel comes in several flavours (timeout, rate limit, "already cancelled", "already fully
            // filled"): the engine treats every one of them as "the cancel failed"
            state: if b(e, "ok") {
                Ok(Cancelled::new(OrderId::new("o1"), time(t)))
            } else {
                Err(match t.rem_euclid(4) {
                    0 => OrderError::Connectivity(ConnectivityError::Timeout),
                    1 => OrderError::Rejected(barter_execution::error::ApiError::OrderAlreadyCancelled),
                    2 => OrderError::Rejected(barter_execution::error::ApiError::OrderAlreadyFullyFilled),
                    _ => OrderError::Rejected(barter_execution::error::ApiError::RateLimit),
                })
            },
        })),
        "Trade" => account(AccountEventKind::Trade(Trade {
            id: TradeId::new(format!("t{t}")),
            order_id: OrderId::new("o1"),
            instrument: inst,
            strategy: strategy_id(),
            time_exchange: time(t),
            side: side_of(s(e, "side")),
            price: dec(i(e, "price")),
            quantity: dec(i(e, "qty")),
            fees: AssetFees::quote_fees(dec(0)),
        })),
        "Balance" => {
            let balance = AssetBalance {
                asset: AssetIndex(world::FIRST_ASSET[ex as usize]),
                balance: Balance::new(dec(i(e, "qty")), dec(i(e, "qty"))),
                time_exchange: time(t),
            };
            if i(e, "qty") % 2 == 1 {
                // the same balance inside a FULL account snapshot that lists every instrument of the exchange
                // without any order report (a re-sync taken before the exchange has seen the requests in
                // flight): tracked orders and their in-flight marks are not touched by it
                let instruments = (0..world::N_INST)
                    .filter(|n| world::EX_OF[*n] == ex as usize)
                    .map(|n| barter_execution::InstrumentAccountSnapshot { instrument: InstrumentIndex(n), orders: vec![] })
                    .collect();
                account(AccountEventKind::Snapshot(barter_execution::AccountSnapshot { exchange: ExchangeIndex(ex as usize), balances: vec![balance], instruments }))
            } else {
                account(AccountEventKind::BalanceSnapshot(Snapshot(balance)))
            }
        }
        "TradingState" => EngineEvent::TradingStateUpdate(match s(e, "to") {
            "Enabled" => TradingState::Enabled,
            "Disabled" => TradingState::Disabled,
            x => usage(&format!("bad trading state {x}")),
        }),
        "SendOpens" => EngineEvent::Command(Command::SendOpenRequests(OneOrMany::from_iter(e["reqs"].as_array().unwrap().iter().map(open_req)))),
        "SendCancels" => EngineEvent::Command(Command::SendCancelRequests(OneOrMany::from_iter(e["reqs"].as_array().unwrap().iter().map(cancel_req)))),
        "CancelOrders" => EngineEvent::Command(Command::CancelOrders(filter_of(&e["filter"]))),
        // ClosePositionsCF: the same command, handled by the custom cancel-first close strategy (Kit::set_close_mode)
        "ClosePositions" | "ClosePositionsCF" => EngineEvent::Command(Command::ClosePositions(filter_of(&e["filter"]))),
        "Shutdown" => EngineEvent::shutdown(),
        a => usage(&format!("unknown event action {a}")),
    }
}

// ------------------------------------------------------------------------------------------
// projections
// ------------------------------------------------------------------------------------------
pub const CIDS: [&str; 3] = ["c1", "c2", CLOSE_CID];

fn health(h: Health) -> &'static str {
    match h {
        Health::Healthy => "Healthy",
        Health::Reconnecting => "Reconnecting",
    }
}

pub fn order_kind(o: &Order<ExchangeIndex, InstrumentIndex, ActiveOrderState>) -> &'static str {
    match &o.state {
        ActiveOrderState::OpenInFlight(_) => "OIF",
        ActiveOrderState::Open(_) => "Open",
        ActiveOrderState::CancelInFlight(c) => if c.order.is_some() { "CIFo" } else { "CIFn" },
    }
}

pub fn project_state(st: &world::State) -> Value {
    let inst: Vec<Value> = st.instruments.0.values().map(|is| {
        let mut orders = serde_json::Map::new();
        for c in CIDS {
            orders.insert(c.to_string(), json!("U"));
        }
        for (cid, o) in is.orders.0.iter() {
            let k = if CIDS.contains(&cid.0.as_str()) { json!(order_kind(o)) } else { json!("foreign") };
            orders.insert(cid.0.to_string(), k);
        }
        let net = match &is.position.current {
            None => json!(0),
            Some(p) => dec_json(if p.side == Side::Buy { p.quantity_abs } else { -p.quantity_abs }),
        };
        json!({"orders": orders, "net": net, "priced": barter::engine::state::instrument::data::InstrumentDataState::price(&is.data).is_some()})
    }).collect();
    json!({
        "trading": match st.trading { TradingState::Enabled => "Enabled", TradingState::Disabled => "Disabled" },
        "conn": {
            "global": health(st.connectivity.global),
            "ex": st.connectivity.exchanges.values().map(|c| json!({"market": health(c.market_data), "account": health(c.account)})).collect::<Vec<_>>(),
        },
        "inst": inst,
    })
}

fn send_out<K: Clone>(
    o: &SendRequestsOutput<K, ExchangeIndex, InstrumentIndex>,
    f: &dyn Fn(&barter_execution::order::OrderEvent<K, ExchangeIndex, InstrumentIndex>) -> Value,
) -> (Vec<Value>, Vec<Value>) {
    let sent = o.sent.iter().map(|r| f(r)).collect();
    let errs = o.errors.iter().map(|(r, e)| {
        let mut v = f(r);
        v["unrec"] = json!(matches!(e, EngineError::Unrecoverable(_)));
        v
    }).collect();
    (sent, errs)
}

fn out_record(k: &str) -> Value {
    json!({"k": k, "sentO": [], "sentC": [], "errO": [], "errC": [], "refO": [], "refC": [], "ex": -1})
}

fn fill_sends(rec: &mut Value, co: &SendCancelsAndOpensOutput) {
    let (sc, ec) = send_out(&co.cancels, &|r| cancel_json(r));
    let (so, eo) = send_out(&co.opens, &|r| open_json(r));
    rec["sentC"] = json!(sc);
    rec["errC"] = json!(ec);
    rec["sentO"] = json!(so);
    rec["errO"] = json!(eo);
}

fn algo_record(a: &GenerateAlgoOrdersOutput) -> Value {
    let mut rec = out_record("Algo");
    fill_sends(&mut rec, &a.cancels_and_opens);
    rec["refC"] = json!(a.cancels_refused.iter().map(|r| cancel_json(&r.item)).collect::<Vec<_>>());
    rec["refO"] = json!(a.opens_refused.iter().map(|r| open_json(&r.item)).collect::<Vec<_>>());
    rec
}

pub type Tick = AuditTick<EngineAudit<EngineEvent<DataKind>, EngineOutput<(), ExchangeId>>>;

fn exchange_index_of(id: &ExchangeId) -> i64 {
    world::EXCHANGES.iter().position(|e| e == id).map(|p| p as i64).unwrap_or(-1)
}

/// The audit tick on the fields C03/C10/C14/C19 name (error strings are not compared).
pub fn project_tick(tick: &Tick) -> Value {
    let seq = tick.context.sequence.value();
    match &tick.event {
        EngineAudit::FeedEnded => json!({"seq": seq, "feedEnded": true, "terminal": true, "errs": 0, "outputs": []}),
        EngineAudit::Process(p) => {
            let outputs: Vec<Value> = p.outputs.iter().map(|o| match o {
                EngineOutput::Commanded(a) => {
                    let mut rec = out_record("Commanded");
                    match a {
                        ActionOutput::GenerateAlgoOrders(g) => rec = algo_record(g),
                        ActionOutput::CancelOrders(c) => {
                            let (s, e) = send_out(c, &|r| cancel_json(r));
                            rec["sentC"] = json!(s);
                            rec["errC"] = json!(e);
                        }
                        ActionOutput::OpenOrders(o) => {
                            let (s, e) = send_out(o, &|r| open_json(r));
                            rec["sentO"] = json!(s);
                            rec["errO"] = json!(e);
                        }
                        ActionOutput::ClosePositions(co) => fill_sends(&mut rec, co),
                    }
                    rec
                }
                EngineOutput::AlgoOrders(a) => algo_record(a),
                EngineOutput::OnTradingDisabled(()) => out_record("OnTradingDisabled"),
                EngineOutput::AccountDisconnect(e) => { let mut r = out_record("AccountDisconnect"); r["ex"] = json!(exchange_index_of(e)); r }
                EngineOutput::MarketDisconnect(e) => { let mut r = out_record("MarketDisconnect"); r["ex"] = json!(exchange_index_of(e)); r }
                EngineOutput::PositionExit(x) => { let mut r = out_record("PositionExit"); r["ex"] = json!(x.instrument.index()); r }
            }).collect();
            use barter_integration::Terminal;
            json!({"seq": seq, "feedEnded": false, "terminal": p.is_terminal(), "errs": p.errors.iter().count(), "outputs": outputs})
        }
    }
}
