SPECIFICATION GSpecM
CONSTANTS
  PRICE = {1, 3, 10}
  QTY = {1, 2, 3}
  FEE <- GenFeeSigned
  MARK <- GenMarkSigned
  MaxFills = 99
  MaxLen = 14
INVARIANT Emit
CHECK_DEADLOCK FALSE
