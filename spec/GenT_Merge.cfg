SPECIFICATION GSpec
CONSTANTS
  MaxL = 2
  MaxR = 2
  MaxLen = 7
INVARIANT Emit
CHECK_DEADLOCK FALSE
