"""C02 - position size and realised PnL conserve the cash flows of the fills (spec/Position.tla)."""
from props import position as P

MODULE = P.MODULE
META = {
    "spec": "Position",
    "technique": "TLA+ spec in exact fractions model-checked with TLC (side/size, exit-iff, conservation, fee and id "
                 "formulas as invariants / action properties); TLC-generated fill behaviours carrying the expected "
                 "Position / PositionExited after every fill replayed into PositionManager, EngineState and "
                 "Engine::process (also at 10^+-6 magnitudes); seeded random engine traces validated by TLC",
}
ASSUMPTIONS = [
    "fills carry price > 0, quantity > 0, fee >= 0 in the quote asset (the quantifier of C02); zero quantities are excluded",
    "decimal rounding: results are compared with the exact fraction within 1e-18 x max(1,|value|) (vh::cmp), "
    "recorded traces within one milli-unit (DESIGN 5.5)",
    "pnl_unrealised is not judged here (C15's verdict); every other field of Position and PositionExited is",
    "magnitudes beyond the TLC domains are reached by the scale-equivariant concretisations x10^+-6 of prices+fees "
    "or quantities+fees of the same behaviours, not by new behaviours",
    "trade ids are distinct per fill; fills of one instrument reach the engine one at a time",
]


def check(ctx):
    ctx.assumptions += ASSUMPTIONS
    ctx.build("c02")
    P.model_check(ctx, with_fills_model=True)
    # (i) every fill sequence of length 3 over the small domain: all arms after all arms
    p_x, scn_x = P.generate(ctx, "GenX_Position.cfg" if ctx.quick else "GenX_Position_thorough.cfg", "fills_exhaustive.ndjson")
    # (ii) long random fill sequences over the wider domain
    nb = 1500 if ctx.quick else 25000
    p_f, scn_f = P.generate(ctx, "GenF_Position.cfg", "fills_random.ndjson", simulate=(nb, 14))
    ctx.sample({"kind": "TLC exhaustive fill behaviour with expected states", "scenario": scn_x[len(scn_x) // 3]})
    ctx.sample({"kind": "TLC simulated fill behaviour (first 4 fills)", "scenario": {"evs": scn_f[0]["evs"][:4]}})
    for mode in ("pm", "state", "engine"):
        P.replay_results(ctx, "c02", "c02", p_x, len(scn_x), mode, "none", "exhaustive")
        for scale in P.SCALES:
            P.replay_results(ctx, "c02", "c02", p_f, len(scn_f), mode, scale, "random")
    # (iii) impl -> spec: seeded random engine runs on two instruments, validated by Trace_Position
    steps = 3000 if ctx.quick else 60000
    for mode in ("state", "engine"):
        P.record_and_validate(ctx, "c02", "c02", mode, steps)
    return ctx.finish()


def replay(ctx, rp):
    return P.replay(ctx, "c02", "c02", rp)
