"""Shared orchestration for the properties decided on spec/EngineCore.tla (C03, C19, C14, C10-sequence).

One specification, one set of recorded traces, several verdicts: Trace_EngineCore tags every
rejected step with the state components that differ from the specification's step and with the
step properties that fail on the observed data; each property reports only its own tags
(DESIGN 5.4, attribution)."""
import json

FILTER_CMDS = ("CancelOrders", "ClosePositions")
C03_PROPS = {"P:SentDelivered", "P:SentInFlight", "P:FailedNeither", "P:NoPhantomInFlight", "P:DisabledSilent"}
C03_COMPONENTS = {"orders", "tick_outputs", "tick_flags", "dl", "trading", "net", "priced"}
C19_TAGS = {"orders", "tick_outputs", "dl", "net", "P:Scope"}
C14_TAGS = {"conn", "P:ConnStep", "P:ConnIff", "on_disconnect_calls"}
C10_TAGS = {"tick_seq"}


def owner_tags(pid, line, tags):
    """the subset of tags that property `pid` answers for on this step"""
    a = line.get("ev", {}).get("a")
    t = set(tags)
    if pid == "C19":
        return t & C19_TAGS if a in FILTER_CMDS else set()
    if pid == "C03":
        own = t & C03_PROPS
        if a not in FILTER_CMDS:
            own |= t & C03_COMPONENTS
        else:
            own |= t & {"tick_flags", "trading"}
        return own
    if pid == "C14":
        own = t & C14_TAGS
        if a in ("MarketReconnecting", "AccountReconnecting"):
            own |= t & {"tick_outputs"}          # the disconnect output (once, right exchange)
        return own
    if pid == "C10":
        return t & C10_TAGS
    return set()


def anomaly(line):
    return line.get("anomaly")


def scenario_of(seg):
    return {"init": seg[0]["post"]["trading"], "steps": [{"ev": l["ev"], "env": l["env"]} for l in seg[1:]]}


def validate(ctx, trace_path, label):
    lines = ctx.read_trace(trace_path)
    clean = ctx.path("clean_" + label + ".ndjson")
    found, keep = ctx.screen_anomalies(lines, clean, anomaly)
    if lines and lines[0].get("a") == "World":
        # the index construction did not yield the specification's world: exchanges / instruments / assets are not where
        # EngineCore (ExOf, UndOf) says they are, so routing, scope and connectivity by index all refer to other entities
        ctx.violation("world:layout", "%s [%s]" % (lines[0].get("anomaly"), label), {"scenario": {"init": "Disabled", "steps": []}})
        return
    for n, d, seg in found:
        # a panic inside Engine::process is attributed to the property whose event kind caused it
        a = seg[-1].get("ev", {}).get("a")
        mine = (ctx.pid == "C19") == (a in FILTER_CMDS) if ctx.pid in ("C03", "C19") else False
        if mine:
            ctx.violation("panic:" + str(a), "%s while processing %s [%s line %d]" % (d, json.dumps(seg[-1].get("ev")), label, n),
                          {"scenario": scenario_of([seg[0]] + [l for l in seg[1:]])})
    n, bad, truncated = ctx.tlc_trace("Trace_EngineCore", "Trace_EngineCore.cfg", clean)
    tags_by_line = dict(ctx.last_tags)
    foreign = 0
    for b in bad:
        line = keep[b - 1]
        tags = tags_by_line.get(b, ["unconsumed"])
        own = owner_tags(ctx.pid, line, tags)
        if not own:
            foreign += 1
            continue
        seg = ctx.segment(keep, b)
        ev = line.get("ev", {})
        sig = "%s:%s" % (ev.get("a"), "+".join(sorted(own)))
        desc = "step %s with env %s: implementation differs from EngineCore in %s (tick %s, delivered %s) [%s line %d]" % (
            json.dumps(ev), json.dumps(line.get("env")), sorted(own), json.dumps(line.get("tick")), json.dumps(line.get("dl")), label, b)
        ctx.violation(sig, desc, {"scenario": scenario_of(seg)})
    ctx.cov["traces_validated_against_impl"] += sum(1 for l in keep if l.get("a") == "Reset")
    ctx.cov.setdefault("steps_by_event", {})
    for l in keep:
        if l.get("a") == "Step":
            a = l["ev"]["a"]
            ctx.cov["steps_by_event"][a] = ctx.cov["steps_by_event"].get(a, 0) + 1
    # three-exchange world: what only a third exchange makes visible
    w = ctx.cov.setdefault("three_exchange_world", {"filter_cmds_naming_nonadjacent_exchanges": 0, "of_which_ask_for_the_last_exchange": 0,
                                                    "steps_with_middle_link_failing_and_outer_links_delivering": 0, "steps_delivering_on_last_exchange": 0})
    for l in keep:
        if l.get("a") != "Step":
            continue
        ev, dl = l["ev"], l.get("dl", [[], [], []])
        if len(dl) > 2 and dl[2]:
            w["steps_delivering_on_last_exchange"] += 1
        if len(dl) > 2 and dl[0] and dl[2] and l["env"]["link"][1] != "healthy" and any(
                r.get("ex") == 1 for o in l["tick"]["outputs"] for k in ("errO", "errC") for r in o[k]):
            w["steps_with_middle_link_failing_and_outer_links_delivering"] += 1
        f = ev.get("filter", {})
        if ev["a"] in FILTER_CMDS + ("ClosePositionsCF",) and f.get("k") == "Exchanges" and set(f.get("set", [])) == {0, 2}:
            w["filter_cmds_naming_nonadjacent_exchanges"] += 1
            if any(r.get("ex") == 2 for o in l["tick"]["outputs"] if o["k"] == "Commanded" for k in ("sentO", "sentC", "errO", "errC") for r in o[k]):
                w["of_which_ask_for_the_last_exchange"] += 1
    ctx.cov["rejected_steps_owned_by_other_properties"] = ctx.cov.get("rejected_steps_owned_by_other_properties", 0) + foreign
    return n


ASSUMPTIONS = [
    "the engine world (harness/src/world2.rs) has three exchanges and six instruments: four on the first exchange (two sharing an underlying, one sharing only the base, one only the quote asset), one on the second and one on the third exchange (the same pair: three different underlyings); by-exchange filters include the non-adjacent pair {0, 2}",
    "a request names the exchange of its instrument or a non-existent exchange index; instrument indices exist (otherwise the engine panics by design)",
    "the order of requests inside one batch and of entries in sent/errors is free (compared as sets; driver batches never repeat a request)",
    "audit outputs are compared on the fields the properties name (request keys, error class recoverable/unrecoverable), not on error strings",
    "order reports inside this driver carry increasing timestamps (staleness is C01/C09's subject)",
]


def check(ctx, extra_random_steps=0):
    ctx.assumptions += ASSUMPTIONS
    ctx.build("engine")
    # action coverage (vacuity) on the one-step configuration, then the real bound without -coverage
    ctx.tlc_actions("MC_EngineCore", "MC_EngineCore_cov.cfg",
                    ["MarketItem", "Disconnects", "AccountItem", "TradingState", "Commands", "Shutdown"])
    ctx.tlc_mc("MC_EngineCore", "MC_EngineCore.cfg" if ctx.quick else "MC_EngineCore_thorough.cfg", timeout=3000, coverage=False)
    if not ctx.quick:
        # every event x environment of the alphabet, one step, from 640 engine states (mixed link health of the
        # first and the last exchange, trading enabled / disabled, orders in every kind, long / short / flat)
        ctx.tlc_mc("MC_EngineCore", "MC_EngineCore_rich.cfg", timeout=3000, coverage=False)
    if ctx.pid == "C19" and not ctx.quick:
        # every filter (all subsets of the 3 exchanges - the non-adjacent {0, 2} in both orders -, of the 6 instruments
        # and of the 5 underlyings: 106) x both commands x 2 link states from 2160 engine states, one step, exhaustive
        ctx.tlc_mc("MC_EngineCore", "MC_EngineCore_scope.cfg", timeout=3000, coverage=False)
    nb = 600 if ctx.quick else 8000
    p_b, scn_b = ctx.tlc_gen("Gen_EngineCore", "Gen_EngineCore.cfg", "behaviours.ndjson", simulate=(nb, 40), timeout=900)
    ctx.sample({"kind": "TLC simulated behaviour (events + environments)", "scenario": scn_b[0]})
    out = ctx.path("trace_behaviours.ndjson")
    ctx.harness("engine", "run", "--scenarios", p_b, "--out", out)
    validate(ctx, out, "behaviours")
    ctx.cov["scenarios_replayed"] += len(scn_b)
    steps = (6000 if ctx.quick else 120000) + extra_random_steps
    out = ctx.path("trace_random.ndjson")
    ctx.harness("engine", "random", "--seed", ctx.seed, "--steps", steps, "--out", out)
    validate(ctx, out, "random")
    return ctx.finish()


def replay(ctx, rp):
    ctx.build("engine")
    scn = ctx.path("replay_scn.ndjson")
    with open(scn, "w") as f:
        f.write(json.dumps(rp["scenario"]) + "\n")
    out = ctx.path("replay_trace.ndjson")
    ctx.harness("engine", "run", "--scenarios", scn, "--out", out)
    validate(ctx, out, "replay")
    return ctx.finish(write_evidence=False)
