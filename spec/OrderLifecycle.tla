--------------------------- MODULE OrderLifecycle ---------------------------
(***************************************************************************)
(* Active-order tracking of barter's engine (C01; also serves C09/C10).     *)
(*                                                                         *)
(* Code transcribed: barter/src/engine/state/order/mod.rs                  *)
(*   Orders::update_from_order_snapshot   -> Snap                          *)
(*   Orders::update_from_cancel_response  -> CancelResp                    *)
(*   Orders::record_in_flight_open        -> RecordOpen                    *)
(*   Orders::record_in_flight_cancel      -> RecordCancel                  *)
(*                                                                         *)
(* One order per client order id `c`:                                      *)
(*   [k |-> "U"]                        untracked                          *)
(*   [k |-> "OIF"]                      open request in flight             *)
(*   [k |-> "Open", m |-> meta]         confirmed open                     *)
(*   [k |-> "CIF",  m |-> meta|NoMeta]  cancel in flight, keeping the last *)
(*                                      exchange-confirmed open meta       *)
(* meta = [has, id, t, f]: exchange order id, exchange timestamp, filled.  *)
(* q = order quantity, s = the bundle (side, price, kind, time-in-force).  *)
(*                                                                         *)
(* Every point the property leaves open is a set-valued choice (DESIGN     *)
(* 5.4): equal timestamps (keep or replace the held data) and a strictly   *)
(* OLDER open report with nothing left to fill (ignore or untrack).  A     *)
(* report that is not older and has nothing left to fill always untracks.  *)
(***************************************************************************)
EXTENDS Naturals, FiniteSets, Sequences, TLC

CONSTANTS CID,      \* client order ids
          QTY,      \* order quantities (positive naturals)
          SV,       \* abstract values of the immutable bundle
          TIME,     \* exchange timestamps
          OID       \* exchange order ids

VARIABLES orders,   \* [CID -> OrderState]
          last      \* the event that produced this state (observation only)

vars == <<orders, last>>

NoMeta == [has |-> FALSE, id |-> 0, t |-> 0, f |-> 0]
U      == [k |-> "U", q |-> 0, s |-> 0, m |-> NoMeta]

MetasOf(q) == {[has |-> TRUE, id |-> i, t |-> t, f |-> f] : i \in OID, t \in TIME, f \in 0..q}

OrderStates ==
    {U}
    \cup {[k |-> "OIF", q |-> q, s |-> s, m |-> NoMeta] : q \in QTY, s \in SV}
    \cup UNION {{[k |-> "Open", q |-> q, s |-> s, m |-> m] : m \in MetasOf(q)} : q \in QTY, s \in SV}
    \cup UNION {{[k |-> "CIF", q |-> q, s |-> s, m |-> m] : m \in MetasOf(q) \cup {NoMeta}} : q \in QTY, s \in SV}

Tracked(o) == o.k # "U"

(***************************************************************************)
(* Events.  All event records have the same fields so that traces recorded *)
(* from the implementation can be read uniformly.                          *)
(***************************************************************************)
Ev(a, c, k, q, s, m, ok) == [a |-> a, c |-> c, k |-> k, q |-> q, s |-> s, m |-> m, ok |-> ok]

NoEvent == Ev("Init", "", "", 0, 0, NoMeta, FALSE)

\* A report's quantity equals the tracked order's quantity when the id is tracked
\* (the execution manager copies it from the request) - environment assumption.
ReportQty(cur) == IF Tracked(cur) THEN {cur.q} ELSE QTY

EventsFor(c, cur) ==
       {Ev("RecordOpen", c, "", q, s, NoMeta, FALSE) : q \in QTY, s \in SV}
  \cup {Ev("RecordCancel", c, "", 0, 0, NoMeta, FALSE)}
  \cup {Ev("CancelResp", c, "", 0, 0, NoMeta, ok) : ok \in BOOLEAN}
  \cup UNION {
         {Ev("Snap", c, "OIF", q, s, NoMeta, FALSE)}
    \cup {Ev("Snap", c, "Inactive", q, s, NoMeta, FALSE)}
    \cup {Ev("Snap", c, "Open", q, s, m, FALSE) : m \in MetasOf(q)}
    \cup {Ev("Snap", c, "CIF", q, s, m, FALSE) : m \in MetasOf(q) \cup {NoMeta}}
       : q \in ReportQty(cur), s \in SV }

(***************************************************************************)
(* The decision tables (DESIGN Appendix A).  Allowed(cur, e) is the set of *)
(* states the order may be in after event e.                               *)
(***************************************************************************)
Full(e) == e.m.f = e.q          \* an "open" report with nothing left to fill

\* an open report r is applied to a held meta h:  Newer / Tie / Older
Newer(h, r) == ~h.has \/ h.t < r.t
Tie(h, r)   == h.has /\ h.t = r.t

SnapOpen(cur, e) ==
  LET fresh == [k |-> "Open", q |-> e.q, s |-> e.s, m |-> e.m]
      upd   == [cur EXCEPT !.m = e.m]                          \* keeps k, q, s
      updO  == [cur EXCEPT !.k = "Open", !.m = e.m]
  IN CASE cur.k = "U"    -> IF Full(e) THEN {U} ELSE {fresh}
       [] cur.k = "OIF"  -> IF Full(e) THEN {U} ELSE {updO}
       [] OTHER          -> \* Open or CIF
            IF Newer(cur.m, e.m)    THEN (IF Full(e) THEN {U} ELSE {upd})
            \* equal timestamps: keeping or replacing the held data are both allowed, but a report that
            \* is not older and has nothing left to fill ends the order
            ELSE IF Tie(cur.m, e.m) THEN (IF Full(e) THEN {U} ELSE {upd, cur})
            ELSE                         (IF Full(e) THEN {cur, U} ELSE {cur})

SnapCIF(cur, e) ==
  CASE cur.k = "U"    -> {[k |-> "CIF", q |-> e.q, s |-> e.s, m |-> e.m]}
    [] cur.k = "OIF"  -> {[cur EXCEPT !.k = "CIF", !.m = e.m]}
    [] cur.k = "Open" -> IF e.m.has /\ cur.m.t < e.m.t THEN {[cur EXCEPT !.k = "CIF", !.m = e.m]}
                         ELSE IF e.m.has /\ cur.m.t = e.m.t
                              THEN {[cur EXCEPT !.k = "CIF", !.m = e.m], [cur EXCEPT !.k = "CIF"]}
                         ELSE {[cur EXCEPT !.k = "CIF"]}
    [] OTHER          -> {cur}

Allowed(cur, e) ==
  CASE e.a = "RecordOpen"   -> {[k |-> "OIF", q |-> e.q, s |-> e.s, m |-> NoMeta]}
    [] e.a = "RecordCancel" ->
         CASE cur.k = "U"    -> {U}
           [] cur.k = "OIF"  -> {[cur EXCEPT !.k = "CIF"]}
           [] cur.k = "Open" -> {[cur EXCEPT !.k = "CIF"]}
           [] OTHER          -> {cur}
    [] e.a = "CancelResp"   ->
         IF e.ok THEN {U}
         ELSE CASE cur.k = "CIF" -> IF cur.m.has THEN {[cur EXCEPT !.k = "Open"]} ELSE {U}
                [] OTHER         -> {cur}
    [] e.a = "Snap" ->
         CASE e.k = "Inactive" -> {U}
           [] e.k = "OIF"      -> IF cur.k = "U"
                                  THEN {[k |-> "OIF", q |-> e.q, s |-> e.s, m |-> NoMeta]}
                                  ELSE {cur}
           [] e.k = "Open"     -> SnapOpen(cur, e)
           [] e.k = "CIF"      -> SnapCIF(cur, e)

(***************************************************************************)
(* A full account snapshot (AccountEventKind::Snapshot) carries a sequence *)
(* of reports, possibly several about one order; the engine applies them   *)
(* in the delivered sequence (EngineState::update_from_account ->          *)
(* InstrumentState::update_from_account_snapshot).  Reach(st, evs, i) is   *)
(* the set of order tables that sequence may leave, from report i on.      *)
(***************************************************************************)
RECURSIVE Reach(_, _, _)
Reach(st, evs, i) ==
  IF i > Len(evs) THEN {st}
  ELSE UNION { Reach([st EXCEPT ![evs[i].c] = n], evs, i + 1) : n \in Allowed(st[evs[i].c], evs[i]) }

(***************************************************************************)
(* Behaviour                                                               *)
(***************************************************************************)
Init == /\ orders = [c \in CID |-> U]
        /\ last = NoEvent

Apply(e) == /\ \E n \in Allowed(orders[e.c], e) : orders' = [orders EXCEPT ![e.c] = n]
            /\ last' = e

RecordOpen   == \E c \in CID : \E e \in {x \in EventsFor(c, orders[c]) : x.a = "RecordOpen"}   : Apply(e)
RecordCancel == \E c \in CID : \E e \in {x \in EventsFor(c, orders[c]) : x.a = "RecordCancel"} : Apply(e)
CancelResp   == \E c \in CID : \E e \in {x \in EventsFor(c, orders[c]) : x.a = "CancelResp"}   : Apply(e)
SnapInactive == \E c \in CID : \E e \in {x \in EventsFor(c, orders[c]) : x.a = "Snap" /\ x.k = "Inactive"} : Apply(e)
SnapOIF      == \E c \in CID : \E e \in {x \in EventsFor(c, orders[c]) : x.a = "Snap" /\ x.k = "OIF"}  : Apply(e)
SnapOpenA    == \E c \in CID : \E e \in {x \in EventsFor(c, orders[c]) : x.a = "Snap" /\ x.k = "Open"} : Apply(e)
SnapCIFA     == \E c \in CID : \E e \in {x \in EventsFor(c, orders[c]) : x.a = "Snap" /\ x.k = "CIF"}  : Apply(e)

\* the order table is stored and restored (serialised state shipped to a replica / kept across a
\* restart): the same table
Persist == /\ UNCHANGED orders
           /\ last' = Ev("Persist", "", "", 0, 0, NoMeta, FALSE)

Next == RecordOpen \/ RecordCancel \/ CancelResp \/ SnapInactive \/ SnapOIF \/ SnapOpenA \/ SnapCIFA \/ Persist

Spec == Init /\ [][Next]_vars

(***************************************************************************)
(* The property C01, as formulas over (orders, last, orders', last').      *)
(***************************************************************************)
TypeOK == orders \in [CID -> OrderStates]

\* an open report is "accepted" when it is newer than what is held
Accepted(cur, e) == ~Tracked(cur) \/ cur.k = "OIF" \/ Newer(cur.m, e.m)
NotOlder(cur, e) == Accepted(cur, e) \/ Tie(cur.m, e.m)

\* becomes tracked: a sent request, or an accepted open report with something left to fill
BecomesA == ( LET e == last' IN
      /\ (e.a = "RecordOpen" => orders'[e.c].k = "OIF")
      /\ (e.a = "Snap" /\ e.k = "Open" /\ ~Full(e) /\ Accepted(orders[e.c], e)
             => Tracked(orders'[e.c]) /\ orders'[e.c].m = e.m)
   )

\* stops being tracked: inactive report, accepted open report with nothing left, cancel confirmed;
\* a failed cancel restores the last confirmed open state
StopsA == ( LET e == last' cur == orders[e.c] IN
      /\ (e.a = "Snap" /\ e.k = "Inactive" => ~Tracked(orders'[e.c]))
      /\ (e.a = "Snap" /\ e.k = "Open" /\ Full(e) /\ NotOlder(cur, e) => ~Tracked(orders'[e.c]))
      /\ (e.a = "CancelResp" /\ e.ok => ~Tracked(orders'[e.c]))
      /\ (e.a = "CancelResp" /\ ~e.ok /\ cur.k = "CIF" =>
             IF cur.m.has THEN orders'[e.c] = [cur EXCEPT !.k = "Open"] ELSE ~Tracked(orders'[e.c]))
      /\ (e.a = "CancelResp" /\ ~e.ok /\ cur.k # "CIF" => orders'[e.c] = cur)
   )

\* exchange-reported data never moves back to an older exchange timestamp
\* (a re-request of the same id starts a new order)
MonotoneA == ( \A c \in CID :
      (orders[c].m.has /\ orders'[c].m.has /\ last'.a # "RecordOpen") => orders'[c].m.t >= orders[c].m.t
   )

\* the held meta is always one that was delivered for it: it only changes to the reported meta
DeliveredA == ( \A c \in CID :
      (orders'[c].m # orders[c].m /\ orders'[c].m.has) => (c = last'.c /\ orders'[c].m = last'.m)
   )

\* reports about one order never change another
IsolatedA == ( \A c \in CID : c # last'.c => orders'[c] = orders[c] )

\* the request's own fields never change while the order stays tracked (re-request apart)
ImmutableA == ( \A c \in CID :
      (Tracked(orders[c]) /\ Tracked(orders'[c]) /\ last'.a # "RecordOpen")
         => (orders'[c].q = orders[c].q /\ orders'[c].s = orders[c].s)
   )

\* in-flight markers appear only through the recorder or a report that says so
InFlightOnlyWhenSaidA == ( \A c \in CID :
      /\ (orders'[c].k = "OIF" /\ orders[c].k # "OIF") =>
            (last'.c = c /\ (last'.a = "RecordOpen" \/ (last'.a = "Snap" /\ last'.k = "OIF")))
      /\ (orders'[c].k = "CIF" /\ orders[c].k # "CIF") =>
            (last'.c = c /\ (last'.a = "RecordCancel" \/ (last'.a = "Snap" /\ last'.k = "CIF")))
   )

StepProps == BecomesA /\ StopsA /\ MonotoneA /\ DeliveredA /\ IsolatedA /\ ImmutableA /\ InFlightOnlyWhenSaidA

Becomes   == [][BecomesA]_vars
Stops     == [][StopsA]_vars
Monotone  == [][MonotoneA]_vars
Delivered == [][DeliveredA]_vars
Isolated  == [][IsolatedA]_vars
Immutable == [][ImmutableA]_vars
InFlightOnlyWhenSaid == [][InFlightOnlyWhenSaidA]_vars

View == orders
=============================================================================
