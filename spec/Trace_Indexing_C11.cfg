SPECIFICATION TSpec
CONSTANTS
  Universe <- U9
  MaxLen = 0
  FOCUS = "C11"
INVARIANTS Done TInv
POSTCONDITION Post
CHECK_DEADLOCK FALSE
