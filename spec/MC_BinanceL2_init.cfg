SPECIFICATION Spec
CONSTANTS
  INSTR = {"i1"}
  PRICE = {1, 2}
  AMOUNT = {0, 1, 2}
  RULES = {"Spot", "Futures"}
  MCM = 4
  EVOLUTIONS <- TwoEvolutions
  MaxEvents = 3
  MaxDeliver = 2
  MaxReinit = 1
  EXPECTED = {1, 2}
  MaxBuf = 2
  InitOrder = "snapshot-first"
INVARIANTS TypeOK Chain BookValid BookNeverWrong BookIsMap Told CleanNeverErrors ConsumerFold EmissionOrder
PROPERTIES BreakSurfaces Isolation AdvanceOnlyOnAdmission
VIEW View
CHECK_DEADLOCK FALSE
