SPECIFICATION Spec
CONSTANTS
  MaxOutcomes = 3
  MaxBody = 1
  MaxElems = 1
  Lats = {0, 7}
  Gaps = {0, 3}
  Slack = {0}
  Policies <- PoliciesT
  Modes <- ModesS
INVARIANT Emit
CHECK_DEADLOCK FALSE
