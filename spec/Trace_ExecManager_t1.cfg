SPECIFICATION TSpec
CONSTANTS
  REQ <- TraceREQ
  T = 1
  STALL = {}
  LateResponseOK = TRUE
  NoTimeout = FALSE
  MaxId = 4
  ACCEPT <- TraceNat
  DELAY <- TraceNat
  EX = 0
  INST = {0, 1, 2}
  SIDE <- TraceSIDE
  PRICE <- TraceNat
  QTY <- TraceNat
  BUNDLE <- TraceBUNDLE
INVARIANTS Done AtMostOne Kind Attribution
PROPERTIES TProps
POSTCONDITION Post
CHECK_DEADLOCK FALSE
