//! Shared driver of the statistics checks C16 / C17 / C18 (spec/Stats.tla, spec/Drawdown.tla).
//! Included by the three thin binaries `c16`, `c17`, `c18` through `#[path]` (not a library
//! module: nothing outside the statistics area depends on it).
//!
//! Pattern B (HOWTO): TLC emits behaviours that carry, after every step, the figures the
//! *batch / reference* definitions of the specification give for the history so far, as exact
//! rationals. This driver replays them into the real running accumulators and compares the
//! projection after every step.
//!
//!   c16 replay --scenarios f --out results --mode direct|summary|engine --seed S
//!        direct : TearSheetGenerator::{update_from_position, generate},
//!                 TearSheetAssetGenerator::{update_from_balance, generate}
//!        summary: TradingSummaryGenerator::{init, update_from_position, update_from_balance,
//!                 generate} (index and name keys)
//!        engine : a real Engine processes fills / balance snapshots (Engine::process), then
//!                 Engine::trading_summary_generator(..).generate(..)
//!        every mode generates with the risk-free return and the interval (Daily, Annual252,
//!        Annual365, two custom TimeDelta) the behaviour names, at the exit times it names, and
//!        compares the four ratio figures of every instrument sheet (pnl_return, sharpe_ratio,
//!        sortino_ratio, calmar_ratio) with the squared / factored figures of Stats.tla, plus
//!        their public scale() to a second interval. Closed positions are delivered with the exit
//!        times the behaviour names - in ANY order (late exits, exits before the session start): the
//!        order-free figures and the returns summaries (PnLReturns.total / .losses: count, sum, mean,
//!        variance) must not notice; where Stats.tla leaves the period end / the curve of Calmar's
//!        drawdown open (points 4, 5) the generated sheet must be, as a whole, one of the sheets TLC lists.
//!        Balance snapshots carry total AND free (moving independently); the asset sheet is judged on the
//!        pair of the last snapshot and on the snapshot that is the last point of its equity curve
//!   c17 replay --scenarios f --out results --seed S
//!        DataSetSummary::update: every prefix, scales 10^e e in {-9,0,9}, permutations; the same values as the
//!        returns of closed positions through PnLReturns::update and TearSheetGenerator::update_from_position
//!        (exit times NOT monotone: every third position is delivered late)
//!   c17 random --seed S --steps N --out results   random DECIMAL datasets of mixed magnitude, judged by
//!   c17 laws --in f --out results                 the laws Stats.tla states and TLC checks on the batch
//!        definitions (OrderFreeC17, VarNonNeg, MeanInRange, ShiftScale, std_dev^2 = variance)
//!   c18 replay --scenarios f --out results --seed S
//!        raw    : DrawdownGenerator + MaxDrawdownGenerator + MeanDrawdownGenerator
//!        asset  : TearSheetAssetGenerator::{update_from_balance, generate}
//!        instr  : TearSheetGenerator::{update_from_position, generate}
//!   c18 random --seed S --steps N --out trace     seeded random curves (impl -> spec direction):
//!   c18 points --in f --mode m --out trace        one NDJSON line per point = the point plus `post`,
//!        the projected figures in integers (depth in 1e-4 units, model time = ms / 1000);
//!        spec/Trace_Drawdown.tla is the oracle
//!
//! One result line per scenario (and variant): {"scn","vidx","ok","step","error","event","pre",..};
//! the last stdout line is a JSON summary.
#![allow(dead_code)]
use rand::{Rng, seq::SliceRandom};
use rust_decimal::Decimal;
use serde_json::{Value, json};
use std::str::FromStr;
use vh::{
    cmp::json_match,
    util::*,
};

pub fn main_for(prop: &str) {
    let args = Args::parse();
    match (prop, args.cmd.as_str()) {
        ("C16", "replay") => c16::replay(&args),
        ("C17", "replay") => c17::replay(&args),
        ("C17", "random") | ("C17", "laws") => c17::laws(&args),
        ("C18", "replay") => c18::replay(&args),
        ("C18", "random") | ("C18", "points") => c18::record(&args),
        (p, c) => usage(&format!("{p}: unknown command {c}")),
    }
}

// ---------------------------------------------------------------------------------------------
// numeric helpers
// ---------------------------------------------------------------------------------------------
fn pow10(e: u32) -> i128 {
    10i128.pow(e)
}

/// k * 10^e as a Decimal (exact)
fn scaled_dec(k: i64, e10: i32) -> Decimal {
    let d = Decimal::from(k);
    if e10 >= 0 { d * Decimal::from_i128_with_scale(pow10(e10 as u32), 0) } else { d * Decimal::new(1, (-e10) as u32) }
}

fn scale_frac(n: i128, d: i128, e10: i32) -> (i128, i128) {
    if e10 >= 0 { (n * pow10(e10 as u32), d) } else { (n, d * pow10((-e10) as u32)) }
}

fn rat_of(v: &Value) -> Option<(i128, i128)> {
    if let Some(i) = v.as_i64() {
        return Some((i as i128, 1));
    }
    let o = v.as_object()?;
    Some((o.get("n")?.as_i64()? as i128, o.get("d")?.as_i64()? as i128))
}

/// how close the implementation came to the exact expectation, relative to the tolerance
#[derive(Default)]
struct ErrStats {
    max_err_over_tol: Decimal,
    max_abs: Decimal,
    comparisons: u64,
}

/// `actual` equals `n/d * 10^sp` "up to decimal rounding" (DESIGN 5.5): the result is rescaled by
/// the concretisation 10^sp and compared with the tolerance of `vh::cmp::json_match`,
/// 1e-18 * max(1, |n/d|); i.e. |actual - value| <= 1e-18 * max(10^sp, |value|), with a floor of
/// 1e-24 because rust_decimal keeps 28 decimal places (sub-unit concretisations).
/// At sp = 0 this is exactly the json_match rule.
fn close(n: i128, d: i128, sp: i32, actual: Decimal, path: &str, st: &mut ErrStats) -> Result<(), String> {
    let (n2, d2) = scale_frac(n, d, sp);
    let show = || if sp == 0 { format!("{n}/{d}") } else { format!("{n}/{d}e{sp}") };
    let expd = Decimal::from_i128_with_scale(n2, 0) / Decimal::from_i128_with_scale(d2, 0);
    let unit = if sp >= 0 { Decimal::from_i128_with_scale(pow10(sp as u32), 0) } else { Decimal::new(1, (-sp) as u32) };
    let err = (actual - expd).abs();
    let tol = (expd.abs().max(unit) * Decimal::new(1, 18)).max(Decimal::new(1, 24));
    st.comparisons += 1;
    if err > st.max_abs {
        st.max_abs = err;
    }
    let ratio = err / tol;
    if ratio > st.max_err_over_tol {
        st.max_err_over_tol = ratio;
    }
    if err > tol {
        return Err(format!("{path}: expected {} (= {expd}), got {actual} (off by {err}, tolerance {tol})", show()));
    }
    Ok(())
}

fn vidx(scn: &Value, n: usize) -> u64 {
    scn.get("vidx").and_then(|v| v.as_u64()).unwrap_or(n as u64)
}

/// deterministic small hash of (seed, vidx, salt) for variant choices
fn pick(seed: u64, vidx: u64, salt: u64, modulo: u64) -> u64 {
    let mut x = seed.wrapping_mul(0x9E37_79B9_7F4A_7C15) ^ vidx.wrapping_mul(0xBF58_476D_1CE4_E5B9) ^ salt.wrapping_mul(0x94D0_49BB_1331_11EB);
    x ^= x >> 31;
    x = x.wrapping_mul(0xD6E8_FEB8_6659_FD93);
    x ^= x >> 29;
    x % modulo
}

struct Results {
    out: Out,
    scenarios: usize,
    failed: usize,
    steps: u64,
}

impl Results {
    fn new(path: &str) -> Self {
        Self { out: Out::create(path), scenarios: 0, failed: 0, steps: 0 }
    }
    fn ok(&mut self, scn: usize, vidx: u64, extra: Value) {
        self.scenarios += 1;
        let mut l = json!({"scn": scn, "vidx": vidx, "ok": true, "step": -1, "error": "", "event": "none", "pre": "none"});
        merge(&mut l, extra);
        self.out.line(&l);
    }
    fn fail(&mut self, scn: usize, vidx: u64, step: usize, error: String, event: Value, pre: Value, extra: Value) {
        self.scenarios += 1;
        self.failed += 1;
        let mut l = json!({"scn": scn, "vidx": vidx, "ok": false, "step": step, "error": error, "event": event, "pre": pre});
        merge(&mut l, extra);
        self.out.line(&l);
    }
}

fn merge(a: &mut Value, b: Value) {
    if let (Some(a), Value::Object(b)) = (a.as_object_mut(), b) {
        for (k, v) in b {
            a.insert(k, v);
        }
    }
}

// =============================================================================================
// C17 - DataSetSummary
// =============================================================================================
mod c17 {
    use super::*;
    use barter::{
        engine::state::position::PositionExited,
        statistic::summary::{dataset::DataSetSummary, instrument::TearSheetGenerator, pnl::PnLReturns},
    };
    use barter_execution::trade::AssetFees;
    use barter_instrument::{Side, asset::QuoteAsset, instrument::InstrumentIndex};

    pub const SCALES: [i32; 3] = [-9, 0, 9];

    /// the projection: exactly the spec's DataSet record
    pub fn project(ds: &DataSetSummary) -> Value {
        json!({
            "count": ds.count.to_string(),
            "sum": ds.sum.to_string(),
            "mean": ds.mean.to_string(),
            "var": ds.dispersion.variance.to_string(),
            "range": if ds.dispersion.range.activated {
                json!({"lo": ds.dispersion.range.low.to_string(), "hi": ds.dispersion.range.high.to_string()})
            } else { json!("none") },
        })
    }

    pub fn empty_exp() -> Value {
        json!({"count": 0, "sum": 0, "mean": {"n": 0, "d": 1}, "var": {"n": 0, "d": 1}, "range": "none"})
    }

    /// every field of the summary against the batch value, at scale 10^e10
    pub fn check(exp: &Value, ds: &DataSetSummary, e10: i32, st: &mut ErrStats) -> Result<(), String> {
        let r = |k: &str| rat_of(&exp[k]).unwrap_or_else(|| usage(&format!("bad expectation field {k} in {exp}")));
        let (cn, _) = r("count");
        if ds.count != Decimal::from_i128_with_scale(cn, 0) {
            return Err(format!("count: expected {cn}, got {}", ds.count));
        }
        let (n, d) = r("sum");
        close(n, d, e10, ds.sum, "sum", st)?;
        let (n, d) = r("mean");
        close(n, d, e10, ds.mean, "mean", st)?;
        let (vn, vd) = r("var");
        close(vn, vd, 2 * e10, ds.dispersion.variance, "variance", st)?;
        // std_dev^2 ~ variance, std_dev >= 0
        let sd = ds.dispersion.std_dev;
        if sd.is_sign_negative() && !sd.is_zero() {
            return Err(format!("std_dev: negative {sd}"));
        }
        let sq = sd.checked_mul(sd).ok_or_else(|| format!("std_dev: {sd} squared overflows"))?;
        close(vn, vd, 2 * e10, sq, "std_dev^2", st)?;
        match exp["range"].as_object() {
            None => {
                if ds.dispersion.range.activated {
                    return Err("range: expected none, got an activated range".into());
                }
            }
            Some(rg) => {
                if !ds.dispersion.range.activated {
                    return Err("range: expected a range, got none".into());
                }
                let (lo, _) = rat_of(&rg["lo"]).unwrap();
                let (hi, _) = rat_of(&rg["hi"]).unwrap();
                close(lo, 1, e10, ds.dispersion.range.low, "range.lo", st)?;
                close(hi, 1, e10, ds.dispersion.range.high, "range.hi", st)?;
                close(hi - lo, 1, e10, ds.dispersion.range.range(), "range()", st)?;
                // the property's two unconditional clauses, on the implementation's own values
                if ds.mean < ds.dispersion.range.low || ds.mean > ds.dispersion.range.high {
                    return Err(format!("MeanInRange: mean {} outside [{}, {}]", ds.mean, ds.dispersion.range.low, ds.dispersion.range.high));
                }
            }
        }
        if ds.dispersion.variance.is_sign_negative() && !ds.dispersion.variance.is_zero() {
            return Err(format!("VarNonNeg: variance {}", ds.dispersion.variance));
        }
        Ok(())
    }

    /// store + restore (spec action Persist): a serde round trip of a running generator must be a
    /// stutter - the same public figures right away, and every later figure unchanged
    pub fn roundtrip<T: serde::Serialize + serde::de::DeserializeOwned>(x: &T) -> Result<T, String> {
        let js = serde_json::to_string(x).map_err(|e| format!("serialise: {e}"))?;
        serde_json::from_str(&js).map_err(|e| format!("deserialise: {e}"))
    }
    fn persist_ds(ds: &mut DataSetSummary, what: &str) -> Result<(), String> {
        let back = roundtrip(ds).map_err(|e| format!("Persist {what}: {e}"))?;
        let (before, after) = (project(ds), project(&back));
        if before != after || back.dispersion.std_dev != ds.dispersion.std_dev {
            return Err(format!("Persist {what}: restored summary shows {after} (std_dev {}), stored one {before} (std_dev {})", back.dispersion.std_dev, ds.dispersion.std_dev));
        }
        *ds = back;
        Ok(())
    }

    /// when the running summary is stored and restored: 0 only where the scenario says so,
    /// 1 after every update, 2 after a pseudo-random subset
    fn persist_after(mode: u64, salt: u64, k: usize, flagged: bool) -> bool {
        match mode {
            1 => true,
            2 => pick(salt, k as u64, 13, 2) == 1,
            _ => flagged,
        }
    }

    /// How the values reach the summaries
    #[derive(Clone, Copy, PartialEq)]
    pub enum Route {
        /// DataSetSummary::update(x)
        Direct,
        /// PnLReturns::update(closed position with return x): `total` is the running summary of all
        /// returns, `losses` that of the negative ones, pnl_raw their sum (cost of every position = 1)
        PnL,
        /// TearSheetGenerator::update_from_position(the same closed position): the running summaries of the
        /// instrument tear sheet, `pnl_returns` - what the engine keeps per instrument
        Sheet,
    }
    /// exit time (seconds) of the k-th closed position of the PnL / Sheet routes: NOT monotone - every third
    /// position is delivered late, its exit before those of the two delivered before it (and, at first, before
    /// the start of the session): a dataset summary knows no time, the order of delivery is the order of the dataset
    fn exit_time(k: usize) -> i64 {
        if k % 3 == 2 { 2 * k as i64 - 7 } else { 2 * k as i64 + 1 }
    }

    /// feed `xs` (already in the order to use) at scale e10; compare after every update when
    /// `exps` has one expectation per prefix, else only the final state with `exps[last]`.
    /// `negs`: the expectations for the losing returns (route PnL).
    #[allow(clippy::too_many_arguments)]
    fn run(route: Route, xs: &[i64], exps: &[&Value], negs: &[&Value], flags: &[bool], persist: (u64, u64), e10: i32, every: bool,
           st: &mut ErrStats, steps: &mut u64, persists: &mut u64) -> Result<(), (usize, String, Value)> {
        let mut ds = DataSetSummary::default();
        let mut pr = PnLReturns::default();
        let mut ts = TearSheetGenerator::init(time(0));
        let name = match route { Route::Sheet => "TearSheetGenerator.pnl_returns", _ => "PnLReturns" };
        let shown = |ds: &DataSetSummary, pr: &PnLReturns| if route == Route::Direct { project(ds) } else {
            json!({"total": project(&pr.total), "losses": project(&pr.losses), "pnl_raw": pr.pnl_raw.to_string()})
        };
        check(&empty_exp(), &ds, e10, st).map_err(|e| (0, format!("initial state: {e}"), project(&ds)))?;
        for (k, x) in xs.iter().enumerate() {
            let pre = shown(&ds, &pr);
            let v = scaled_dec(*x, e10);
            *steps += 1;
            match route {
                Route::Direct => {
                    if let Err(p) = catch(|| ds.update(v)) {
                        return Err((k, format!("DataSetSummary::update({v}) panicked: {p}"), pre));
                    }
                }
                Route::PnL | Route::Sheet => {
                    // cost price * quantity = 1 exactly, so the return is the realised PnL itself
                    let (price, qty) = [(Decimal::ONE, Decimal::ONE), (Decimal::TWO, Decimal::new(5, 1)), (Decimal::new(25, 2), Decimal::from(4))][k % 3];
                    let pos: PositionExited<QuoteAsset, InstrumentIndex> = PositionExited {
                        instrument: InstrumentIndex(0),
                        side: if k % 2 == 0 { Side::Buy } else { Side::Sell },
                        price_entry_average: price,
                        quantity_abs_max: qty,
                        pnl_realised: v,
                        fees_enter: AssetFees::quote_fees(Decimal::ZERO),
                        fees_exit: AssetFees::quote_fees(Decimal::ZERO),
                        time_enter: time(exit_time(k) - 1),
                        time_exit: time(exit_time(k)),
                        trades: vec![],
                    };
                    if route == Route::Sheet {
                        if let Err(p) = catch(|| ts.update_from_position(&pos)) {
                            return Err((k, format!("TearSheetGenerator::update_from_position(pnl_realised {v}, time_exit {} s) panicked: {p}", exit_time(k)), pre));
                        }
                        pr = ts.pnl_returns.clone();
                    } else if let Err(p) = catch(|| pr.update(&pos)) {
                        return Err((k, format!("PnLReturns::update(pnl_realised {v}, time_exit {} s) panicked: {p}", exit_time(k)), pre));
                    }
                }
            }
            let judge = |ds: &DataSetSummary, pr: &PnLReturns, st: &mut ErrStats, after: &str| -> Result<(), String> {
                if !(every || k + 1 == xs.len()) {
                    return Ok(());
                }
                let last = exps.len() - 1;
                let (exp, neg) = if every { (exps[k], negs[k]) } else { (exps[last], negs[last]) };
                match route {
                    Route::Direct => {
                        check(exp, ds, e10, st).map_err(|e| format!("{e}{after}"))?;
                        if e10 == 0 {
                            json_match(exp, &project(ds), "dataset")?;
                        }
                    }
                    Route::PnL | Route::Sheet => {
                        check(exp, &pr.total, e10, st).map_err(|e| format!("{name}.total.{e}{after}"))?;
                        check(neg, &pr.losses, e10, st).map_err(|e| format!("{name}.losses.{e}{after}"))?;
                        let (n, d) = rat_of(&exp["sum"]).unwrap();
                        close(n, d, e10, pr.pnl_raw, &format!("{name}.pnl_raw"), st)?;
                    }
                }
                Ok(())
            };
            judge(&ds, &pr, st, "").map_err(|e| (k, e, pre.clone()))?;
            if persist_after(persist.0, persist.1, k, flags.get(k).copied().unwrap_or(false)) && k + 1 < xs.len() + 1 {
                *persists += 1;
                let r = match route {
                    Route::Direct => persist_ds(&mut ds, "DataSetSummary"),
                    Route::Sheet => roundtrip(&ts).map_err(|e| format!("Persist TearSheetGenerator: {e}")).and_then(|back| {
                        if shown(&ds, &back.pnl_returns) != shown(&ds, &pr) {
                            return Err(format!("Persist TearSheetGenerator: restored {} , stored {}", shown(&ds, &back.pnl_returns), shown(&ds, &pr)));
                        }
                        pr = back.pnl_returns.clone();
                        ts = back;
                        Ok(())
                    }),
                    Route::PnL => roundtrip(&pr).map_err(|e| format!("Persist PnLReturns: {e}")).and_then(|back| {
                        if shown(&ds, &back) != shown(&ds, &pr) {
                            return Err(format!("Persist PnLReturns: restored {} , stored {}", shown(&ds, &back), shown(&ds, &pr)));
                        }
                        pr = back;
                        Ok(())
                    }),
                };
                r.and_then(|_| judge(&ds, &pr, st, " (after a store/restore)")).map_err(|e| (k, e, pre))?;
            }
        }
        Ok(())
    }

    fn next_permutation(a: &mut [i64]) -> bool {
        if a.len() < 2 {
            return false;
        }
        let mut i = a.len() - 1;
        while i > 0 && a[i - 1] >= a[i] {
            i -= 1;
        }
        if i == 0 {
            return false;
        }
        let mut j = a.len() - 1;
        while a[j] <= a[i - 1] {
            j -= 1;
        }
        a.swap(i - 1, j);
        a[i..].reverse();
        true
    }

    // ---- laws of the specification on arbitrary decimals (beyond TLC's integer domain)
    fn feed(xs: &[Decimal]) -> Result<DataSetSummary, String> {
        let mut ds = DataSetSummary::default();
        for x in xs {
            catch(|| ds.update(*x)).map_err(|p| format!("DataSetSummary::update({x}) panicked: {p}"))?;
        }
        Ok(ds)
    }
    /// |a - b| <= 1e-18 * max(1, scale)
    fn near(a: Decimal, b: Decimal, scale: Decimal, what: &str) -> Result<(), String> {
        let tol = Decimal::new(1, 18) * scale.max(Decimal::ONE);
        if (a - b).abs() > tol { Err(format!("{what}: {a} vs {b} (tolerance {tol})")) } else { Ok(()) }
    }
    /// constant datasets of values that use all 28 significant digits a Decimal holds (division results such as
    /// returns; large magnitudes): the running sum no longer fits exactly after a dozen updates, yet the mean of a
    /// constant dataset is that constant, it lies within the range, and the variance is zero - never negative
    fn laws_of_full_precision(xs: &[Decimal]) -> Result<(), String> {
        let a = feed(xs)?;
        if a.count != Decimal::from(xs.len() as u64) {
            return Err(format!("count: {} for {} values", a.count, xs.len()));
        }
        if a.dispersion.variance < Decimal::ZERO {
            return Err(format!("VarNonNeg: variance {}", a.dispersion.variance));
        }
        if a.mean < a.dispersion.range.low || a.mean > a.dispersion.range.high {
            return Err(format!("MeanInRange: mean {} outside [{}, {}]", a.mean, a.dispersion.range.low, a.dispersion.range.high));
        }
        let (lo, hi) = (xs.iter().min().unwrap(), xs.iter().max().unwrap());
        if a.dispersion.range.low != *lo || a.dispersion.range.high != *hi {
            return Err(format!("range: [{}, {}] for data in [{lo}, {hi}]", a.dispersion.range.low, a.dispersion.range.high));
        }
        near(a.dispersion.variance, Decimal::ZERO, Decimal::ONE, "VarZeroIffConstant")?;
        Ok(())
    }
    fn laws_of(xs: &[Decimal], perm: &[usize], shift: Decimal) -> Result<(), String> {
        if perm.is_empty() {
            return laws_of_full_precision(xs);
        }
        let m = xs.iter().map(|x| x.abs()).max().unwrap_or(Decimal::ONE).max(shift.abs());
        let (m1, m2) = (m, m * m);
        let a = feed(xs)?;
        // VarNonNeg, MeanInRange, std_dev^2 = variance, count
        if a.count != Decimal::from(xs.len() as u64) {
            return Err(format!("count: {} for {} values", a.count, xs.len()));
        }
        if a.dispersion.variance < Decimal::ZERO {
            return Err(format!("VarNonNeg: variance {}", a.dispersion.variance));
        }
        if a.mean < a.dispersion.range.low || a.mean > a.dispersion.range.high {
            return Err(format!("MeanInRange: mean {} outside [{}, {}]", a.mean, a.dispersion.range.low, a.dispersion.range.high));
        }
        let (lo, hi) = (xs.iter().min().unwrap(), xs.iter().max().unwrap());
        if a.dispersion.range.low != *lo || a.dispersion.range.high != *hi {
            return Err(format!("range: [{}, {}] for data in [{lo}, {hi}]", a.dispersion.range.low, a.dispersion.range.high));
        }
        near(a.dispersion.std_dev * a.dispersion.std_dev, a.dispersion.variance, m2, "std_dev^2 = variance")?;
        near(a.mean * a.count, a.sum, m1 * a.count, "mean * count = sum")?;
        if lo == hi {
            near(a.dispersion.variance, Decimal::ZERO, Decimal::ONE, "VarZeroIffConstant")?;
        }
        // OrderFreeC17: another arrival order of the same multiset
        let p: Vec<Decimal> = perm.iter().map(|k| xs[*k]).collect();
        let b = feed(&p)?;
        if b.count != a.count || b.dispersion.range != a.dispersion.range {
            return Err(format!("OrderFree: count/range differ between arrival orders: {:?} vs {:?}", a.dispersion.range, b.dispersion.range));
        }
        near(b.sum, a.sum, m1, "OrderFree: sum")?;
        near(b.mean, a.mean, m1, "OrderFree: mean")?;
        near(b.dispersion.variance, a.dispersion.variance, m2, "OrderFree: variance")?;
        // ShiftScale: x + c keeps the variance and shifts the mean; -2x scales them by 4 and -2
        let sh: Vec<Decimal> = xs.iter().map(|x| x + shift).collect();
        let c = feed(&sh)?;
        near(c.dispersion.variance, a.dispersion.variance, m2, "ShiftScale: variance of x + c")?;
        near(c.mean, a.mean + shift, m1, "ShiftScale: mean of x + c")?;
        let sc: Vec<Decimal> = xs.iter().map(|x| x * Decimal::from(-2)).collect();
        let d = feed(&sc)?;
        near(d.dispersion.variance, a.dispersion.variance * Decimal::from(4), m2 * Decimal::from(4), "ShiftScale: variance of -2x")?;
        near(d.mean, a.mean * Decimal::from(-2), m1 * Decimal::TWO, "ShiftScale: mean of -2x")?;
        Ok(())
    }

    pub fn laws(args: &Args) {
        let mut res = Results::new(args.req("out"));
        let mut cases: Vec<(Vec<Decimal>, Vec<usize>, Decimal)> = vec![];
        if args.cmd == "laws" {
            for c in read_ndjson(args.req("in")) {
                let d = |v: &Value| Decimal::from_str(v.as_str().unwrap_or("x")).unwrap_or_else(|_| usage("bad decimal"));
                cases.push((c["xs"].as_array().unwrap().iter().map(d).collect(),
                            c["perm"].as_array().unwrap().iter().map(|k| k.as_u64().unwrap() as usize).collect(), d(&c["shift"])));
            }
        } else {
            let mut r = rng(args.u64("seed", 1));
            for step in 0..args.usize("steps", 2000) {
                if step % 10 == 9 {
                    // a CONSTANT dataset of a full-precision value (27-28 significant digits, any magnitude up to 1e24),
                    // 8..40 copies; marked by an empty permutation (judged by laws_of_full_precision)
                    let mantissa = r.random_range(100_000_000_000_000_000_000_000_000i128..=7_900_000_000_000_000_000_000_000_000i128);
                    let x = Decimal::from_i128_with_scale(if r.random_bool(0.3) { -mantissa } else { mantissa }, r.random_range(4..=28));
                    cases.push((vec![x; r.random_range(8..=40)], vec![], Decimal::ZERO));
                    continue;
                }
                let n = r.random_range(1..=12);
                // mixed magnitudes: mantissa up to 10^6 with 0..8 decimal places, repeats, constants
                let draw = |r: &mut rand::rngs::StdRng| Decimal::new(r.random_range(-1_000_000i64..=1_000_000), r.random_range(0..=8));
                let constant = r.random_range(0..12) == 0;
                let first = draw(&mut r);
                let mut xs = vec![first];
                while xs.len() < n {
                    let x = if constant { first } else if r.random_range(0..4) == 0 { xs[r.random_range(0..xs.len())] } else { draw(&mut r) };
                    xs.push(x);
                }
                let mut perm: Vec<usize> = (0..n).collect();
                perm.shuffle(&mut r);
                let shift = draw(&mut r);
                cases.push((xs, perm, shift));
            }
        }
        for (n, (xs, perm, shift)) in cases.iter().enumerate() {
            res.steps += 4 * xs.len() as u64;
            let shown = json!({"xs": xs.iter().map(|x| x.to_string()).collect::<Vec<_>>(), "perm": perm, "shift": shift.to_string()});
            match laws_of(xs, perm, *shift) {
                Ok(()) => res.ok(n, n as u64, json!({})),
                Err(e) => res.fail(n, n as u64, 0, e, shown, json!("none"), json!({})),
            }
        }
        let (scn, failed, steps) = (res.scenarios, res.failed, res.steps);
        res.out.finish();
        println!("{}", json!({"datasets": scn, "failed": failed, "updates": steps}));
    }

    pub fn replay(args: &Args) {
        let seed = args.u64("seed", 1);
        let scenarios = read_ndjson(args.req("scenarios"));
        let mut res = Results::new(args.req("out"));
        let mut st = ErrStats::default();
        let (mut perms_run, mut multisets) = (0u64, 0u64);
        let (mut persists, mut routes) = (0u64, [0u64; 3]);
        for (n, scn) in scenarios.iter().enumerate() {
            let vi = vidx(scn, n);
            let steps = scn["vals"].as_array().unwrap_or_else(|| usage("scenario without vals"));
            let xs: Vec<i64> = steps.iter().map(|s| i(s, "x")).collect();
            let exps: Vec<&Value> = steps.iter().map(|s| &s["exp"]).collect();
            let empty = empty_exp();
            let negs: Vec<&Value> = steps.iter().map(|s| s.get("neg").unwrap_or(&empty)).collect();
            let has_neg = steps.iter().all(|s| s.get("neg").is_some());
            let flags: Vec<bool> = steps.iter().map(|s| s.get("persist").and_then(|x| x.as_bool()).unwrap_or(false)).collect();
            let pmode = scn.get("persist_mode").and_then(|x| x.as_u64());
            let mut failure = None;
            // (1) the sequence as given, every prefix, every scale, both routes; the running state is
            //     stored and restored (Persist) where the scenario says so / after every / some updates
            'main: for route in [Route::Direct, Route::PnL, Route::Sheet] {
                if route != Route::Direct && !has_neg {
                    continue;
                }
                for (j, e10) in SCALES.iter().enumerate() {
                    let persist = (pmode.unwrap_or_else(|| pick(seed, vi, 20 + j as u64, 3)), pick(seed, vi, 30 + j as u64, 1 << 32));
                    if let Err((k, e, pre)) = run(route, &xs, &exps, &negs, &flags, persist, *e10, true, &mut st, &mut res.steps, &mut persists) {
                        failure = Some((k, e, pre, *e10, xs.clone(), route, persist.0));
                        break 'main;
                    }
                    routes[route as usize] += 1;
                }
            }
            // (2) order-freedom: other arrival orders of the same multiset meet the same batch value
            if failure.is_none() && !xs.is_empty() {
                let sorted = xs.windows(2).all(|w| w[0] <= w[1]);
                let mut orders: Vec<Vec<i64>> = vec![];
                if xs.len() <= 6 {
                    if sorted {
                        // this scenario is the representative of its multiset: all distinct orders
                        multisets += 1;
                        let mut p = xs.clone();
                        loop {
                            orders.push(p.clone());
                            if !next_permutation(&mut p) {
                                break;
                            }
                        }
                    }
                } else {
                    multisets += 1;
                    let mut r = rng(seed ^ vi.wrapping_mul(7919));
                    for _ in 0..24 {
                        let mut p = xs.clone();
                        p.shuffle(&mut r);
                        orders.push(p);
                    }
                    let mut p = xs.clone();
                    p.sort();
                    orders.push(p.clone());
                    p.reverse();
                    orders.push(p);
                }
                'o: for p in orders {
                    for e10 in SCALES {
                        perms_run += 1;
                        let persist = (pmode.unwrap_or_else(|| pick(seed, vi, perms_run, 3)), perms_run);
                        if let Err((k, e, pre)) = run(Route::Direct, &p, &exps, &negs, &[], persist, e10, false, &mut st, &mut res.steps, &mut persists) {
                            failure = Some((k, format!("arrival order {p:?}: {e}"), pre, e10, p.clone(), Route::Direct, persist.0));
                            break 'o;
                        }
                    }
                }
            }
            match failure {
                None => res.ok(n, vi, json!({})),
                Some((k, e, pre, e10, order, route, pm)) => res.fail(
                    n, vi, k, e,
                    json!({"update": order.get(k).map(|x| format!("{x}e{e10}")), "order": order, "scale_e10": e10,
                           "route": match route { Route::Direct => "DataSetSummary::update", Route::PnL => "PnLReturns::update (exit times not monotone)",
                                                  Route::Sheet => "TearSheetGenerator::update_from_position (exit times not monotone)" },
                           "store_restore": (["where the scenario says", "after every update", "after some updates"][pm as usize % 3])}),
                    pre, json!({"scale_e10": e10, "persist_mode": pm}),
                ),
            }
        }
        let (scn, failed, steps) = (res.scenarios, res.failed, res.steps);
        res.out.finish();
        println!("{}", json!({"scenarios": scn, "failed": failed, "updates": steps, "orders_replayed": perms_run,
            "multisets_permuted": multisets, "scales_e10": SCALES, "comparisons": st.comparisons,
            "arm_hits": {"store_restore": persists, "runs_DataSetSummary_update": routes[0], "runs_PnLReturns_update": routes[1],
                         "runs_TearSheetGenerator_update_from_position": routes[2]},
            "max_abs_error": st.max_abs.to_string(), "max_error_over_tolerance": st.max_err_over_tol.to_string()}));
    }
}

// =============================================================================================
// C18 - drawdowns
// =============================================================================================
mod c18 {
    use super::*;
    use barter::{
        Timed,
        engine::state::position::PositionExited,
        statistic::{
            metric::drawdown::{
                Drawdown, DrawdownGenerator,
                max::{MaxDrawdown, MaxDrawdownGenerator},
                mean::{MeanDrawdown, MeanDrawdownGenerator},
            },
            summary::{asset::TearSheetAssetGenerator, instrument::TearSheetGenerator},
            time::Daily,
        },
    };
    use barter_execution::{balance::{AssetBalance, Balance}, trade::AssetFees};
    use barter_instrument::{Side, asset::{AssetIndex, QuoteAsset}, instrument::InstrumentIndex};
    use barter_integration::snapshot::Snapshot;

    pub const MODES: [&str; 3] = ["raw", "asset", "instr"];
    const UNITS_MS: [i64; 4] = [1000, 1, 86_400_000, 7];
    const VSCALES: [i32; 3] = [0, -6, 6];

    #[derive(Clone, Copy)]
    struct Variant {
        unit_ms: i64,
        e10: i32,
        init_ctor: bool, // use the `init(..)` constructors instead of `default()`
        /// reads of the current drawdown on the LIVE object between points (spec: ReadCurrent):
        /// 0 only where the scenario says so, 1 DrawdownGenerator::generate after every point,
        /// 2 after a pseudo-random subset, 3 the tear sheet's own generate() after a subset
        /// (asset / instr; it folds into Max / Mean by design, which are no longer judged then)
        live: u64,
        salt: u64,
        /// store + restore of the generators: 0 where the scenario says so, 1 after every point, 2 after some
        persist: u64,
        /// a previous session: that many points of ANOTHER scenario are fed first, then reset() is called
        /// and this scenario is the new session (its expectations are those of a fresh generator);
        /// `toff` shifts this scenario's times behind the previous session
        prelude: u64,
        toff: i64,
    }

    fn variant_of(scn: &Value, seed: u64, vi: u64) -> Variant {
        if let Some(v) = scn.get("variant").filter(|v| v.is_object()) {
            return Variant { unit_ms: i(v, "unit_ms"), e10: i(v, "e10") as i32, init_ctor: b(v, "init_ctor"),
                             live: v["live"].as_u64().unwrap_or(0), salt: v["salt"].as_u64().unwrap_or(0),
                             persist: v["persist"].as_u64().unwrap_or(0), prelude: v["prelude"].as_u64().unwrap_or(0), toff: 0 };
        }
        Variant {
            unit_ms: UNITS_MS[pick(seed, vi, 1, 4) as usize],
            e10: VSCALES[pick(seed, vi, 2, 3) as usize],
            init_ctor: pick(seed, vi, 3, 2) == 1,
            live: pick(seed, vi, 4, 4),
            salt: pick(seed, vi, 5, 1 << 32),
            persist: pick(seed, vi, 6, 3),
            prelude: if pick(seed, vi, 8, 3) == 0 { 1 + pick(seed, vi, 9, 6) } else { 0 },
            toff: 0,
        }
    }
    fn variant_json(v: Variant) -> Value {
        json!({"unit_ms": v.unit_ms, "e10": v.e10, "init_ctor": v.init_ctor, "live": v.live, "salt": v.salt,
               "persist": v.persist, "prelude": v.prelude})
    }
    /// which live read follows point k: None | Some(false) generator | Some(true) tear sheet
    fn read_after(v: Variant, k: usize, flagged: bool) -> Option<bool> {
        let sub = pick(v.salt, k as u64, 7, 2) == 1;
        match v.live {
            1 => Some(false),
            2 if sub => Some(false),
            3 if sub => Some(true),
            _ if flagged => Some(false),
            _ => None,
        }
    }

    fn dd_json(d: &Drawdown) -> Value {
        json!({"value": d.value.to_string(), "start": untime_ms(d.time_start), "end": untime_ms(d.time_end)})
    }
    fn opt_dd(d: Option<&Drawdown>) -> Value {
        d.map(dd_json).unwrap_or(json!("none"))
    }

    /// What one implementation object shows after a step (None = this mode cannot observe it)
    struct Seen {
        peak: Option<(Decimal, i64)>,
        emitted: Option<Value>,
        cur: Value,
        max: Value,
        mean: Option<MeanDrawdown>,
        count: Option<u64>,
        fin_cur: Value,
        fin_max: Value,
        fin_mean: Option<MeanDrawdown>,
        /// what a live read just returned
        read_cur: Option<Value>,
        /// a live tear-sheet generate() has folded the current drawdown into Max / Mean
        folded: bool,
    }

    trait Sut {
        fn add(&mut self, k: usize, t: i64, v: Decimal) -> Result<Seen, String>;
        /// READ the current drawdown on the live object (`sheet`: through the tear sheet's generate())
        fn read(&mut self, sheet: bool) -> Result<Seen, String>;
        /// store + restore the generators (serde; spec action Persist) and show the figures again
        fn persist(&mut self) -> Result<Seen, String>;
        /// a new session (spec action Reset): the public reset() of the tear sheet generators
        /// (instrument: at once, with the start time `t`; asset: with the first balance of the new
        /// session, i.e. when the next point arrives); raw: fresh generators
        fn reset(&mut self, t: i64) -> Result<(), String>;
    }
    fn restore<T: serde::Serialize + serde::de::DeserializeOwned>(x: &mut T, what: &str) -> Result<(), String> {
        *x = super::c17::roundtrip(x).map_err(|e| format!("Persist {what}: {e}"))?;
        Ok(())
    }

    fn seen_of(g: &DrawdownGenerator, emitted: Option<Value>, max: &MaxDrawdownGenerator, mean: &MeanDrawdownGenerator,
               fin: (Option<Drawdown>, Option<MeanDrawdown>, Option<MaxDrawdown>)) -> Seen {
        Seen {
            peak: g.peak.zip(g.time_peak).map(|(p, t)| (p, untime_ms(t))),
            emitted,
            cur: opt_dd(g.clone().generate().as_ref()),
            max: opt_dd(max.generate().as_ref().map(|m| &m.0)),
            mean: mean.generate(),
            count: Some(mean.count),
            fin_cur: opt_dd(fin.0.as_ref()),
            fin_mean: fin.1,
            fin_max: opt_dd(fin.2.as_ref().map(|m| &m.0)),
            read_cur: None,
            folded: false,
        }
    }

    // ---- raw: the three generators, composed exactly as both tear sheets compose them
    struct Raw {
        g: Option<DrawdownGenerator>,
        max: MaxDrawdownGenerator,
        mean: MeanDrawdownGenerator,
        init_ctor: bool,
    }
    impl Sut for Raw {
        fn add(&mut self, _k: usize, t: i64, v: Decimal) -> Result<Seen, String> {
            let point = Timed::new(v, time_ms(t));
            let emitted = match &mut self.g {
                None => {
                    self.g = Some(if self.init_ctor { DrawdownGenerator::init(point) } else {
                        let mut g = DrawdownGenerator::default();
                        let first = catch(|| g.update(point))?;
                        if first.is_some() {
                            return Err(format!("first update emitted {first:?}"));
                        }
                        g
                    });
                    None
                }
                Some(g) => catch(|| g.update(point))?,
            };
            if let Some(dd) = &emitted {
                if self.init_ctor && self.mean.count == 0 && self.max.max.is_none() {
                    self.mean = MeanDrawdownGenerator::init(dd.clone());
                    self.max = MaxDrawdownGenerator::init(dd.clone());
                } else {
                    catch(|| { self.mean.update(dd); self.max.update(dd); })?;
                }
            }
            self.seen(Some(opt_dd(emitted.as_ref())))
        }
        fn read(&mut self, _sheet: bool) -> Result<Seen, String> {
            let g = self.g.as_mut().ok_or("read before the first point")?;
            let got = catch(|| g.generate())?;
            let mut s = self.seen(None)?;
            s.read_cur = Some(opt_dd(got.as_ref()));
            Ok(s)
        }
        fn persist(&mut self) -> Result<Seen, String> {
            restore(self.g.as_mut().ok_or("persist before the first point")?, "DrawdownGenerator")?;
            restore(&mut self.max, "MaxDrawdownGenerator")?;
            restore(&mut self.mean, "MeanDrawdownGenerator")?;
            self.seen(None)
        }
        fn reset(&mut self, _t: i64) -> Result<(), String> {
            (self.g, self.max, self.mean) = (None, Default::default(), Default::default());
            Ok(())
        }
    }
    impl Raw {
        fn seen(&self, emitted: Option<Value>) -> Result<Seen, String> {
            let g = self.g.as_ref().unwrap();
            // one generate(): fold the current drawdown into copies of Max / Mean
            let (mut fmax, mut fmean) = (self.max.clone(), self.mean.clone());
            let cur = g.clone().generate();
            if let Some(c) = &cur {
                catch(|| { fmean.update(c); fmax.update(c); })?;
            }
            Ok(seen_of(g, emitted, &self.max, &self.mean, (cur, fmean.generate(), fmax.generate())))
        }
    }

    // ---- asset tear sheet
    struct AssetSut {
        g: Option<TearSheetAssetGenerator>,
        init_ctor: bool,
        folded: bool,
        bal: Option<Balance>,
        pending_reset: bool,
    }
    impl Sut for AssetSut {
        fn add(&mut self, _k: usize, t: i64, v: Decimal) -> Result<Seen, String> {
            let bal = Balance::new(v, v / Decimal::TWO);
            match &mut self.g {
                Some(g) if self.pending_reset => {
                    self.pending_reset = false;
                    catch(|| g.reset(&Timed::new(bal, time_ms(t))))?;
                }
                None if self.init_ctor => self.g = Some(TearSheetAssetGenerator::init(&Timed::new(bal, time_ms(t)))),
                _ => {
                    let g = self.g.get_or_insert_with(TearSheetAssetGenerator::default);
                    let ab = AssetBalance { asset: AssetIndex(0), balance: bal, time_exchange: time_ms(t) };
                    catch(|| g.update_from_balance(Snapshot(&ab)))?;
                }
            }
            self.bal = Some(bal);
            self.seen()
        }
        fn read(&mut self, sheet: bool) -> Result<Seen, String> {
            let g = self.g.as_mut().ok_or("read before the first point")?;
            let got = if sheet {
                self.folded = true;
                catch(|| g.generate())?.drawdown
            } else {
                catch(|| g.drawdown.generate())?
            };
            let mut s = self.seen()?;
            s.read_cur = Some(opt_dd(got.as_ref()));
            Ok(s)
        }
        fn persist(&mut self) -> Result<Seen, String> {
            restore(self.g.as_mut().ok_or("persist before the first point")?, "TearSheetAssetGenerator")?;
            self.seen()
        }
        fn reset(&mut self, _t: i64) -> Result<(), String> {
            (self.pending_reset, self.folded) = (self.g.is_some(), false);
            Ok(())
        }
    }
    impl AssetSut {
        fn seen(&self) -> Result<Seen, String> {
            let g = self.g.as_ref().unwrap();
            if g.balance_now != self.bal {
                return Err(format!("balance_now is {:?} after balance {:?}", g.balance_now, self.bal));
            }
            let mut once = g.clone();
            let sheet = catch(|| once.generate())?;
            if sheet.balance_end != self.bal {
                return Err(format!("balance_end is {:?} after balance {:?}", sheet.balance_end, self.bal));
            }
            let mut s = seen_of(&g.drawdown, None, &g.drawdown_max, &g.drawdown_mean, (sheet.drawdown, sheet.drawdown_mean, sheet.drawdown_max));
            s.folded = self.folded;
            Ok(s)
        }
    }

    // ---- instrument tear sheet: the PnL curve of closed positions
    struct InstrSut {
        g: TearSheetGenerator,
        prev: Decimal,
        folded: bool,
    }
    impl Sut for InstrSut {
        fn add(&mut self, k: usize, t: i64, v: Decimal) -> Result<Seen, String> {
            let pos: PositionExited<QuoteAsset, InstrumentIndex> = PositionExited {
                instrument: InstrumentIndex(0),
                side: if k % 2 == 0 { Side::Buy } else { Side::Sell },
                price_entry_average: Decimal::from(10 + k as i64),
                quantity_abs_max: Decimal::TWO,
                pnl_realised: v - self.prev,
                fees_enter: AssetFees::quote_fees(Decimal::ZERO),
                fees_exit: AssetFees::quote_fees(Decimal::ZERO),
                time_enter: time_ms(t) - chrono::Duration::milliseconds(1),
                time_exit: time_ms(t),
                trades: vec![],
            };
            self.prev = v;
            catch(|| self.g.update_from_position(&pos))?;
            if self.g.pnl_returns.pnl_raw != v {
                return Err(format!("PnL curve value is {} instead of {v}", self.g.pnl_returns.pnl_raw));
            }
            self.seen()
        }
        fn read(&mut self, sheet: bool) -> Result<Seen, String> {
            let got = if sheet {
                self.folded = true;
                catch(|| self.g.generate(Decimal::ZERO, Daily))?.pnl_drawdown
            } else {
                catch(|| self.g.pnl_drawdown.generate())?
            };
            let mut s = self.seen()?;
            s.read_cur = Some(opt_dd(got.as_ref()));
            Ok(s)
        }
        fn persist(&mut self) -> Result<Seen, String> {
            self.persist_()
        }
        fn reset(&mut self, t: i64) -> Result<(), String> {
            self.reset_(t)
        }
    }
    impl InstrSut {
        fn persist_(&mut self) -> Result<Seen, String> {
            restore(&mut self.g, "TearSheetGenerator")?;
            self.seen()
        }
        fn reset_(&mut self, t: i64) -> Result<(), String> {
            catch(|| self.g.reset(time_ms(t)))?;
            (self.prev, self.folded) = (Decimal::ZERO, false);
            // (judged on the figures reported afterwards only - what C18 states - not on object equality
            //  with a freshly initialised generator)
            Ok(())
        }
        fn seen(&self) -> Result<Seen, String> {
            let mut once = self.g.clone();
            let sheet = catch(|| once.generate(Decimal::ZERO, Daily))?;
            let mut s = seen_of(&self.g.pnl_drawdown, None, &self.g.pnl_drawdown_max, &self.g.pnl_drawdown_mean,
                                (sheet.pnl_drawdown, sheet.pnl_drawdown_mean, sheet.pnl_drawdown_max));
            s.folded = self.folded;
            Ok(s)
        }
    }

    /// expectation (spec time units) -> implementation units (ms)
    fn exp_dd(e: &Value, v: Variant) -> Value {
        if let Some(alts) = e.get("anyOf").and_then(|a| a.as_array()) {
            return json!({"anyOf": alts.iter().map(|a| exp_dd(a, v)).collect::<Vec<_>>()});
        }
        if e.is_object() {
            return json!({"value": e["value"], "start": (i(e, "start") + v.toff) * v.unit_ms, "end": (i(e, "end") + v.toff) * v.unit_ms});
        }
        e.clone()
    }

    fn check_mean(exp: &Value, got: &Option<MeanDrawdown>, count: Option<u64>, unit: i64, path: &str) -> Result<(), String> {
        match (exp.as_object(), got) {
            (None, None) => {
                if count.unwrap_or(0) != 0 {
                    return Err(format!("{path}: no mean but count {}", count.unwrap()));
                }
                Ok(())
            }
            (None, Some(m)) => Err(format!("{path}: expected none, got {m:?}")),
            (Some(_), None) => Err(format!("{path}: expected {exp}, got none")),
            (Some(_), Some(m)) => {
                let n_exp = i(exp, "count");
                if let Some(c) = count {
                    if c as i64 != n_exp {
                        return Err(format!("{path}.count: expected {n_exp}, got {c}"));
                    }
                }
                json_match(&exp["value"], &json!(m.mean_drawdown.to_string()), &format!("{path}.mean_drawdown"))?;
                // integer milliseconds: exact mean within +- count ms
                let (n, d) = rat_of(&exp["dur"]).unwrap();
                let dev = (m.mean_drawdown_ms as i128 * d - n * unit as i128).abs();
                if dev > n_exp as i128 * d {
                    return Err(format!("{path}.mean_drawdown_ms: expected {n}/{d} x {unit} ms (+-{n_exp} ms), got {}", m.mean_drawdown_ms));
                }
                Ok(())
            }
        }
    }

    fn check_step(exp: &Value, s: &Seen, v: Variant) -> Result<(), String> {
        let u = v.unit_ms;
        // running maximum and its time
        let (pv, pt) = s.peak.ok_or("peak: none after a point")?;
        if pv != scaled_dec(i(&exp["peak"], "v"), v.e10) || pt != (i(&exp["peak"], "t") + v.toff) * u {
            return Err(format!("peak: expected value {}e{} at {} ms, got {pv} at {pt} ms", exp["peak"]["v"], v.e10, (i(&exp["peak"], "t") + v.toff) * u));
        }
        if let Some(em) = &s.emitted {
            json_match(&exp_dd(&exp["emitted"], v), em, "emitted")?;
        }
        if let Some(r) = &s.read_cur {
            json_match(&exp_dd(&exp["cur"], v), r, "read of the current drawdown")?;
        }
        let after = if s.read_cur.is_some() { " after the read" } else { "" };
        json_match(&exp_dd(&exp["cur"], v), &s.cur, &format!("current{after}"))?;
        json_match(&exp_dd(&exp["cur"], v), &s.fin_cur, &format!("generate().drawdown{after}"))?;
        if s.folded {
            // a live tear-sheet generate() folded the current drawdown into Max / Mean (by design)
            return Ok(());
        }
        json_match(&exp_dd(&exp["max"], v), &s.max, &format!("max{after}"))?;
        check_mean(&exp["mean"], &s.mean, s.count, u, &format!("mean{after}"))?;
        json_match(&exp_dd(&exp["fin_max"], v), &s.fin_max, &format!("generate().drawdown_max{after}"))?;
        check_mean(&exp["fin_mean"], &s.fin_mean, None, u, &format!("generate().drawdown_mean{after}"))?;
        Ok(())
    }

    // ---- impl -> spec: traces for spec/Trace_Drawdown.tla (integers only)
    const TRACE_UNIT_MS: i64 = 1000;
    /// positive values (every peak is positive) and, after the first point, zero / negative ones:
    /// a PnL curve may fall from a positive peak to below zero (depth > 1)
    const TRACE_VALUES: [i64; 9] = [1, 2, 3, 4, 5, 6, 8, 10, 12];
    const TRACE_LOW: [i64; 4] = [0, -1, -2, -4];

    /// depth in 1e-4 units, rounded
    fn e4(d: Decimal) -> i64 {
        i64::try_from((d * Decimal::from(10_000)).round().mantissa()).unwrap_or(-1)
    }
    fn dd_line(v: &Value, observed: bool) -> Value {
        match v.as_object() {
            Some(o) => json!({"obs": observed, "has": true, "e4": e4(as_dec(&o["value"])),
                "start": o["start"].as_i64().unwrap() / TRACE_UNIT_MS, "end": o["end"].as_i64().unwrap() / TRACE_UNIT_MS}),
            None => json!({"obs": observed, "has": false, "e4": 0, "start": 0, "end": 0}),
        }
    }
    fn as_dec(v: &Value) -> Decimal {
        vh::cmp::as_decimal(v).unwrap_or(Decimal::NEGATIVE_ONE)
    }
    fn mean_line(m: &Option<MeanDrawdown>, count: Option<u64>) -> Value {
        match m {
            Some(m) => json!({"has": true, "count": count.map(|c| c as i64).unwrap_or(-1), "e4": e4(m.mean_drawdown), "ms": m.mean_drawdown_ms}),
            None => json!({"has": false, "count": count.map(|c| c as i64).unwrap_or(-1), "e4": 0, "ms": 0}),
        }
    }
    fn post_line(s: &Seen) -> Value {
        let (pv, pt) = s.peak.unwrap_or((Decimal::NEGATIVE_ONE, -1000));
        json!({
            "peak": {"v": dec_json(pv), "t": pt / TRACE_UNIT_MS},
            "emitted": dd_line(s.emitted.as_ref().unwrap_or(&json!("none")), s.emitted.is_some()),
            "cur": dd_line(&s.cur, true),
            "max": dd_line(&s.max, true),
            "mean": mean_line(&s.mean, s.count),
            "fin_cur": dd_line(&s.fin_cur, true),
            "fin_max": dd_line(&s.fin_max, true),
            "fin_mean": mean_line(&s.fin_mean, None),
        })
    }
    fn empty_post() -> Value {
        let none = json!("none");
        json!({"peak": {"v": 0, "t": 0}, "emitted": dd_line(&none, true), "cur": dd_line(&none, true), "max": dd_line(&none, true),
            "mean": mean_line(&None, Some(0)), "fin_cur": dd_line(&none, true), "fin_max": dd_line(&none, true), "fin_mean": mean_line(&None, None)})
    }
    fn new_sut(mode: &str, init_ctor: bool) -> Box<dyn Sut> {
        match mode {
            "raw" => Box::new(Raw { g: None, max: Default::default(), mean: Default::default(), init_ctor }),
            "asset" => Box::new(AssetSut { g: None, init_ctor, folded: false, bal: None, pending_reset: false }),
            // (every other curve: a session start LATER than every point of the curve - a state seeded with the
            //  wall clock while recorded history is replayed; the points keep their own exit times)
            "instr" => Box::new(InstrSut { g: TearSheetGenerator::init(if init_ctor { time_ms(4_000_000_000_000) } else { time_ms(0) }), prev: Decimal::ZERO, folded: false }),
            m => usage(&format!("unknown mode {m}")),
        }
    }

    /// `random`: seeded random curves, a fresh generator every <= 14 points;
    /// `points`: the curve given in --in (one JSON array of [t, v]) in --mode.
    pub fn record(args: &Args) {
        let mut out = Out::create(args.req("out"));
        let mut curves = 0u64;
        let emit = |out: &mut Out, mode: &str, ic: bool, k: usize, sut: &mut Box<dyn Sut>, t: i64, v: i64, read: bool, persist: bool| -> bool {
            let post = match sut.add(k, t * TRACE_UNIT_MS, Decimal::from(v)) {
                Ok(s) => post_line(&s),
                Err(p) => json!({"panic": p}),
            };
            let mut ok = post.get("panic").is_none();
            out.line(&json!({"a": "AddPoint", "mode": mode, "ic": ic as u8, "rs": 0, "t": t, "v": v, "post": post}));
            if ok && read {
                // a READ on the live generator: `cur` is what the read returned, `fin_cur` what is shown after it
                let post = match sut.read(false) {
                    Ok(s) => {
                        let mut p = post_line(&s);
                        p["cur"] = dd_line(s.read_cur.as_ref().unwrap(), true);
                        p
                    }
                    Err(p) => json!({"panic": p}),
                };
                ok = post.get("panic").is_none();
                out.line(&json!({"a": "Read", "mode": mode, "ic": ic as u8, "rs": 0, "t": 0, "v": 0, "post": post}));
            }
            if ok && persist {
                // serde store + restore of the generators, then the figures again
                let post = match sut.persist() {
                    Ok(s) => post_line(&s),
                    Err(p) => json!({"panic": p}),
                };
                ok = post.get("panic").is_none();
                out.line(&json!({"a": "Persist", "mode": mode, "ic": ic as u8, "rs": 0, "t": 0, "v": 0, "post": post}));
            }
            ok
        };
        if args.cmd == "points" {
            let mode = args.str("mode", "raw");
            let pts = read_ndjson(args.req("in"));
            let pts = pts[0].as_array().unwrap_or_else(|| usage("--in: one JSON array of [t, v] | [t, v, f] (f: 1 read, 2 store/restore, 3 both, after the point) | \"reset\""));
            let ic = args.u64("init_ctor", 0) == 1;
            let mut sut = new_sut(&mode, ic);
            out.line(&json!({"a": "Reset", "mode": mode, "ic": ic as u8, "rs": 0, "t": 0, "v": 0, "post": empty_post()}));
            curves = 1;
            let mut k = 0;
            for (j, p) in pts.iter().enumerate() {
                if p == "reset" {
                    // the public reset() on the generator that was fed the previous session
                    let t = pts.get(j + 1).and_then(|q| q[0].as_i64()).unwrap_or(0);
                    let post = match sut.reset(t * TRACE_UNIT_MS) { Ok(()) => empty_post(), Err(e) => json!({"panic": e}) };
                    let ok = post.get("panic").is_none();
                    out.line(&json!({"a": "Reset", "mode": mode, "ic": ic as u8, "rs": 1, "t": 0, "v": 0, "post": post}));
                    k = 0;
                    if !ok { break; }
                    continue;
                }
                let f = p.get(2).and_then(|x| x.as_i64()).unwrap_or(0);
                if !emit(&mut out, &mode, ic, k, &mut sut, p[0].as_i64().unwrap(), p[1].as_i64().unwrap(), f & 1 == 1, f & 2 == 2) {
                    break;
                }
                k += 1;
            }
        } else {
            let mut r = rng(args.u64("seed", 1));
            let steps = args.usize("steps", 3000);
            let mut n = 0;
            let mut reuse: Option<(&str, bool, Box<dyn Sut>, i64)> = None;
            while n < steps {
                // a new curve: a fresh generator, or (every other time) the PUBLIC reset() of the tear sheet
                // generator that was fed the previous curve - either way a new session for the specification
                let (mode, ic, mut sut, mut t, rs) = match reuse.take() {
                    Some((m, ic, mut sut, t)) if r.random_bool(0.5) => {
                        let t = t + r.random_range(0..=2);
                        match sut.reset(t * TRACE_UNIT_MS) {
                            Ok(()) => (m, ic, sut, t, 1),
                            Err(e) => {
                                out.line(&json!({"a": "Reset", "mode": m, "ic": ic as u8, "rs": 1, "t": 0, "v": 0, "post": {"panic": e}}));
                                continue;
                            }
                        }
                    }
                    _ => {
                        let mode = MODES[r.random_range(0..MODES.len())];
                        let ic = r.random_bool(0.5);
                        (mode, ic, new_sut(mode, ic), 0, 0)
                    }
                };
                out.line(&json!({"a": "Reset", "mode": mode, "ic": ic as u8, "rs": rs, "t": 0, "v": 0, "post": empty_post()}));
                curves += 1;
                let len = r.random_range(1..=14);
                let (mut peak, mut prev) = (0i64, 0i64);
                for k in 0..len {
                    t += r.random_range(0..=4); // equal consecutive times are legitimate
                    // bias towards the interesting points: back to the peak exactly, repeat, just above
                    let v = match r.random_range(0..10) {
                        0 | 1 if peak > 0 => peak,
                        2 if prev > 0 => prev,
                        3 if peak > 0 => *TRACE_VALUES.iter().find(|x| **x > peak).unwrap_or(&peak),
                        4 if k > 0 => TRACE_LOW[r.random_range(0..TRACE_LOW.len())],
                        _ => TRACE_VALUES[r.random_range(0..TRACE_VALUES.len())],
                    };
                    peak = peak.max(v);
                    prev = v;
                    n += 1;
                    let read = r.random_range(0..3) == 0;
                    let persist = r.random_range(0..4) == 0;
                    if !emit(&mut out, mode, ic, k, &mut sut, t, v, read, persist) {
                        break;
                    }
                }
                reuse = Some((mode, ic, sut, t));
            }
        }
        let lines = out.finish();
        println!("{}", json!({"lines": lines, "curves": curves}));
    }

    pub fn replay(args: &Args) {
        let seed = args.u64("seed", 1);
        let only = args.get("mode").map(|s| s.to_string());
        let scenarios = read_ndjson(args.req("scenarios"));
        let mut res = Results::new(args.req("out"));
        let mut by_mode = serde_json::Map::new();
        let (mut emitted_seen, mut current_seen, mut ties_seen) = (0u64, 0u64, 0u64);
        let (mut reads, mut equal_times, mut through_zero) = (0u64, 0u64, 0u64);
        let (mut persists, mut resets) = (0u64, 0u64);
        for (n, scn) in scenarios.iter().enumerate() {
            let vi = vidx(scn, n);
            let mut var = variant_of(scn, seed, vi);
            let pts = scn["pts"].as_array().unwrap_or_else(|| usage("scenario without pts"));
            // the previous session (see Variant::prelude): points of another scenario of the file
            let prelude: Vec<(i64, i64)> = match scn.get("variant").and_then(|v| v.get("prelude_pts")).and_then(|x| x.as_array()) {
                Some(a) => a.iter().map(|p| (p[0].as_i64().unwrap(), p[1].as_i64().unwrap())).collect(),
                None if var.prelude > 0 => {
                    let other = &scenarios[(n + 1 + pick(seed, vi, 10, scenarios.len() as u64) as usize) % scenarios.len()];
                    other["pts"].as_array().unwrap().iter().take(var.prelude as usize).map(|p| (i(p, "t"), i(p, "v"))).collect()
                }
                None => vec![],
            };
            var.toff = prelude.last().map(|(t, _)| t + pick(seed, vi, 11, 2) as i64).unwrap_or(0);
            for mode in MODES {
                if only.as_deref().is_some_and(|m| m != mode) {
                    continue;
                }
                let mut sut = new_sut(mode, var.init_ctor);
                let mut failure = None;
                let mut pre = json!("initial");
                if !prelude.is_empty() {
                    // session 1, then the public reset(): what follows must be judged like a fresh generator
                    resets += 1;
                    let r = prelude.iter().enumerate().try_for_each(|(k, (t, v))| sut.add(k, t * var.unit_ms, scaled_dec(*v, var.e10)).map(|_| ()))
                        .and_then(|_| sut.reset(var.toff * var.unit_ms));
                    if let Err(e) = r {
                        failure = Some((0, format!("reset: after the previous session {prelude:?}: {e}")));
                    }
                }
                for (k, p) in pts.iter().enumerate() {
                    if failure.is_some() {
                        break;
                    }
                    res.steps += 1;
                    let exp = &p["exp"];
                    if p.get("reset").and_then(|x| x.as_bool()).unwrap_or(false) {
                        // spec action Reset before this point
                        resets += 1;
                        if let Err(e) = sut.reset((i(p, "t") + var.toff) * var.unit_ms) {
                            failure = Some((k, format!("reset: {e}")));
                            break;
                        }
                    }
                    let val = scaled_dec(i(p, "v"), var.e10);
                    let flagged = p.get("read").and_then(|x| x.as_bool()).unwrap_or(false);
                    let show = |s: &Seen| json!({"peak": s.peak.map(|(p, t)| json!([p.to_string(), t])), "cur": s.cur, "max": s.max,
                            "mean": s.mean.as_ref().map(|m| json!([m.mean_drawdown.to_string(), m.mean_drawdown_ms]))});
                    let mut r = sut.add(k, (i(p, "t") + var.toff) * var.unit_ms, val).and_then(|s| check_step(exp, &s, var).map(|_| show(&s)));
                    if let (Ok(_), Some(sheet)) = (&r, read_after(var, k, flagged)) {
                        // ReadCurrent: reading the live object must return the current drawdown and change nothing
                        reads += 1;
                        r = sut.read(sheet).and_then(|s| check_step(exp, &s, var).map(|_| show(&s)));
                    }
                    let pflag = p.get("persist").and_then(|x| x.as_bool()).unwrap_or(false);
                    if r.is_ok() && (match var.persist { 1 => true, 2 => pick(var.salt, k as u64, 17, 2) == 1, _ => pflag }) {
                        // Persist: a store / restore of the generators is a stutter
                        persists += 1;
                        r = sut.persist().and_then(|s| check_step(exp, &s, var).map_err(|e| format!("{e} (after a store/restore)")).map(|_| show(&s)));
                    }
                    match r {
                        Ok(shown) => pre = shown,
                        Err(e) => {
                            failure = Some((k, e));
                            break;
                        }
                    }
                    if mode == "raw" {
                        equal_times += (k > 0 && pts[k - 1]["t"] == p["t"]) as u64;
                        through_zero += rat_of(&exp["cur"]["value"]).is_some_and(|(n, d)| n > d) as u64;
                        emitted_seen += (exp["emitted"] != "none") as u64;
                        current_seen += (exp["cur"] != "none") as u64;
                        ties_seen += exp["fin_max"].get("anyOf").and_then(|a| a.as_array()).is_some_and(|a| a.len() > 1) as u64;
                    }
                }
                let mut vj = variant_json(var);
                vj["prelude_pts"] = json!(prelude.iter().map(|(t, v)| json!([t, v])).collect::<Vec<_>>());
                let extra = json!({"mode": mode, "variant": vj});
                *by_mode.entry(mode).or_insert(json!(0)) = json!(by_mode.get(mode).and_then(|x| x.as_u64()).unwrap_or(0) + 1);
                match failure {
                    None => res.ok(n, vi, extra),
                    Some((k, e)) => {
                        let ev = json!({"t": pts[k]["t"], "v": pts[k]["v"], "curve": pts[..=k].iter().map(|p| if p["reset"] == true { json!(["reset()", p["t"], p["v"]]) } else { json!([p["t"], p["v"]]) }).collect::<Vec<_>>()});
                        res.fail(n, vi, k, e, ev, pre, extra)
                    }
                }
            }
        }
        let (scn, failed, steps) = (res.scenarios, res.failed, res.steps);
        res.out.finish();
        println!("{}", json!({"scenarios": scn, "failed": failed, "points": steps, "runs_by_mode": by_mode,
            "arm_hits": {"point_completes_a_drawdown": emitted_seen, "drawdown_in_progress": current_seen, "max_tie": ties_seen,
                         "live_read": reads, "equal_consecutive_times": equal_times, "decline_through_zero": through_zero,
                         "store_restore": persists, "reset": resets}}));
    }
}

// =============================================================================================
// C16 - tear sheets and the trading summary
// =============================================================================================
mod c16 {
    use super::*;
    use barter::{
        EngineEvent,
        engine::{
            Engine, EngineOutput, Processor,
            audit::EngineAudit,
            clock::HistoricalClock,
            execution_tx::MultiExchangeTxMap,
            state::{
                EngineState, global::DefaultGlobalData, instrument::data::DefaultInstrumentMarketData,
                position::PositionExited, trading::TradingState,
            },
        },
        execution::{AccountStreamEvent, request::ExecutionRequest},
        risk::DefaultRiskManager,
        statistic::{
            summary::{
                TradingSummary, TradingSummaryGenerator,
                asset::{TearSheetAsset, TearSheetAssetGenerator},
                instrument::{TearSheet, TearSheetGenerator},
                pnl::PnLReturns,
            },
            time::{Annual252, Annual365, Daily, TimeInterval},
        },
        strategy::DefaultStrategy,
    };
    use chrono::TimeDelta;
    use barter_execution::{
        AccountEvent, AccountEventKind,
        balance::{AssetBalance, Balance},
        order::id::{OrderId, StrategyId},
        trade::{AssetFees, Trade, TradeId},
    };
    use barter_instrument::{
        Side,
        asset::{AssetIndex, ExchangeAsset, QuoteAsset, name::AssetNameInternal},
        exchange::{ExchangeId, ExchangeIndex},
        instrument::{InstrumentIndex, name::InstrumentNameInternal},
    };
    use barter_integration::{channel::UnboundedTx, snapshot::Snapshot};
    use barter_instrument::{Underlying, index::IndexedInstruments, instrument::Instrument};

    type State = EngineState<DefaultGlobalData, DefaultInstrumentMarketData>;
    type Eng = Engine<HistoricalClock, State, MultiExchangeTxMap<UnboundedTx<ExecutionRequest>>, DefaultStrategy<State>, DefaultRiskManager<State>>;

    /// The universe of the C16 drivers: two exchanges, and internal NAMES that deliberately do NOT sort
    /// in index order (IndexedInstruments orders by exchange, then name), so that an index resolved by
    /// map position and a name resolved by key only agree when the maps really are in index order.
    /// spec key "iN" <-> InstrumentIndex(N) <-> name_internal
    const INSTR: [(&str, ExchangeId, &str, &str, &str); 4] = [
        ("i0", ExchangeId::BinanceSpot, "m_xrp_usdt", "xrp", "usdt"),
        ("i1", ExchangeId::BinanceSpot, "z_sol_usdt", "sol", "usdt"),
        ("i2", ExchangeId::Kraken, "a_btc_usdc", "btc", "usdc"),
        ("i3", ExchangeId::Kraken, "k_ada_usdc", "ada", "usdc"),
    ];
    /// spec key "aN" <-> AssetIndex(N) <-> (exchange, asset name) - names not in index order either;
    /// asserted against the IndexedInstruments at start-up
    const ASSET: [(&str, ExchangeId, &str); 6] = [
        ("a0", ExchangeId::BinanceSpot, "sol"),
        ("a1", ExchangeId::BinanceSpot, "usdt"),
        ("a2", ExchangeId::BinanceSpot, "xrp"),
        ("a3", ExchangeId::Kraken, "ada"),
        ("a4", ExchangeId::Kraken, "btc"),
        ("a5", ExchangeId::Kraken, "usdc"),
    ];
    const EXCHANGES: [ExchangeId; 2] = [ExchangeId::BinanceSpot, ExchangeId::Kraken];

    fn instruments() -> IndexedInstruments {
        let mut b = IndexedInstruments::builder();
        // i0 and i2 are spot markets; i1 and i3 are perpetual contracts with contract sizes 0.01 and 10 (settled in their
        // quote asset, so the asset table is the same): fills, closed positions and hence the tear sheets are stated in
        // the units the venue reports and do not depend on the contract size
        for (k, (_, ex, name, base, quote)) in INSTR.iter().enumerate().rev() {
            let market = format!("{base}{quote}").to_uppercase();
            b = b.add_instrument(if k % 2 == 0 {
                Instrument::spot(*ex, *name, market, Underlying::new(*base, *quote), None)
            } else {
                Instrument::new(*ex, *name, market, Underlying::new(*base, *quote), barter_instrument::instrument::quote::InstrumentQuoteAsset::UnderlyingQuote,
                    barter_instrument::instrument::kind::InstrumentKind::Perpetual(barter_instrument::instrument::kind::perpetual::PerpetualContract { contract_size: if k == 1 { Decimal::new(1, 2) } else { Decimal::from(10) }, settlement_asset: barter_instrument::asset::Asset::from(*quote) }),
                    None)
            });
        }
        b.build()
    }
    /// `seeded`: starting balances given to the builder (EngineStateBuilder::balances, what SystemBuilder::balances
    /// does): each is the FIRST accepted snapshot of its asset, stamped with the start of the session
    fn engine_state(start: i64, seeded: &[(usize, Balance)]) -> State {
        EngineState::builder(&instruments(), DefaultGlobalData::default(), DefaultInstrumentMarketData::default)
            .balances(seeded.iter().map(|(n, b)| barter_instrument::Keyed::new(asset_key(*n), *b)))
            .time_engine_start(time(start))
            .trading_state(TradingState::Disabled)
            .build()
    }

    fn assert_world() {
        let ii = instruments();
        let names: Vec<&str> = INSTR.iter().map(|x| x.2).collect();
        assert!(!names.is_sorted(), "the universe must not have its names in index order");
        for (n, (_, ex, name, _, _)) in INSTR.iter().enumerate() {
            let k = &ii.instruments()[n];
            assert!(k.key == InstrumentIndex(n) && k.value.name_internal.as_ref() == *name && k.value.exchange.value == *ex,
                "harness world changed: instrument {n} is {:?}", k.value.name_internal);
        }
        assert_eq!(ii.assets().len(), ASSET.len(), "harness world changed: assets");
        for (n, (_, ex, name)) in ASSET.iter().enumerate() {
            let k = &ii.assets()[n];
            assert!(k.key == AssetIndex(n) && k.value.exchange == *ex && k.value.asset.name_internal.as_ref() == *name,
                "harness world changed: asset {n} is {:?}", k.value);
        }
    }

    fn instr_no(k: &str) -> usize {
        INSTR.iter().position(|x| x.0 == k).unwrap_or_else(|| usage(&format!("unknown instrument key {k}")))
    }
    fn asset_no(k: &str) -> usize {
        ASSET.iter().position(|x| x.0 == k).unwrap_or_else(|| usage(&format!("unknown asset key {k}")))
    }
    fn asset_key(n: usize) -> ExchangeAsset<AssetNameInternal> {
        ExchangeAsset::new(ASSET[n].1, AssetNameInternal::new(ASSET[n].2))
    }

    // ---- projection: exactly the spec's sheet records
    fn sheet_json<I>(s: &TearSheet<I>) -> Value {
        json!({
            "pnl": s.pnl.to_string(),
            "win_rate": s.win_rate.as_ref().map(|w| json!(w.value.to_string())).unwrap_or(json!("none")),
            "profit_factor": match &s.profit_factor {
                None => json!("none"),
                Some(p) if p.value == Decimal::MAX => json!("MAX"),
                Some(p) if p.value == Decimal::MIN => json!("MIN"),
                Some(p) => json!(p.value.to_string()),
            },
        })
    }
    /// (`points`: which accepted snapshot is the last point of the equity curve - filled in by the replay
    /// loop from the generator's clock, `Sut::curve_end`)
    fn asset_json(s: &TearSheetAsset) -> Value {
        match &s.balance_end {
            None => json!("none"),
            Some(b) => json!({"total": b.total.to_string(), "free": b.free.to_string(), "points": "unknown"}),
        }
    }
    /// projection of the running returns summaries of one instrument (PnLReturns.total / .losses)
    fn returns_json(r: &PnLReturns) -> Value {
        json!({"count": r.total.count.to_string(), "sum": r.total.sum.to_string(), "mean": r.total.mean.to_string(),
               "losses_count": r.losses.count.to_string(), "losses_sum": r.losses.sum.to_string(), "losses_mean": r.losses.mean.to_string()})
    }
    fn empty_sheet() -> Value {
        json!({"pnl": {"n": 0, "d": 1}, "win_rate": "none", "profit_factor": "none"})
    }
    /// the interval names of the specification (Stats.tla, IvLen) as the real interval types
    macro_rules! with_iv {
        ($name:expr, $i:ident => $body:expr) => {
            match $name {
                "Daily" => { let $i = Daily; $body }
                "Annual252" => { let $i = Annual252; $body }
                "Annual365" => { let $i = Annual365; $body }
                "Hours2" => { let $i = TimeDelta::hours(2); $body }
                "Days500" => { let $i = TimeDelta::days(500); $body }
                o => usage(&format!("unknown interval {o}")),
            }
        };
    }
    /// what a sheet is generated with: risk-free return, target interval, and the second interval the
    /// figures are then rescaled to with their public scale()
    #[derive(Clone)]
    struct Query {
        rf: Decimal,
        iv: String,
        iw: String,
        /// project the ratio figures (the behaviour has expectations for them)
        ratios: bool,
    }
    impl Query {
        fn plain() -> Self {
            Query { rf: Decimal::ZERO, iv: "Daily".into(), iw: "Daily".into(), ratios: false }
        }
    }
    /// projection of the four ratio figures: value and interval (seconds) as generated, and after scale(iw)
    fn ratios_json<I: TimeInterval, J: TimeInterval>(s: &TearSheet<I>, iw: J) -> Value {
        let secs = [s.pnl_return.interval.interval(), s.sharpe_ratio.interval.interval(), s.sortino_ratio.interval.interval(), s.calmar_ratio.interval.interval()];
        let vals = [s.pnl_return.value, s.sharpe_ratio.value, s.sortino_ratio.value, s.calmar_ratio.value];
        // the public scale() of every figure (it takes decimal square roots and may panic: data)
        let re = catch(|| {
            let (a, b, c, d) = (s.pnl_return.clone().scale(iw), s.sharpe_ratio.clone().scale(iw), s.sortino_ratio.clone().scale(iw), s.calmar_ratio.clone().scale(iw));
            [(a.value, a.interval.interval()), (b.value, b.interval.interval()), (c.value, c.interval.interval()), (d.value, d.interval.interval())]
        });
        let mut o = serde_json::Map::new();
        for (k, name) in ["pnl_return", "sharpe_ratio", "sortino_ratio", "calmar_ratio"].iter().enumerate() {
            o.insert(name.to_string(), match &re {
                Ok(r) => json!({"v": vals[k].to_string(), "secs": secs[k].num_seconds(), "v2": r[k].0.to_string(), "secs2": r[k].1.num_seconds()}),
                Err(p) => json!({"v": vals[k].to_string(), "secs": secs[k].num_seconds(), "panic2": p}),
            });
        }
        Value::Object(o)
    }
    /// (summary projection as before, ratio figures per instrument key)
    fn summary_json<I: TimeInterval, J: TimeInterval>(s: &TradingSummary<I>, iw: J, with_ratios: bool) -> (Value, Value) {
        let mut inst = serde_json::Map::new();
        let mut ratios = serde_json::Map::new();
        for (name, sheet) in &s.instruments {
            let key = INSTR.iter().find(|x| x.2 == name.as_ref()).map(|x| x.0.to_string()).unwrap_or(format!("foreign:{name}"));
            if with_ratios {
                ratios.insert(key.clone(), ratios_json(sheet, iw));
            }
            if inst.insert(key.clone(), sheet_json(sheet)).is_some() {
                inst.insert(key, json!("duplicate key"));
            }
        }
        let mut assets = serde_json::Map::new();
        for (ea, sheet) in &s.assets {
            let key = ASSET.iter().find(|x| x.1 == ea.exchange && x.2 == ea.asset.as_ref()).map(|x| x.0.to_string()).unwrap_or(format!("foreign:{ea:?}"));
            if assets.insert(key.clone(), asset_json(sheet)).is_some() {
                assets.insert(key, json!("duplicate key"));
            }
        }
        (json!({"instruments": inst, "assets": assets}), Value::Object(ratios))
    }

    /// the expectation of the spec, completed for the keys the (smaller) model does not have and
    /// brought to the scale of this run
    fn complete(exp: &Value, e10: i32) -> Value {
        let mut inst = serde_json::Map::new();
        for (k, ..) in INSTR {
            let mut s = exp["instruments"].get(k).cloned().unwrap_or_else(empty_sheet);
            let (n, d) = rat_of(&s["pnl"]).unwrap();
            let (n, d) = scale_frac(n, d, e10);
            s["pnl"] = json!({"n": n as i64, "d": d as i64});
            inst.insert(k.to_string(), s);
        }
        let mut assets = serde_json::Map::new();
        for (k, _, _) in ASSET {
            let a = exp["assets"].get(k).cloned().unwrap_or(json!("none"));
            assets.insert(k.to_string(), if a.is_object() {
                let (n, d) = scale_frac(i(&a, "total") as i128, 1, e10);
                let mut o = json!({"total": {"n": n as i64, "d": d as i64}});
                // (behaviours written before balances carried a free part name the total only)
                if a.get("free").is_some() {
                    let (n, d) = scale_frac(i(&a, "free") as i128, 1, e10);
                    o["free"] = json!({"n": n as i64, "d": d as i64});
                    o["points"] = a["points"].clone();
                }
                o
            } else { a });
        }
        let mut out = json!({"instruments": inst, "assets": assets});
        // the returns summaries (returns are scale-free); keys the smaller model does not have: no returns
        if let Some(r) = exp.get("returns") {
            let zero = json!({"n": 0, "d": 1});
            let mut rs = serde_json::Map::new();
            for (k, ..) in INSTR {
                rs.insert(k.to_string(), r.get(k).cloned().unwrap_or_else(|| json!({"count": 0, "sum": zero, "mean": zero,
                    "losses_count": 0, "losses_sum": zero, "losses_mean": zero})));
            }
            out["returns"] = Value::Object(rs);
        }
        out
    }
    /// the projection brought to the shape of the expectation: behaviours written before balances carried a free
    /// part / before the returns summaries were projected do not name them
    fn prune(actual: &mut Value, exp: &Value) {
        if exp.get("returns").is_none() {
            if let Some(o) = actual.as_object_mut() {
                o.remove("returns");
            }
        }
        let legacy = exp["assets"].as_object().is_some_and(|m| m.values().any(|a| a.is_object() && a.get("free").is_none()))
            || exp["assets"].as_object().is_some_and(|m| m.values().all(|a| !a.is_object())) && exp.get("returns").is_none();
        if let (true, Some(m)) = (legacy, actual["assets"].as_object_mut()) {
            for a in m.values_mut() {
                if let Some(o) = a.as_object_mut() {
                    o.remove("free");
                    o.remove("points");
                }
            }
        }
    }

    // ---- the ratio figures against the squared / factored figures of Stats.tla
    /// square root of a non-negative Decimal: f64 seed, Newton steps in Decimal (independent of
    /// rust_decimal's own sqrt, which the code under test uses); checked by squaring
    fn sqrt_dec(x: Decimal) -> Decimal {
        use rust_decimal::prelude::{FromPrimitive, ToPrimitive};
        if x.is_zero() {
            return Decimal::ZERO;
        }
        let mut r = Decimal::from_f64(x.to_f64().unwrap_or(1.0).sqrt()).filter(|r| !r.is_zero()).unwrap_or(Decimal::ONE);
        for _ in 0..2 {
            r = (r + x / r) / Decimal::TWO;
        }
        let back = r * r;
        assert!((back - x).abs() <= x.abs().max(Decimal::ONE) * Decimal::new(1, 20), "harness sqrt: {r}^2 = {back} for {x}");
        r
    }
    fn kind_of(v: Decimal) -> &'static str {
        if v == Decimal::MAX { "MAX" } else if v == Decimal::MIN { "MIN" } else { "num" }
    }
    fn tup_i(t: &Value, k: usize) -> i128 {
        t[k].as_i64().unwrap_or_else(|| usage(&format!("bad figure tuple {t}"))) as i128
    }
    /// a mismatch on one ratio figure: enough for a stable signature
    #[derive(Clone)]
    struct RatioFail {
        field: String,
        case: String,
        expk: String,
        gotk: String,
        error: String,
    }
    #[derive(Default)]
    struct RatioStats {
        /// sheets that matched a reading of open points 4 / 5 (Stats.tla) other than the code's present one
        other_reading: u64,
        compared: u64,
        open: u64,
        sentinel_scaled_down: u64,
        rescaled: u64,
        max_err_over_tol: Decimal,
    }
    /// `actual` against the figure <<k, sign, sq.n, sq.d, fac.n, fac.d, case, fac'.n, fac'.d>>:
    /// value = sign * sqrt(sq * fac) within 1e-12 relative (the code takes decimal square roots);
    /// a sentinel exactly, or - scaled down, its `fac` < 1 the lower end - any value of its sign from
    /// MAX * sqrt(fac) up to MAX; "any": left open by the specification. `second`: after scale(iw), fac'.
    fn check_fig(exp: &Value, second: bool, actual: Decimal, rs: &mut RatioStats) -> Result<(), String> {
        let (fi, what) = if second { (7, " after scale()") } else { (4, "") };
        let (fnum, fden) = (tup_i(exp, fi), tup_i(exp, fi + 1));
        rs.compared += 1;
        match exp[0].as_str().unwrap_or("?") {
            "any" => {
                rs.open += 1;
                Ok(())
            }
            "num" => {
                let (sign, sn, sd) = (tup_i(exp, 1), tup_i(exp, 2), tup_i(exp, 3));
                let rad = Decimal::from_i128_with_scale(sn * fnum, 0) / Decimal::from_i128_with_scale(sd * fden, 0);
                let expv = Decimal::from_i128_with_scale(sign, 0) * sqrt_dec(rad);
                let tol = expv.abs().max(Decimal::ONE) * Decimal::new(1, 12);
                // (the value under test may be anything, a sentinel included: no overflow in the judge)
                let err = actual.checked_sub(expv).map(|d| d.abs()).unwrap_or(Decimal::MAX);
                let over = err.checked_div(tol).unwrap_or(Decimal::MAX);
                if over > rs.max_err_over_tol && err <= tol {
                    rs.max_err_over_tol = over;
                }
                if err > tol {
                    return Err(format!("expected {sign} * sqrt({sn}/{sd} * {fnum}/{fden}) (= {expv}){what}, got {actual} (tolerance {tol})"));
                }
                Ok(())
            }
            k @ ("MAX" | "MIN") => {
                let sentinel = if k == "MAX" { Decimal::MAX } else { Decimal::MIN };
                if fnum == fden {
                    return if actual == sentinel { Ok(()) } else { Err(format!("expected {k}{what}, got {actual}")) };
                }
                // scaled down: open between the product and the sentinel, never the other sign
                rs.sentinel_scaled_down += 1;
                let lo = Decimal::MAX * sqrt_dec(Decimal::from_i128_with_scale(fnum, 0) / Decimal::from_i128_with_scale(fden, 0)) * (Decimal::ONE - Decimal::new(1, 12));
                if actual.is_sign_negative() == sentinel.is_sign_negative() && actual.abs() >= lo {
                    Ok(())
                } else {
                    Err(format!("expected {k} or at least {k} * sqrt({fnum}/{fden}){what}, got {actual}"))
                }
            }
            o => usage(&format!("unknown figure kind {o}")),
        }
    }
    /// the linear figure: `close` of the shared helpers, kept away from values it cannot subtract
    fn check_linear(n: i128, d: i128, actual: Decimal, st: &mut ErrStats) -> Result<(), String> {
        if actual.abs() > Decimal::from_i128_with_scale(10i128.pow(24), 0) {
            return Err(format!("expected {n}/{d}, got {actual}"));
        }
        close(n, d, 0, actual, "value", st).map_err(|m| m.trim_start_matches("value: ").to_string())
    }
    /// the four figures of one instrument sheet; every mismatch is returned (the run goes on: one wrong
    /// figure does not hide the others)
    fn check_ratios(inst: &str, exp: &Value, got: &Value, ivlen: i64, iwlen: i64, st: &mut ErrStats, rs: &mut RatioStats) -> Vec<RatioFail> {
        let mut fails = vec![];
        let scale = exp["scale"].as_str().unwrap_or("?");
        for field in ["pnl_return", "sharpe_ratio", "sortino_ratio", "calmar_ratio"] {
            let (e, g) = (&exp[field], &got[field]);
            let dec = |k: &str| g.get(k).and_then(|x| x.as_str()).and_then(|x| Decimal::from_str(x).ok());
            let Some(v) = dec("v") else { usage(&format!("projection without {field}: {got}")) };
            let (case, expk) = if field == "pnl_return" { ("value".to_string(), "num".to_string()) } else { (e[6].as_str().unwrap_or("?").to_string(), e[0].as_str().unwrap_or("?").to_string()) };
            let mut fail = |sub: &str, gotk: &str, error: String| fails.push(RatioFail {
                field: format!("{field}{sub}"), case: case.clone(), expk: expk.clone(), gotk: gotk.to_string(),
                error: format!("ratios.{inst}.{field}{sub}: {error} [case {case}, scaled {scale}]"),
            });
            // as generated
            let first = if field == "pnl_return" {
                rs.compared += 1;
                check_linear(tup_i(e, 0) * tup_i(e, 2), tup_i(e, 1) * tup_i(e, 3), v, st)
            } else {
                check_fig(e, false, v, rs)
            };
            let first_ok = first.is_ok();
            if let Err(m) = first {
                fail("", kind_of(v), m);
            }
            if g["secs"].as_i64() != Some(ivlen) {
                fail(".interval", "num", format!("expected the requested interval of {ivlen} s, got {}", g["secs"]));
            }
            // rescaled with the figure's public scale() to the second interval (a figure that is already
            // wrong as generated is not judged a second time)
            match (dec("v2"), g.get("panic2")) {
                _ if !first_ok => {}
                (Some(v2), _) => {
                    rs.rescaled += 1;
                    let second = if field == "pnl_return" {
                        check_linear(tup_i(e, 0) * tup_i(e, 4), tup_i(e, 1) * tup_i(e, 5), v2, st)
                    } else {
                        check_fig(e, true, v2, rs)
                    };
                    if let Err(m) = second {
                        fail(".scale()", kind_of(v2), format!("scaled on from {ivlen} s to {iwlen} s: {m}"));
                    }
                    if g["secs2"].as_i64() != Some(iwlen) {
                        fail(".scale().interval", "num", format!("expected the interval of {iwlen} s, got {}", g["secs2"]));
                    }
                }
                (None, Some(p)) => fail(".scale()", "panic", format!("scale() to {iwlen} s panicked: {p}")),
                _ => usage("projection without v2"),
            }
        }
        fails
    }

    #[derive(Clone, Copy)]
    struct Variant {
        e10: i32,   // scale of prices / pnl / balances: 10^e10 (returns are scale-free)
        salt: u64,  // per-step choices: side, price x quantity factorisation, fees, key type
        start: i64, // session start (seconds after the harness epoch): exit times count from it
    }
    fn variant_of(scn: &Value, seed: u64, vi: u64) -> Variant {
        if let Some(v) = scn.get("variant").filter(|v| v.is_object()) {
            return Variant { e10: i(v, "e10") as i32, salt: v["salt"].as_u64().unwrap_or(0), start: v["start"].as_i64().unwrap_or(0) };
        }
        Variant { e10: [0, 3, -3][pick(seed, vi, 1, 3) as usize], salt: pick(seed, vi, 2, 1 << 32), start: [0, 1_000, 259_200][pick(seed, vi, 3, 3) as usize] }
    }

    /// How a closed position (pnl, cost) of the spec is concretised
    #[derive(Clone)]
    struct Plan {
        side: Side,
        qty: Decimal,
        price: Decimal,   // entry price: price * qty = cost
        exit: Decimal,    // exit price (engine mode)
        pnl: Decimal,
        fee_in: Decimal,
        fee_out: Decimal,
        partial: bool,    // engine mode: reduce by half first, then close
        /// engine mode: this position was opened by the crossing fill that closed the previous one
        opened_by_flip: bool,
        /// engine mode: the closing fill is over-sized by this quantity and FLIPS the position
        /// (the leftover opens the next closed position of the same instrument)
        flip_leftover: Option<Decimal>,
    }
    fn opposite(s: Side) -> Side {
        if s == Side::Buy { Side::Sell } else { Side::Buy }
    }
    /// realisable with zero fees: the exit price stays positive
    fn realisable(side: Side, cost: Decimal, pnl: Decimal) -> bool {
        if side == Side::Buy { cost + pnl > Decimal::ZERO } else { cost - pnl > Decimal::ZERO }
    }

    /// Plans every AddClosed event of a scenario. Consecutive closed positions of one instrument are
    /// chained, where the numbers allow it exactly, through CROSSING fills: the fill that closes
    /// position k is larger than the open quantity and opens position k+1 on the other side
    /// (long -> short -> long ..., also repeatedly).
    fn plan_scenario(evs: &[Value], var: Variant) -> Vec<Option<Plan>> {
        let mut plans: Vec<Option<Plan>> = vec![None; evs.len()];
        for (inst, ..) in INSTR {
            let idx: Vec<usize> = evs.iter().enumerate().filter(|(_, e)| e["a"] == "AddClosed" && e["k"] == inst).map(|(n, _)| n).collect();
            let mut carry: Option<(Side, Decimal, Decimal)> = None; // side, qty, entry price of the open leftover
            for (j, &n) in idx.iter().enumerate() {
                let step = n as u64;
                let c = |salt, m| pick(var.salt, step, salt, m);
                let cost = scaled_dec(i(&evs[n], "y"), var.e10);
                let pnl = scaled_dec(i(&evs[n], "x"), var.e10);
                let next = idx.get(j + 1).map(|&m| (scaled_dec(i(&evs[m], "y"), var.e10), scaled_dec(i(&evs[m], "x"), var.e10)));
                let fee = if c(2, 3) == 0 { scaled_dec(1, var.e10 - 2) * Decimal::from(25) } else { Decimal::ZERO };
                let want_flip = c(5, 2) == 0;
                let mut plan = match carry.take() {
                    Some((side, qty, price)) => {
                        // opened by the previous crossing fill: no entry fee; an exit fee only if the price stays positive
                        let exact = |x: Decimal| x.checked_div(qty).is_some_and(|d| d * qty == x && d.scale() <= 14);
                        let fee_out = if realisable(side, cost, pnl + fee) && exact(fee) { fee } else { Decimal::ZERO };
                        Plan { side, qty, price, exit: Decimal::ZERO, pnl, fee_in: Decimal::ZERO, fee_out, partial: c(4, 3) == 0, opened_by_flip: true, flip_leftover: None }
                    }
                    None => {
                        let qty = [Decimal::ONE, Decimal::TWO, Decimal::new(5, 1), Decimal::from(4)][c(1, 4) as usize];
                        // exit prices must stay positive: a long cannot lose its whole cost, a short cannot gain it
                        let gross = pnl + fee + fee;
                        let (long_ok, short_ok) = (gross > -cost, gross < cost);
                        let side = if (c(3, 2) == 1 && long_ok) || !short_ok { Side::Buy } else { Side::Sell };
                        Plan { side, qty, price: cost / qty, exit: Decimal::ZERO, pnl, fee_in: fee, fee_out: fee, partial: c(4, 3) == 0, opened_by_flip: false, flip_leftover: None }
                    }
                };
                // try to close this position by a crossing fill that opens the next one
                if let (true, Some((cost2, pnl2))) = (want_flip, next) {
                    let sides: Vec<Side> = if plan.opened_by_flip { vec![plan.side] } else if c(3, 2) == 1 { vec![Side::Buy, Side::Sell] } else { vec![Side::Sell, Side::Buy] };
                    'search: for side in sides {
                        if !realisable(opposite(side), cost2, pnl2) {
                            continue;
                        }
                        // T = qty * exit price; the leftover q2 must satisfy q2 * exit = cost2 exactly
                        let candidates: Vec<(Decimal, Decimal)> = if plan.opened_by_flip {
                            let t = if side == Side::Buy { cost + pnl } else { cost - pnl };
                            vec![(t, Decimal::ZERO)]
                        } else {
                            // an entry fee F >= 0 moves T onto a multiple of cost2 with an exact quotient
                            [(1, 0), (2, 0), (5, 1), (4, 0), (25, 2), (125, 2), (8, 1), (25, 1), (4, 1)].iter().map(|(m, sc)| {
                                let t = cost2 * Decimal::new(*m, *sc);
                                (t, if side == Side::Buy { t - cost - pnl } else { cost - pnl - t })
                            }).collect()
                        };
                        for (t, f) in candidates {
                            if t <= Decimal::ZERO || f < Decimal::ZERO || f > cost + cost {
                                continue;
                            }
                            let Some(q2) = (cost2 * plan.qty).checked_div(t) else { continue };
                            let exit = t / plan.qty;
                            if q2 * exit != cost2 || q2.scale() > 12 || exit.scale() > 12 {
                                continue;
                            }
                            // the next position (quantity q2) must itself have an exact exit price
                            if !pnl2.checked_div(q2).is_some_and(|d| d * q2 == pnl2 && d.scale() <= 14) {
                                continue;
                            }
                            plan.side = side;
                            plan.fee_in = f;
                            plan.fee_out = Decimal::ZERO;
                            plan.partial = false;
                            plan.exit = exit;
                            plan.flip_leftover = Some(q2);
                            carry = Some((opposite(side), q2, exit));
                            break 'search;
                        }
                    }
                }
                if plan.flip_leftover.is_none() {
                    let gross = plan.pnl + plan.fee_in + plan.fee_out;
                    plan.exit = if plan.side == Side::Buy { plan.price + gross / plan.qty } else { plan.price - gross / plan.qty };
                }
                plans[n] = Some(plan);
            }
        }
        plans
    }

    trait Sut {
        /// `t_exit`: exit time in seconds; `spec_time`: it is the exit time the behaviour names (else the
        /// engine mode derives its fill times from `step`, as it always did)
        fn closed(&mut self, inst: usize, p: &Plan, step: u64, t_exit: i64, spec_time: bool, key_by_name: bool) -> Result<(), String>;
        /// an accepted balance snapshot (total, free) stamped `t`; `full`: the engine route delivers it inside a
        /// full AccountSnapshot instead of a BalanceSnapshot
        fn balance(&mut self, asset: usize, bal: Balance, t: i64, key_by_name: bool, full: bool) -> Result<(), String>;
        /// the running returns summaries of one instrument (PnLReturns of its tear-sheet generator)
        fn returns(&self, inst: usize) -> PnLReturns;
        /// engine route: the opening fill (and, `reduce`, the reducing fill that realises PnL) of the NEXT closed position
        /// of a flat instrument are executed now, so that the summaries generated until it is closed see an OPEN position
        fn preopen(&mut self, _inst: usize, _p: &Plan, _reduce: bool, _t: i64) -> Result<bool, String> { Ok(false) }
        /// engine route: a position outside the history - opened, increased, partly reduced at another price (PnL
        /// realised), NEVER closed: it stays open to the end of the run on an instrument that closes nothing any more
        fn extra_open(&mut self, _inst: usize, _salt: u64, _e10: i32, _t: i64) -> Result<bool, String> { Ok(false) }
        /// engine route: instruments with an open position that was (only opened or increased, partly reduced)
        fn open_positions(&self) -> (u64, u64) { (0, 0) }
        /// the time of the last point of an asset's equity curve (the clock of its drawdown generator)
        fn curve_end(&self, asset: usize) -> chrono::DateTime<chrono::Utc>;
        /// (the summary projection, the ratio figures per instrument key)
        fn generate(&mut self, q: &Query) -> Result<(Value, Value), String>;
        /// a new session of one instrument (spec action Reset): TearSheetGenerator::reset(start)
        fn reset(&mut self, inst: usize, start: i64) -> Result<(), String>;
        /// the session clock moves without an event (TradingSummaryGenerator::update_time_now)
        fn tick(&mut self, _t: i64) {}
        /// store + restore every running tear-sheet generator (spec action Persist: a stutter)
        fn persist(&mut self) -> Result<(), String>;
    }
    fn restore<T: serde::Serialize + serde::de::DeserializeOwned + PartialEq + std::fmt::Debug>(x: &mut T, what: &str) -> Result<(), String> {
        let back = super::c17::roundtrip(x).map_err(|e| format!("Persist {what}: {e}"))?;
        *x = back;
        Ok(())
    }

    fn exited<K>(instrument: K, p: &Plan, t_exit: i64) -> PositionExited<QuoteAsset, K> {
        PositionExited {
            instrument,
            side: p.side,
            price_entry_average: p.price,
            quantity_abs_max: p.qty,
            pnl_realised: p.pnl,
            fees_enter: AssetFees::quote_fees(p.fee_in),
            fees_exit: AssetFees::quote_fees(p.fee_out),
            time_enter: time(t_exit - 1),
            time_exit: time(t_exit),
            trades: vec![],
        }
    }
    fn asset_balance<K>(asset: K, balance: Balance, t: i64) -> AssetBalance<K> {
        AssetBalance { asset, balance, time_exchange: time(t) }
    }

    // ---- direct: one TearSheetGenerator per instrument, one TearSheetAssetGenerator per asset
    struct Direct {
        inst: Vec<TearSheetGenerator>,
        assets: Vec<TearSheetAssetGenerator>,
    }
    impl Sut for Direct {
        fn closed(&mut self, inst: usize, p: &Plan, _step: u64, t_exit: i64, _: bool, _: bool) -> Result<(), String> {
            let pos = exited(InstrumentIndex(inst), p, t_exit);
            catch(|| self.inst[inst].update_from_position(&pos))
        }
        fn reset(&mut self, inst: usize, start: i64) -> Result<(), String> {
            catch(|| self.inst[inst].reset(time(start)))
        }
        fn balance(&mut self, asset: usize, bal: Balance, t: i64, _: bool, _: bool) -> Result<(), String> {
            let b = asset_balance(AssetIndex(asset), bal, t);
            catch(|| self.assets[asset].update_from_balance(Snapshot(&b)))
        }
        fn returns(&self, inst: usize) -> PnLReturns {
            self.inst[inst].pnl_returns.clone()
        }
        fn curve_end(&self, asset: usize) -> chrono::DateTime<chrono::Utc> {
            self.assets[asset].drawdown.time_now
        }
        fn generate(&mut self, q: &Query) -> Result<(Value, Value), String> {
            let (mut i, mut r) = (serde_json::Map::new(), serde_json::Map::new());
            with_iv!(q.iv.as_str(), iv => with_iv!(q.iw.as_str(), iw => {
                for (n, g) in self.inst.iter_mut().enumerate() {
                    let sheet = catch(|| g.generate(q.rf, iv))?;
                    i.insert(INSTR[n].0.into(), sheet_json(&sheet));
                    if q.ratios {
                        r.insert(INSTR[n].0.into(), ratios_json(&sheet, iw));
                    }
                }
            }));
            let mut a = serde_json::Map::new();
            for (n, g) in self.assets.iter_mut().enumerate() {
                a.insert(ASSET[n].0.into(), asset_json(&catch(|| g.generate())?));
            }
            Ok((json!({"instruments": i, "assets": a}), Value::Object(r)))
        }
        fn persist(&mut self) -> Result<(), String> {
            self.inst.iter_mut().try_for_each(|g| restore(g, "TearSheetGenerator"))?;
            self.assets.iter_mut().try_for_each(|g| restore(g, "TearSheetAssetGenerator"))
        }
    }

    // ---- summary: a TradingSummaryGenerator initialised from an (empty) engine state
    struct Summary {
        g: TradingSummaryGenerator,
    }
    impl Sut for Summary {
        fn reset(&mut self, inst: usize, start: i64) -> Result<(), String> {
            let g = self.g.instruments.get_index_mut(inst).map(|(_, g)| g).ok_or("TOOL: no such instrument in the summary generator")?;
            catch(|| g.reset(time(start)))
        }
        fn closed(&mut self, inst: usize, p: &Plan, _step: u64, t_exit: i64, _: bool, by_name: bool) -> Result<(), String> {
            if by_name {
                let pos = exited(InstrumentNameInternal::new(INSTR[inst].2), p, t_exit);
                catch(|| self.g.update_from_position(&pos))
            } else {
                let pos = exited(InstrumentIndex(inst), p, t_exit);
                catch(|| self.g.update_from_position(&pos))
            }
        }
        fn tick(&mut self, t: i64) {
            self.g.update_time_now(time(t));
        }
        fn persist(&mut self) -> Result<(), String> {
            self.g.instruments.values_mut().try_for_each(|g| restore(g, "TearSheetGenerator"))?;
            self.g.assets.values_mut().try_for_each(|g| restore(g, "TearSheetAssetGenerator"))
        }
        fn balance(&mut self, asset: usize, bal: Balance, t: i64, by_name: bool, _: bool) -> Result<(), String> {
            if by_name {
                let b = asset_balance(asset_key(asset), bal, t);
                catch(|| self.g.update_from_balance(Snapshot(&b)))
            } else {
                let b = asset_balance(AssetIndex(asset), bal, t);
                catch(|| self.g.update_from_balance(Snapshot(&b)))
            }
        }
        fn returns(&self, inst: usize) -> PnLReturns {
            self.g.instruments.get_index(inst).map(|(_, g)| g.pnl_returns.clone()).unwrap_or_default()
        }
        fn curve_end(&self, asset: usize) -> chrono::DateTime<chrono::Utc> {
            self.g.assets.get_index(asset).map(|(_, g)| g.drawdown.time_now).unwrap_or_default()
        }
        fn generate(&mut self, q: &Query) -> Result<(Value, Value), String> {
            keys_agree(&self.g)?;
            // (the risk-free return of a summary generator is the public field its init() sets)
            self.g.risk_free_return = q.rf;
            with_iv!(q.iv.as_str(), iv => with_iv!(q.iw.as_str(), iw => Ok(summary_json(&catch(|| self.g.generate(iv))?, iw, q.ratios))))
        }
    }

    // ---- engine: fills and balance snapshots through Engine::process
    struct EngineSut {
        e: Eng,
        trades: u64,
        /// per instrument: fills of its next planned position already executed (0 none, 1 opened, 2 opened and reduced)
        pre: [u8; 4],
    }
    fn new_engine(start: i64, seeded: &[(usize, Balance)]) -> Eng {
        let state = engine_state(start, seeded);
        let txs = MultiExchangeTxMap::from_iter(EXCHANGES.iter().map(|e| (*e, None)));
        Engine::new(HistoricalClock::new(time(start)), state, txs, DefaultStrategy::default(), DefaultRiskManager::default())
    }
    impl EngineSut {
        fn fill(&mut self, inst: usize, side: Side, price: Decimal, qty: Decimal, fee: Decimal, t: i64) -> Result<Option<PositionExited<QuoteAsset>>, String> {
            self.trades += 1;
            let exchange = ExchangeIndex(if INSTR[inst].1 == ExchangeId::BinanceSpot { 0 } else { 1 });
            let ev = EngineEvent::Account(AccountStreamEvent::Item(AccountEvent {
                exchange,
                kind: AccountEventKind::Trade(Trade {
                    id: TradeId::new(format!("t{}", self.trades)),
                    order_id: OrderId::new(format!("o{}", self.trades)),
                    instrument: InstrumentIndex(inst),
                    strategy: StrategyId::new("vh"),
                    time_exchange: time(t),
                    side,
                    price,
                    quantity: qty,
                    fees: AssetFees::quote_fees(fee),
                }),
            }));
            let audit = catch(|| self.e.process(ev))?;
            let EngineAudit::Process(p) = audit else { return Err("Engine::process returned FeedEnded".into()) };
            if !p.errors.is_empty() {
                return Err(format!("Engine::process reported {:?}", p.errors));
            }
            Ok(p.outputs.iter().find_map(|o| match o {
                EngineOutput::PositionExit(x) => Some(x.clone()),
                _ => None,
            }))
        }
    }
    impl Sut for EngineSut {
        fn reset(&mut self, inst: usize, start: i64) -> Result<(), String> {
            catch(|| self.e.state.instruments.instrument_index_mut(&InstrumentIndex(inst)).tear_sheet.reset(time(start)))
        }
        fn closed(&mut self, inst: usize, p: &Plan, step: u64, t_exit: i64, spec_time: bool, _: bool) -> Result<(), String> {
            // fill times: t + 1 (open, reduce), t + 2 (close) as before, or all at the exit time the behaviour names
            let (t, t1, t2) = (2 * step as i64, if spec_time { t_exit } else { 2 * step as i64 + 1 }, if spec_time { t_exit } else { 2 * step as i64 + 2 });
            let _ = t;
            let exit = p.exit;
            if exit <= Decimal::ZERO {
                return Err(format!("TOOL: plan has a non-positive exit price {exit}"));
            }
            let pre = std::mem::take(&mut self.pre[inst]);
            if p.opened_by_flip || pre > 0 {
                let open = self.e.state.instruments.instrument_index(&InstrumentIndex(inst)).position.current.as_ref();
                let left = if pre == 2 { p.qty / Decimal::TWO } else { p.qty };
                if !open.is_some_and(|o| o.side == p.side && o.quantity_abs == left && o.quantity_abs_max == p.qty && o.price_entry_average == p.price) {
                    return Err(format!("TOOL: the crossing / earlier fills did not leave the planned open position (C02 domain): {open:?}"));
                }
            } else if self.fill(inst, p.side, p.price, p.qty, p.fee_in, t1)?.is_some() {
                return Err("TOOL: the opening fill closed a position".into());
            }
            let done = if let Some(q2) = p.flip_leftover {
                // crossing fill: closes the position and opens the next one on the other side
                self.fill(inst, opposite(p.side), exit, p.qty + q2, Decimal::ZERO, t2)?
            } else if p.partial {
                let half = p.qty / Decimal::TWO;
                if pre < 2 && self.fill(inst, opposite(p.side), exit, half, Decimal::ZERO, t1)?.is_some() {
                    return Err("TOOL: the reducing fill closed the position".into());
                }
                self.fill(inst, opposite(p.side), exit, half, p.fee_out, t2)?
            } else {
                self.fill(inst, opposite(p.side), exit, p.qty, p.fee_out, t2)?
            };
            // the history of this instrument must be the planned one; producing closed positions
            // from fills is C02's subject, a deviation here is not a C16 verdict
            let Some(x) = done else { return Err("TOOL: the closing fill did not close the position (C02 domain)".into()) };
            if x.pnl_realised != p.pnl || x.price_entry_average * x.quantity_abs_max != p.price * p.qty || x.instrument != InstrumentIndex(inst) || x.time_exit != time(t2) {
                return Err(format!("TOOL: engine closed {x:?}, planned pnl {} cost {} (C02 domain)", p.pnl, p.price * p.qty));
            }
            Ok(())
        }
        fn balance(&mut self, asset: usize, bal: Balance, t: i64, _: bool, full: bool) -> Result<(), String> {
            let exchange = ExchangeIndex(if ASSET[asset].1 == ExchangeId::BinanceSpot { 0 } else { 1 });
            let b = asset_balance(AssetIndex(asset), bal, t);
            // EngineState::update_from_account: a balance snapshot of its own, or a full account snapshot carrying it
            let kind = if full {
                AccountEventKind::Snapshot(barter_execution::AccountSnapshot { exchange, balances: vec![b], instruments: vec![] })
            } else {
                AccountEventKind::BalanceSnapshot(Snapshot(b))
            };
            catch(|| self.e.process(EngineEvent::Account(AccountStreamEvent::Item(AccountEvent { exchange, kind })))).map(|_| ())
        }
        fn returns(&self, inst: usize) -> PnLReturns {
            self.e.state.instruments.instrument_index(&InstrumentIndex(inst)).tear_sheet.pnl_returns.clone()
        }
        fn preopen(&mut self, inst: usize, p: &Plan, reduce: bool, t: i64) -> Result<bool, String> {
            if p.opened_by_flip || p.flip_leftover.is_some() && reduce || self.pre[inst] > 0
                || self.e.state.instruments.instrument_index(&InstrumentIndex(inst)).position.current.is_some() {
                return Ok(false);
            }
            if self.fill(inst, p.side, p.price, p.qty, p.fee_in, t)?.is_some() {
                return Err("TOOL: the opening fill closed a position".into());
            }
            self.pre[inst] = 1;
            if reduce && p.partial {
                if self.fill(inst, opposite(p.side), p.exit, p.qty / Decimal::TWO, Decimal::ZERO, t)?.is_some() {
                    return Err("TOOL: the reducing fill closed the position".into());
                }
                self.pre[inst] = 2;
            }
            Ok(true)
        }
        fn extra_open(&mut self, inst: usize, salt: u64, e10: i32, t: i64) -> Result<bool, String> {
            if self.pre[inst] > 0 || self.e.state.instruments.instrument_index(&InstrumentIndex(inst)).position.current.is_some() {
                return Ok(false);
            }
            // open 2 at 10, increase by 1 at 13, reduce by 1 (or 2) at 12 resp. 9: PnL is realised, a fee is paid, the rest stays open
            let side = if salt % 2 == 0 { Side::Buy } else { Side::Sell };
            let px = |k: i64| scaled_dec(k, e10);
            for (sd, price, qty, fee) in [(side, px(10), Decimal::TWO, px(1) / Decimal::from(4)), (side, px(13), Decimal::ONE, Decimal::ZERO),
                                         (opposite(side), if salt % 3 == 0 { px(9) } else { px(12) }, Decimal::from(1 + (salt / 2 % 2) as i64), Decimal::ZERO)] {
                if self.fill(inst, sd, price, qty, fee, t)?.is_some() {
                    return Err("TOOL: a fill of the extra position closed it".into());
                }
            }
            self.pre[inst] = 9; // (never a planned position: nothing is closed on this instrument any more)
            Ok(true)
        }
        fn open_positions(&self) -> (u64, u64) {
            self.e.state.instruments.0.values().filter_map(|st| st.position.current.as_ref())
                .fold((0, 0), |(o, r), p| if p.quantity_abs < p.quantity_abs_max { (o, r + 1) } else { (o + 1, r) })
        }
        fn curve_end(&self, asset: usize) -> chrono::DateTime<chrono::Utc> {
            self.e.state.assets.asset_index(&AssetIndex(asset)).statistics.drawdown.time_now
        }
        fn generate(&mut self, q: &Query) -> Result<(Value, Value), String> {
            let mut g = catch(|| self.e.trading_summary_generator(q.rf))?;
            keys_agree(&g)?;
            with_iv!(q.iv.as_str(), iv => with_iv!(q.iw.as_str(), iw => Ok(summary_json(&catch(|| g.generate(iv))?, iw, q.ratios))))
        }
        fn persist(&mut self) -> Result<(), String> {
            self.e.state.instruments.0.values_mut().try_for_each(|st| restore(&mut st.tear_sheet, "TearSheetGenerator"))?;
            self.e.state.assets.0.values_mut().try_for_each(|st| restore(&mut st.statistics, "TearSheetAssetGenerator"))
        }
    }

    /// An InstrumentIndex / AssetIndex and the name it stands for must resolve to the same tear sheet
    /// of the generator (index keys are resolved by map position, names by key).
    fn keys_agree(g: &TradingSummaryGenerator) -> Result<(), String> {
        use barter::statistic::summary::{AssetTearSheetManager, InstrumentTearSheetManager};
        for (n, x) in INSTR.iter().enumerate() {
            let by_index = catch(|| g.instrument(&InstrumentIndex(n)).clone())?;
            let by_name = catch(|| g.instrument(&InstrumentNameInternal::new(x.2)).clone())?;
            let at = g.instruments.get_index(n).map(|(k, _)| k.to_string());
            if by_index != by_name || at.as_deref() != Some(x.2) {
                return Err(format!("KEYS: InstrumentIndex({n}) resolves to the tear sheet at map position {n} (key {at:?}), the name {} to another one", x.2));
            }
        }
        for n in 0..ASSET.len() {
            let by_index = catch(|| g.asset(&AssetIndex(n)).clone())?;
            let by_name = catch(|| g.asset(&asset_key(n)).clone())?;
            let at = g.assets.get_index(n).map(|(k, _)| k.clone());
            if by_index != by_name || at != Some(asset_key(n)) {
                return Err(format!("KEYS: AssetIndex({n}) resolves to the tear sheet at map position {n} (key {at:?}), not to {:?}", asset_key(n)));
            }
        }
        Ok(())
    }

    fn new_sut(mode: &str, start: i64, seeded: &[(usize, Balance)]) -> Box<dyn Sut> {
        match mode {
            "direct" => Box::new(Direct {
                inst: INSTR.iter().map(|_| TearSheetGenerator::init(time(start))).collect(),
                assets: ASSET.iter().map(|_| TearSheetAssetGenerator::default()).collect(),
            }),
            "summary" => {
                let s = engine_state(start, seeded);
                Box::new(Summary { g: TradingSummaryGenerator::init(Decimal::ZERO, time(start), time(start), &s.instruments, &s.assets) })
            }
            "engine" => Box::new(EngineSut { e: new_engine(start, seeded), trades: 0, pre: [0; 4] }),
            m => usage(&format!("unknown mode {m}")),
        }
    }

    pub fn replay(args: &Args) {
        assert_world();
        let seed = args.u64("seed", 1);
        let mode = args.str("mode", "direct");
        let scenarios = read_ndjson(args.req("scenarios"));
        let mut res = Results::new(args.req("out"));
        let mut tool_errors = vec![];
        // wins, losses, break-even, balances, generate, by-name keys, flips, equal exits, late exits, clock ticks, store/restore, resets,
        // sheets with ratio figures; [13] exits delivered behind a later exit of the SAME instrument, [14] exits before the session
        // start, balance snapshots after which [15] only the free part / [16] only the total / [17] both / [18] nothing moved,
        // [19] delivered inside a full account snapshot (engine), [20] sheets for which the specification lists more than one reading
        // [21] first snapshots delivered by the state builder (EngineStateBuilder::balances), [22] later snapshots below such a seeded
        // balance before anything exceeded it, [23] / [24] summaries generated through the engine while an instrument has an open
        // position that was only opened or increased / that was partly reduced, [25] positions opened early, [26] positions never closed
        let mut arms = [0u64; 27];
        let (mut st, mut rs) = (ErrStats::default(), RatioStats::default());
        let mut ratio_cases: std::collections::BTreeMap<String, u64> = Default::default();
        for (n, scn) in scenarios.iter().enumerate() {
            let vi = vidx(scn, n);
            let var = variant_of(scn, seed, vi);
            let evs = scn["evs"].as_array().unwrap_or_else(|| usage("scenario without evs"));
            // summary / engine routes: the FIRST snapshot of about half of the assets is delivered by the builder of the engine state
            // (EngineStateBuilder::balances, stamped with the start of the session) instead of an account event
            let mut seeded_at: Vec<Option<usize>> = vec![None; ASSET.len()];
            let mut seeded: Vec<(usize, Balance)> = vec![];
            if mode != "direct" {
                for (k, e) in evs.iter().enumerate() {
                    if s(e, "a") == "AddBalance" && e["exp"]["assets"][s(e, "k")].get("free").is_some() {
                        let a = asset_no(s(e, "k"));
                        if seeded_at[a].is_none() && !evs[..k].iter().any(|x| s(x, "a") == "AddBalance" && s(x, "k") == s(e, "k")) && pick(var.salt, a as u64, 31, 2) == 0 {
                            seeded_at[a] = Some(k);
                            seeded.push((a, Balance::new(scaled_dec(i(e, "x"), var.e10), scaled_dec(i(e, "y"), var.e10))));
                        }
                    }
                }
            }
            let mut seeded_peak: Vec<Option<i64>> = vec![None; ASSET.len()];
            let mut sut = new_sut(&mode, var.start, &seeded);
            let plans = plan_scenario(evs, var);
            let mut failure = None;
            // mismatches on ratio figures do not end the run: the first of every kind is kept
            let mut ratio_fails: Vec<(String, usize, RatioFail, Value, Value)> = vec![];
            let mut pre = json!("initial");
            // absolute times (seconds after the harness epoch): the latest event, per instrument the start of
            // its session and its latest exit
            let (mut last_t, mut inst_last, mut sess_start) = (var.start, [var.start; 4], [var.start; 4]);
            // per asset: the times of the snapshots delivered (which one ends the equity curve) and the last pair
            let (mut bal_times, mut bal_last): (Vec<Vec<i64>>, Vec<Option<(i64, i64)>>) = (vec![vec![]; ASSET.len()], vec![None; ASSET.len()]);
            for (k, e) in evs.iter().enumerate() {
                res.steps += 1;
                let step = k as u64;
                let by_name = pick(var.salt, step, 9, 2) == 1;
                let base_t = var.start + 2 * step as i64 + 2;
                let spec_t = e.get("t").and_then(|t| t.as_i64());
                let mut shown = json!({"a": e["a"], "k": e["k"], "x": e["x"], "y": e["y"], "by_name": by_name});
                let applied = match s(e, "a") {
                    "AddClosed" => {
                        let (pnl, cost) = (i(e, "x"), i(e, "y"));
                        arms[if pnl > 0 { 0 } else if pnl < 0 { 1 } else { 2 }] += 1;
                        arms[5] += by_name as u64;
                        let _ = cost;
                        let p = plans[k].clone().expect("planned");
                        let inst = instr_no(s(e, "k"));
                        // exit times: the summary generator has ONE clock for all keys, so equal exit times across
                        // instruments, exits reported late (behind another key's exit or a balance update) and
                        // explicit clock updates are all legitimate
                        let mut t_exit = base_t;
                        if let Some(t) = spec_t {
                            // the behaviour names the exit time (seconds since the start of the instrument's session);
                            // instruments have their own times, so equal and late exits across keys come by themselves
                            // in ANY order: behind a later exit of the same instrument (`late`, decided by TLC), before the session start
                            t_exit = sess_start[inst] + t;
                            arms[7] += (k > 0 && t_exit == last_t) as u64;
                            arms[8] += (t_exit < last_t) as u64;
                            arms[13] += (e.get("late").and_then(|l| l.as_bool()) == Some(true)) as u64;
                            arms[14] += (t < 0) as u64;
                            if pick(var.salt, step, 11, 5) == 4 {
                                sut.tick(last_t.max(t_exit) + 1);
                                arms[9] += 1;
                            }
                        } else {
                            match pick(var.salt, step, 11, 5) {
                                2 if last_t > 0 => { t_exit = last_t.max(inst_last[inst]); arms[7] += (t_exit == last_t) as u64; }
                                3 => { t_exit = inst_last[inst] + 1; arms[8] += (t_exit < last_t) as u64; }
                                4 => { sut.tick(base_t + 1); arms[9] += 1; }
                                _ => {}
                            }
                            if mode == "engine" {
                                t_exit = base_t;
                            }
                        }
                        if mode == "engine" {
                            arms[6] += p.flip_leftover.is_some() as u64;
                        }
                        // (the latest exit of the instrument: a new session starts at or after it)
                        inst_last[inst] = inst_last[inst].max(t_exit);
                        last_t = last_t.max(t_exit);
                        shown["position"] = json!({"side": format!("{:?}", p.side), "price_entry_average": p.price.to_string(),
                            "quantity_abs_max": p.qty.to_string(), "pnl_realised": p.pnl.to_string(), "fee_in": p.fee_in.to_string(),
                            "fee_out": p.fee_out.to_string(), "exit_price": p.exit.to_string(), "partial_close": p.partial, "time_exit": t_exit,
                            "seconds_since_session_start": t_exit - sess_start[inst],
                            "opened_by_crossing_fill": p.opened_by_flip,
                            "closed_by_crossing_fill_leaving": p.flip_leftover.map(|q| q.to_string())});
                        sut.closed(inst, &p, step, t_exit, spec_t.is_some(), by_name)
                    }
                    "AddBalance" => {
                        arms[3] += 1;
                        last_t = last_t.max(base_t);
                        let asset = asset_no(s(e, "k"));
                        // total and free of the snapshot (behaviours written before balances carried a free part: half the total)
                        let with_free = e["exp"]["assets"][s(e, "k")].get("free").is_some();
                        let (total, free) = (i(e, "x"), if with_free { i(e, "y") } else { 0 });
                        let bal = Balance::new(scaled_dec(total, var.e10), if with_free { scaled_dec(free, var.e10) } else { scaled_dec(total, var.e10) / Decimal::TWO });
                        if let (true, Some((t0, f0))) = (with_free, bal_last[asset]) {
                            arms[match (t0 != total, f0 != free) { (false, true) => 15, (true, false) => 16, (true, true) => 17, (false, false) => 18 }] += 1;
                        }
                        bal_last[asset] = Some((total, free));
                        // accepted snapshots: the exchange times of an asset increase (from the start of the session on)
                        let by_builder = seeded_at[asset] == Some(k);
                        let t_bal = if by_builder { var.start } else { var.start + 2 * step as i64 + 2 };
                        bal_times[asset].push(t_bal);
                        let full = pick(var.salt, step, 23, 3) == 0;
                        arms[19] += (full && mode == "engine" && !by_builder) as u64;
                        arms[21] += by_builder as u64;
                        match seeded_peak[asset] {
                            _ if by_builder => seeded_peak[asset] = Some(total),
                            Some(peak) if total < peak => arms[22] += 1,
                            Some(peak) if total > peak => seeded_peak[asset] = None,
                            _ => {}
                        }
                        shown["balance"] = json!({"total": bal.total.to_string(), "free": bal.free.to_string(), "time_exchange": t_bal,
                            "inside_full_account_snapshot": full && mode == "engine" && !by_builder,
                            "delivered_by_the_engine_state_builder_at_session_start": by_builder});
                        // (the builder has delivered it already: this event only places it in the history)
                        if by_builder { Ok(()) } else { sut.balance(asset, bal, t_bal, by_name, full) }
                    }
                    "Generate" => {
                        arms[4] += 1;
                        sut.generate(&Query::plain()).map(|_| ())
                    }
                    "Persist" => {
                        arms[10] += 1;
                        sut.persist()
                    }
                    "Reset" => {
                        // a new session of this instrument, starting at or after its latest exit
                        arms[11] += 1;
                        let inst = instr_no(s(e, "k"));
                        let start = inst_last[inst].max(sess_start[inst]) + [0, 1, 3_600][pick(var.salt, step, 21, 3) as usize];
                        (sess_start[inst], inst_last[inst]) = (start, start);
                        shown["new_session_start"] = json!(start);
                        sut.reset(inst, start)
                    }
                    a => usage(&format!("unknown action {a}")),
                };
                // the summary a generate() returns now must be the summary of the histories
                // ... also when the running generators were stored and restored in between
                let stored = s(e, "a") != "Persist" && pick(var.salt, step, 15, 5) == 0;
                arms[10] += stored as u64;
                shown["stored_and_restored_after"] = json!(stored);
                // ... with the ratio figures for the risk-free return and the interval the behaviour names
                let ratios = e.get("ratios").filter(|r| r.is_object());
                let q = match ratios {
                    Some(r) => {
                        let (rn, rd) = rat_of(&r["rf"]).unwrap_or_else(|| usage("ratios without rf"));
                        Query { rf: Decimal::from_i128_with_scale(rn, 0) / Decimal::from_i128_with_scale(rd, 0), iv: s(r, "iv").into(), iw: s(r, "iw").into(), ratios: true }
                    }
                    None => Query::plain(),
                };
                if ratios.is_some() {
                    shown["generate"] = json!({"risk_free_return": q.rf.to_string(), "interval": q.iv, "then_scaled_to": q.iw});
                }
                // engine route: the tear sheet is a function of the CLOSED positions only - summaries are also generated while a position
                // is open: the next closed position of a flat instrument is opened (and partly reduced, realising PnL) early, and an
                // instrument that closes nothing any more may get a position that is opened, increased, partly reduced and never closed
                let applied = applied.and_then(|_| {
                    for inst in 0..INSTR.len() {
                        let c = |salt, m| pick(var.salt, 4 * step + inst as u64, salt, m);
                        match (k + 1..evs.len()).find(|n| s(&evs[*n], "a") == "AddClosed" && instr_no(s(&evs[*n], "k")) == inst) {
                            Some(n) if c(33, 3) == 0 => arms[25] += sut.preopen(inst, plans[n].as_ref().expect("planned"), c(35, 2) == 0, base_t)? as u64,
                            None if c(37, 12) == 0 => arms[26] += sut.extra_open(inst, c(39, 1 << 16), var.e10, base_t)? as u64,
                            _ => {}
                        }
                    }
                    let (opened, reduced) = sut.open_positions();
                    arms[23] += (opened > 0) as u64;
                    arms[24] += (reduced > 0) as u64;
                    Ok(())
                });
                let got = applied.and_then(|_| if stored { sut.persist() } else { Ok(()) }).and_then(|_| sut.generate(&q));
                match got {
                    Err(p) if p.starts_with("TOOL:") => {
                        tool_errors.push(format!("scenario {n} step {k}: {p}"));
                        break;
                    }
                    Err(p) => {
                        failure = Some((k, if p.starts_with("KEYS:") { format!("summary.keys: {p}") } else if p.starts_with("Persist") { format!("summary.persist: {p}") } else { format!("panic: {p}") }, shown));
                        break;
                    }
                    Ok((mut actual, actual_ratios)) => match {
                        // beside the generated summary: the running returns summaries of every instrument, and for every
                        // asset WHICH accepted snapshot is the last point of its equity curve
                        let mut rets = serde_json::Map::new();
                        for (n, (key, ..)) in INSTR.iter().enumerate() {
                            rets.insert(key.to_string(), returns_json(&sut.returns(n)));
                        }
                        actual["returns"] = Value::Object(rets);
                        for (n, (key, ..)) in ASSET.iter().enumerate() {
                            // (a snapshot delivered by the state builder is placed in the history by the behaviour's event: until then
                            //  the asset is not compared - events of different keys commute, Stats!Keyed)
                            if seeded_at[n].is_some_and(|at| at > k) {
                                actual["assets"][*key] = json!("none");
                            }
                            if actual["assets"][*key].is_object() {
                                let end = sut.curve_end(n);
                                actual["assets"][*key]["points"] = match bal_times[n].iter().position(|t| time(*t) == end) {
                                    Some(j) => json!(j + 1),
                                    None => json!(format!("the curve ends at {end}: not the time of a delivered snapshot")),
                                };
                            }
                        }
                        prune(&mut actual, &e["exp"]);
                        json_match(&complete(&e["exp"], var.e10), &actual, "summary")
                    } {
                        Ok(()) => {
                            // the variances of the returns summaries (ratio domain; the same on every reading)
                            let variances = ratios.map(|r| INSTR.iter().enumerate().try_for_each(|(n, (key, ..))| {
                                let (exp, pr) = (r["instruments"].get(*key).unwrap_or(&r["empty"]), sut.returns(n));
                                for (f, v) in [("var", pr.total.dispersion.variance), ("lossvar", pr.losses.dispersion.variance)] {
                                    if let Some((n, d)) = exp.get(f).and_then(rat_of) {
                                        close(n, d, 0, v, &format!("summary.returns.{key}.{}", if f == "var" { "variance" } else { "losses_variance" }), &mut st)?;
                                    }
                                }
                                Ok::<(), String>(())
                            }));
                            if let Some(Err(err)) = variances {
                                failure = Some((k, err, shown));
                                break;
                            }
                            if let Some(r) = ratios {
                                for (key, ..) in INSTR {
                                    // (keys the smaller model does not have: the sheet of the empty history)
                                    let exp = r["instruments"].get(key).unwrap_or(&r["empty"]);
                                    arms[12] += 1;
                                    for f in ["sharpe_ratio", "sortino_ratio", "calmar_ratio"] {
                                        *ratio_cases.entry(format!("{f}:{}:{}", exp[f][6].as_str().unwrap_or("?"), exp["scale"].as_str().unwrap_or("?"))).or_default() += 1;
                                    }
                                    // the sheet on the reading of the code; where the specification leaves the end of the period /
                                    // the curve of Calmar's drawdown open (late exits: Stats.tla, points 4 and 5) the generated
                                    // sheet may instead be, AS A WHOLE, the sheet of one of the other readings TLC lists
                                    let mut fails = check_ratios(key, exp, &actual_ratios[key], i(r, "ivlen"), i(r, "iwlen"), &mut st, &mut rs);
                                    let alts = exp.get("alt").and_then(|a| a.as_array()).map(|a| a.as_slice()).unwrap_or(&[]);
                                    arms[20] += (!alts.is_empty()) as u64;
                                    if !fails.is_empty() && !alts.is_empty() {
                                        if alts.iter().any(|alt| check_ratios(key, alt, &actual_ratios[key], i(r, "ivlen"), i(r, "iwlen"), &mut st, &mut rs).is_empty()) {
                                            rs.other_reading += 1;
                                            fails.clear();
                                        } else {
                                            for f in fails.iter_mut() {
                                                f.error.push_str(&format!(" [late exits: none of the {} readings of the period end / drawdown curve matches]", alts.len() + 1));
                                            }
                                        }
                                    }
                                    for f in fails {
                                        let sig = format!("{}|{}|{}|{}", f.field, f.case.split(':').next().unwrap_or(""), f.expk, f.gotk);
                                        if !ratio_fails.iter().any(|x| x.0 == sig) {
                                            ratio_fails.push((sig, k, f, shown.clone(), json!({"summary": pre, "ratio_figures_now": actual_ratios[key]})));
                                        }
                                    }
                                }
                            }
                            pre = actual
                        }
                        Err(err) => {
                            failure = Some((k, err, shown));
                            break;
                        }
                    },
                }
            }
            let extra = json!({"mode": mode, "variant": {"e10": var.e10, "salt": var.salt, "start": var.start}});
            let clean = failure.is_none() && ratio_fails.is_empty();
            if clean {
                res.ok(n, vi, extra.clone());
            }
            if let Some((k, err, ev)) = failure {
                res.fail(n, vi, k, err, ev, pre, extra.clone());
            }
            for (_, k, f, ev, before) in ratio_fails {
                let mut x = extra.clone();
                x["ratio"] = json!({"field": f.field, "case": f.case, "expected_kind": f.expk, "got_kind": f.gotk});
                res.fail(n, vi, k, f.error, ev, before, x);
            }
        }
        let (scn, failed, steps) = (scenarios.len(), res.failed, res.steps);
        res.out.finish();
        println!("{}", json!({"scenarios": scn, "failed": failed, "events": steps, "mode": mode, "tool_errors": tool_errors,
            "arm_hits": {"win": arms[0], "loss": arms[1], "break_even": arms[2], "balance": arms[3], "generate_event": arms[4], "keyed_by_name": arms[5],
                         "crossing_fill": arms[6], "equal_exit_time": arms[7], "late_reported_exit": arms[8], "clock_update": arms[9], "store_restore": arms[10],
                         "reset": arms[11], "sheets_with_ratio_figures": arms[12],
                         "late_exit_behind_a_later_exit_of_the_same_instrument": arms[13], "exit_before_session_start": arms[14],
                         "balance_only_free_moved": arms[15], "balance_only_total_moved": arms[16], "balance_both_moved": arms[17],
                         "balance_repeated_unchanged": arms[18], "balance_inside_full_account_snapshot": arms[19],
                         "sheets_with_more_than_one_reading": arms[20],
                         "balance_seeded_by_the_state_builder": arms[21], "balance_below_the_seeded_one_before_any_above": arms[22],
                         "generated_with_an_opened_position": arms[23], "generated_with_a_partly_reduced_open_position": arms[24],
                         "positions_opened_early": arms[25], "positions_never_closed": arms[26]},
            "ratio_figures": {"compared": rs.compared, "left_open_by_the_spec": rs.open, "sentinel_scaled_down": rs.sentinel_scaled_down,
                              "sheets_matching_another_reading_than_the_code's": rs.other_reading,
                              "rescaled_with_scale()": rs.rescaled, "max_error_over_tolerance": rs.max_err_over_tol.to_string(), "cases": ratio_cases}}));
    }
}