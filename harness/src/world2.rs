//! Instrument universe of the engine-level drivers (spec/EngineCore.tla):
//!   exchange 0 = BinanceSpot: i0 spot btc/usdt, i1 perpetual btc/usdt (same underlying as i0),
//!                             i2 spot btc/usdc (same base, other quote),
//!                             i3 spot eth/usdt (same quote, other base)
//!   exchange 1 = Kraken:      i4 spot btc/usdt
//!   exchange 2 = Okx:         i5 spot btc/usdt
//! so that exchange-, instrument- and underlying-filters all select different sets, and - with THREE
//! exchanges - a by-exchange filter can name non-adjacent exchanges ({0, 2}), an exchange "in the
//! middle" can lack its execution link, and an index that is off by one still names an exchange.
//! Asset indices: 0 btc@0, 1 eth@0, 2 usdc@0, 3 usdt@0, 4 btc@1, 5 usdt@1, 6 btc@2, 7 usdt@2 (asset
//! indices are per exchange: the underlyings of i0, i4 and i5 are three different ones).
//! `assert_layout` checks all of this.  (Okx sorts after Kraken in `ExchangeId`, "f_.." after "e_..":
//! the third exchange was appended without shifting any earlier exchange / instrument / asset index.)
use barter::engine::state::{
    EngineState, global::DefaultGlobalData, instrument::data::DefaultInstrumentMarketData,
    trading::TradingState,
};
use barter_instrument::{
    Underlying,
    asset::Asset,
    exchange::ExchangeId,
    index::IndexedInstruments,
    instrument::{
        Instrument,
        kind::{InstrumentKind, perpetual::PerpetualContract},
        quote::InstrumentQuoteAsset,
    },
};
use rust_decimal::Decimal;

pub type State = EngineState<DefaultGlobalData, DefaultInstrumentMarketData>;

pub const N_EX: usize = 3;
pub const EXCHANGES: [ExchangeId; N_EX] = [ExchangeId::BinanceSpot, ExchangeId::Kraken, ExchangeId::Okx];
pub const N_INST: usize = 6;
/// exchange index of each instrument index
pub const EX_OF: [usize; N_INST] = [0, 0, 0, 0, 1, 2];
/// first asset index of each exchange (used for balance events)
pub const FIRST_ASSET: [usize; N_EX] = [0, 4, 6];
/// an exchange index no exchange of this world has (requests naming it are unrecoverable send errors)
pub const UNKNOWN_EX: i64 = N_EX as i64;

pub fn instruments() -> IndexedInstruments {
    IndexedInstruments::builder()
        .add_instrument(Instrument::spot(ExchangeId::Okx, "f_okx_btc_usdt", "BTC-USDT", Underlying::new("btc", "usdt"), None))
        .add_instrument(Instrument::spot(ExchangeId::Kraken, "e_kraken_btc_usdt", "XBT/USDT", Underlying::new("btc", "usdt"), None))
        .add_instrument(Instrument::spot(ExchangeId::BinanceSpot, "d_binance_eth_usdt", "ETHUSDT", Underlying::new("eth", "usdt"), None))
        .add_instrument(Instrument::spot(ExchangeId::BinanceSpot, "c_binance_btc_usdc", "BTCUSDC", Underlying::new("btc", "usdc"), None))
        .add_instrument(Instrument::new(
            ExchangeId::BinanceSpot,
            "b_binance_btc_usdt_perp",
            "BTCUSDT_PERP",
            Underlying::new("btc", "usdt"),
            InstrumentQuoteAsset::UnderlyingQuote,
            InstrumentKind::Perpetual(PerpetualContract { contract_size: Decimal::ONE, settlement_asset: Asset::from("usdt") }),
            None,
        ))
        .add_instrument(Instrument::spot(ExchangeId::BinanceSpot, "a_binance_btc_usdt", "BTCUSDT", Underlying::new("btc", "usdt"), None))
        .build()
}

pub fn engine_state(trading: TradingState) -> State {
    let instruments = instruments();
    let st: State = EngineState::builder(&instruments, DefaultGlobalData::default(), DefaultInstrumentMarketData::default)
        .time_engine_start(crate::util::time(0))
        .trading_state(trading)
        .build();
    assert_layout(&st);
    st
}

pub fn assert_layout(st: &State) {
    let names: Vec<String> = st.instruments.0.keys().map(|k| k.to_string()).collect();
    assert_eq!(names, ["a_binance_btc_usdt", "b_binance_btc_usdt_perp", "c_binance_btc_usdc", "d_binance_eth_usdt", "e_kraken_btc_usdt", "f_okx_btc_usdt"], "world2 layout");
    let exchanges: Vec<ExchangeId> = st.connectivity.exchanges.keys().copied().collect();
    assert_eq!(exchanges, EXCHANGES, "world2 exchanges");
    for (i, (_, is)) in st.instruments.0.iter().enumerate() {
        assert_eq!(is.instrument.exchange.index(), EX_OF[i], "world2 exchange of instrument {i}");
    }
    assert_eq!(st.instruments.0[0].instrument.underlying, st.instruments.0[1].instrument.underlying);
    assert_eq!(st.assets.0.len(), 8);
    // btc/usdt on three exchanges: three different underlyings (asset indices are per exchange)
    assert_ne!(st.instruments.0[0].instrument.underlying, st.instruments.0[4].instrument.underlying);
    assert_ne!(st.instruments.0[0].instrument.underlying, st.instruments.0[5].instrument.underlying);
    assert_ne!(st.instruments.0[4].instrument.underlying, st.instruments.0[5].instrument.underlying);
    assert_ne!(st.instruments.0[0].instrument.underlying, st.instruments.0[2].instrument.underlying);
    assert_eq!(st.instruments.0[0].instrument.underlying.base, st.instruments.0[2].instrument.underlying.base);
    assert_eq!(st.instruments.0[0].instrument.underlying.quote, st.instruments.0[3].instrument.underlying.quote);
    for (e, first) in FIRST_ASSET.iter().enumerate() {
        assert_eq!(st.assets.0.get_index(*first).unwrap().0.exchange, EXCHANGES[e]);
    }
}
