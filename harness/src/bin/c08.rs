//! C08 — simulated-exchange ledger conformance driver (spec/MockExchange.tla).
//!
//! `c08 run    --scenarios f.ndjson --out trace.ndjson --mode direct|run`
//!     replays TLC-generated request sequences `{init:{fee,lat,bal,open}, evs:[{req:{..}}]}`
//! `c08 random --seed S --steps N --out trace.ndjson --mode direct|run`
//!     drives the exchange with a seeded random history (boundary amounts, unknown instruments,
//!     limit orders, clocks that jump back, queries in between)
//!
//! mode `direct`: `MockExchange::open_order` / `account_snapshot()` are called on the value itself;
//!     the harness plays the part of the request loop around them exactly as `MockExchange::run`
//!     does (set the exchange clock, `ack_trade` the returned fill, take the returned notifications).
//! mode `run`:    the real `MockExchange::run` task is driven by a real `MockExecution` client
//!     under tokio's paused clock; responses come back through the oneshot channels, notifications
//!     through the broadcast account stream, the ledger is observed through `fetch_balances`,
//!     `fetch_trades` and `account_snapshot`. An open-order request may be *abandoned* (`"drop":
//!     1|2`): the oneshot receiver is dropped after the request is queued and before the exchange
//!     task handles it (1: the request is built with `MockExchangeRequest::open_order` and pushed
//!     into the client's `request_tx`; 2: the future of `MockExecution::open_order` is polled once
//!     and dropped - a client-side timeout). Its answer is not observable (`out` = "lost"); its
//!     effects on ledger, fills, ids and notifications must be those of an answered request.
//!
//! One NDJSON line per request: the request, the answer, the query result and `post` = the
//! projected ledger. Amounts are integer 1/100 units, times are ms offsets from the harness epoch.
//! `Trace_MockExchange.tla` is the oracle.
use barter_execution::{
    AccountEventKind, InstrumentAccountSnapshot, UnindexedAccountEvent, UnindexedAccountSnapshot,
    balance::{AssetBalance, Balance},
    client::{
        ExecutionClient,
        mock::{MockExecution, MockExecutionClientConfig, MockExecutionConfig},
    },
    error::{ApiError, UnindexedOrderError},
    exchange::mock::{MockExchange, request::MockExchangeRequest},
    order::{
        Order, OrderKey, OrderKind, TimeInForce,
        id::{ClientOrderId, OrderId, StrategyId},
        request::{OrderRequestOpen, RequestOpen},
        state::{ActiveOrderState, Open, OrderState},
    },
    trade::Trade,
};
use barter_instrument::{
    Side, Underlying,
    asset::{QuoteAsset, name::AssetNameExchange},
    exchange::ExchangeId,
    instrument::{Instrument, name::InstrumentNameExchange},
};
use chrono::{DateTime, Utc};
use fnv::FnvHashMap;
use futures::{FutureExt, StreamExt, stream::BoxStream};
use rand::Rng;
use rust_decimal::Decimal;
use serde_json::{Value, json};
use std::sync::atomic::{AtomicI64, Ordering};
use tokio::sync::{broadcast, mpsc};
use vh::util::*;

const EXCHANGE: ExchangeId = ExchangeId::Mock;
const ASSETS: [&str; 3] = ["btc", "eth", "usdt"];
/// listed instruments (name, base, quote) - the world of spec/MockExchange.tla
const LISTED: [(&str, &str, &str); 2] = [("btc_usdt", "btc", "usdt"), ("eth_btc", "eth", "btc")];
const UNLISTED: &str = "xrp_usdt";
const CENT: i64 = 100;

// ---------------------------------------------------------------------------------------------
// projection: implementation values -> spec values (the only place where this happens)
// ---------------------------------------------------------------------------------------------
fn cent(d: Decimal) -> Value {
    dec_units(d, CENT)
}

fn idnum(s: &str) -> i64 {
    s.parse().unwrap_or(-1)
}

fn side_str(s: Side) -> &'static str {
    match s {
        Side::Buy => "buy",
        Side::Sell => "sell",
    }
}

fn bal_json<'a>(balances: impl Iterator<Item = &'a AssetBalance<AssetNameExchange>>) -> Value {
    let mut m = serde_json::Map::new();
    for b in balances {
        let k = b.asset.name().to_string();
        if m.contains_key(&k) {
            // two entries for one asset: not a value of the spec
            m.insert(format!("{k}#dup"), json!({"total": 0, "free": 0}));
        }
        m.insert(k, json!({"total": cent(b.balance.total), "free": cent(b.balance.free)}));
    }
    Value::Object(m)
}

fn no_fill() -> Value {
    json!({"id": -1, "oid": -1, "instr": "none", "side": "none", "p": 0, "q": 0, "fee": 0, "t": 0})
}

fn trade_json(t: &Trade<QuoteAsset, InstrumentNameExchange>) -> Value {
    json!({
        "id": idnum(&t.id.0), "oid": idnum(&t.order_id.0),
        "instr": t.instrument.name().as_str(), "side": side_str(t.side),
        "p": dec_json(t.price), "q": dec_json(t.quantity),
        "fee": cent(t.fees.fees), "t": untime_ms(t.time_exchange),
    })
}

fn open_order_json(o: &Order<ExchangeId, InstrumentNameExchange, Open>) -> Value {
    json!({
        "cid": o.key.cid.0.as_str(), "instr": o.key.instrument.name().as_str(), "side": side_str(o.side),
        "p": dec_json(o.price), "q": dec_json(o.quantity), "filled": dec_json(o.state.filled_quantity), "st": "open",
    })
}

fn snapshot_orders_json(s: &UnindexedAccountSnapshot) -> Value {
    let mut v: Vec<Value> = vec![];
    for i in &s.instruments {
        for o in &i.orders {
            let (st, filled) = match &o.state {
                OrderState::Active(ActiveOrderState::Open(open)) => ("open", open.filled_quantity),
                _ => ("other", Decimal::ZERO),
            };
            // an order filed under another instrument's entry is shown under the entry's name
            let instr = if o.key.instrument == i.instrument { o.key.instrument.name().to_string() } else { format!("{}@{}", o.key.instrument.name(), i.instrument.name()) };
            v.push(json!({
                "cid": o.key.cid.0.as_str(), "instr": instr, "side": side_str(o.side),
                "p": dec_json(o.price), "q": dec_json(o.quantity), "filled": dec_json(filled), "st": st,
            }));
        }
    }
    Value::Array(v)
}

fn notif_json(e: &UnindexedAccountEvent) -> Value {
    match &e.kind {
        AccountEventKind::BalanceSnapshot(b) => balance_notif(&b.0),
        AccountEventKind::Trade(t) => trade_notif(t),
        _ => json!({"k": "other", "asset": "none", "total": 0, "free": 0, "trade": no_fill()}),
    }
}
fn balance_notif(b: &AssetBalance<AssetNameExchange>) -> Value {
    json!({"k": "balance", "asset": b.asset.name().as_str(), "total": cent(b.balance.total), "free": cent(b.balance.free), "trade": no_fill()})
}
fn trade_notif(t: &Trade<QuoteAsset, InstrumentNameExchange>) -> Value {
    json!({"k": "trade", "asset": "none", "total": 0, "free": 0, "trade": trade_json(t)})
}

type Response = Order<ExchangeId, InstrumentNameExchange, Result<Open, UnindexedOrderError>>;

/// (out, why, id, filled, rt) - rt: the exchange time an accepting response carries, else -1
fn response_json(r: &Response) -> (Value, Value, Value, Value, Value) {
    match &r.state {
        Ok(open) => (json!("ok"), json!("-"), json!(idnum(&open.id.0)), dec_json(open.filled_quantity), json!(untime_ms(open.time_exchange))),
        Err(UnindexedOrderError::Rejected(api)) => {
            let why = match api {
                ApiError::OrderRejected(_) => "kind",
                ApiError::InstrumentInvalid(..) => "instr",
                ApiError::BalanceInsufficient(..) => "funds",
                _ => "other",
            };
            (json!("rej"), json!(why), json!(-1), json!(0), json!(-1))
        }
        Err(UnindexedOrderError::Connectivity(_)) => (json!("offline"), json!("-"), json!(-1), json!(0), json!(-1)),
    }
}

fn empty_res() -> Value {
    let mut m = serde_json::Map::new();
    for a in ASSETS {
        m.insert(a.to_string(), json!({"total": 0, "free": 0}));
    }
    json!({"bal": m, "open": [], "trades": []})
}

// ---------------------------------------------------------------------------------------------
// building the exchange from a spec world
// ---------------------------------------------------------------------------------------------
fn instruments() -> FnvHashMap<InstrumentNameExchange, Instrument<ExchangeId, AssetNameExchange>> {
    LISTED
        .iter()
        .map(|(name, base, quote)| {
            (
                InstrumentNameExchange::new(*name),
                Instrument::spot(EXCHANGE, format!("mock_{name}"), *name, Underlying::new(*base, *quote), None),
            )
        })
        .collect()
}

fn config_of(init: &Value) -> MockExecutionConfig {
    let balances = ASSETS
        .iter()
        .map(|a| {
            let b = &init["bal"][*a];
            AssetBalance {
                asset: AssetNameExchange::new(*a),
                balance: Balance { total: Decimal::new(i(b, "total"), 2), free: Decimal::new(i(b, "free"), 2) },
                time_exchange: time_ms(0),
            }
        })
        .collect();
    let mut by_instr: Vec<InstrumentAccountSnapshot<ExchangeId, AssetNameExchange, InstrumentNameExchange>> = vec![];
    for o in init["open"].as_array().map(|v| v.as_slice()).unwrap_or(&[]) {
        let instrument = InstrumentNameExchange::new(s(o, "instr"));
        let order = Order {
            key: OrderKey { exchange: EXCHANGE, instrument: instrument.clone(), strategy: StrategyId::new("resting"), cid: ClientOrderId::new(s(o, "cid")) },
            side: if s(o, "side") == "buy" { Side::Buy } else { Side::Sell },
            price: dec(i(o, "p")),
            quantity: dec(i(o, "q")),
            kind: OrderKind::Limit,
            time_in_force: TimeInForce::GoodUntilCancelled { post_only: false },
            state: OrderState::active(Open::new(OrderId::new(format!("x-{}", s(o, "cid"))), time_ms(0), dec(i(o, "filled")))),
        };
        match by_instr.iter_mut().find(|e| e.instrument == instrument) {
            Some(e) => e.orders.push(order),
            None => by_instr.push(InstrumentAccountSnapshot { instrument, orders: vec![order] }),
        }
    }
    MockExecutionConfig {
        mocked_exchange: EXCHANGE,
        initial_state: UnindexedAccountSnapshot { exchange: EXCHANGE, balances, instruments: by_instr },
        latency_ms: i(init, "lat") as u64,
        fees_percent: Decimal::new(i(init, "fee"), 2),
    }
}

fn request_of(r: &Value, n: u64) -> OrderRequestOpen<ExchangeId, InstrumentNameExchange> {
    OrderRequestOpen {
        key: OrderKey {
            exchange: EXCHANGE,
            instrument: InstrumentNameExchange::new(s(r, "instr")),
            strategy: StrategyId::new("vh"),
            cid: ClientOrderId::new(format!("c{n}")),
        },
        state: RequestOpen {
            side: if s(r, "side") == "buy" { Side::Buy } else { Side::Sell },
            price: dec(i(r, "p")),
            quantity: dec(i(r, "q")),
            kind: if s(r, "kind") == "market" { OrderKind::Market } else { OrderKind::Limit },
            time_in_force: if s(r, "kind") == "market" { TimeInForce::ImmediateOrCancel } else { TimeInForce::GoodUntilCancelled { post_only: false } },
        },
    }
}

// ---------------------------------------------------------------------------------------------
// the system under test, behind the two observation points the property names
// ---------------------------------------------------------------------------------------------
/// the client clock of mode `run` (the `FnTime` of `MockExecution`): a plain fn reading this cell
static CLIENT_CLOCK_MS: AtomicI64 = AtomicI64::new(0);
fn client_clock() -> DateTime<Utc> {
    time_ms(CLIENT_CLOCK_MS.load(Ordering::SeqCst))
}
type Clock = fn() -> DateTime<Utc>;

enum Sut {
    Direct {
        ex: Box<MockExchange>,
        lat: i64,
        _keep: (mpsc::UnboundedSender<MockExchangeRequest>, broadcast::Receiver<UnindexedAccountEvent>),
    },
    Run {
        client: MockExecution<Clock>,
        stream: BoxStream<'static, UnindexedAccountEvent>,
        lat: i64,
        task: tokio::task::JoinHandle<()>,
    },
}

struct Answer {
    out: Value,
    why: Value,
    id: Value,
    filled: Value,
    rt: Value,
    res: Value,
    notifs: Vec<Value>,
}

impl Answer {
    fn query(res: Value) -> Self {
        Self { out: json!("query"), why: json!("-"), id: json!(-1), filled: json!(0), rt: json!(-1), res, notifs: vec![] }
    }
    fn offline() -> Self {
        Self { out: json!("offline"), why: json!("-"), id: json!(-1), filled: json!(0), rt: json!(-1), res: empty_res(), notifs: vec![] }
    }
}

impl Sut {
    async fn new(mode: &str, init: &Value) -> Self {
        let config = config_of(init);
        let (request_tx, request_rx) = mpsc::unbounded_channel();
        let (event_tx, event_rx) = broadcast::channel(256);
        match mode {
            "direct" => Sut::Direct {
                ex: Box::new(MockExchange::new(config, request_rx, event_tx, instruments())),
                lat: i(init, "lat"),
                _keep: (request_tx, event_rx),
            },
            "run" => {
                // wired as barter/src/execution/builder.rs `add_mock` + `init_mock_exchange` do
                let clock_fn: Clock = client_clock;
                let client = <MockExecution<Clock> as ExecutionClient>::new(MockExecutionClientConfig {
                    mocked_exchange: EXCHANGE,
                    clock: clock_fn,
                    request_tx,
                    event_rx,
                });
                let stream = client.account_stream(&[], &[]).await.expect("account stream");
                let task = tokio::spawn(MockExchange::new(config, request_rx, event_tx, instruments()).run());
                Sut::Run { client, stream, lat: i(init, "lat"), task }
            }
            m => usage(&format!("unknown mode {m}")),
        }
    }

    /// Serve one request; Err = the code under test panicked / the exchange task is gone.
    async fn serve(&mut self, r: &Value, n: u64) -> Result<Answer, String> {
        let op = op_of(r);
        let t = i(r, "t");
        match self {
            Sut::Direct { ex, lat, .. } => {
                // MockExchange::run: update_time_exchange(request.time_request)
                ex.time_exchange_latest = time_ms(t + (*lat as u64 / 2) as i64);
                match op {
                    "open" => {
                        let req = request_of(r, n);
                        let (resp, notifications) = catch(|| ex.open_order(req))?;
                        let (out, why, id, filled, rt) = response_json(&resp);
                        let mut notifs = vec![];
                        if let Some(nf) = notifications {
                            // MockExchange::run: ack_trade + send_notifications
                            ex.account.ack_trade(nf.trade.clone());
                            notifs.push(balance_notif(&nf.balance.0));
                            notifs.push(trade_notif(&nf.trade));
                        }
                        Ok(Answer { out, why, id, filled, rt, res: empty_res(), notifs })
                    }
                    "snapshot" => {
                        let snap = catch(|| ex.account_snapshot())?;
                        let mut res = empty_res();
                        res["bal"] = bal_json(snap.balances.iter());
                        res["open"] = snapshot_orders_json(&snap);
                        Ok(Answer::query(res))
                    }
                    "balances" => {
                        let mut res = empty_res();
                        res["bal"] = bal_json(ex.account.balances());
                        Ok(Answer::query(res))
                    }
                    "trades" => {
                        let mut res = empty_res();
                        res["trades"] = Value::Array(ex.account.trades(time_ms(i(r, "since"))).map(trade_json).collect());
                        Ok(Answer::query(res))
                    }
                    o => usage(&format!("unknown op {o}")),
                }
            }
            Sut::Run { client, stream, lat, task } => {
                CLIENT_CLOCK_MS.store(t, Ordering::SeqCst);
                let abandon = r.get("drop").and_then(|d| d.as_i64()).unwrap_or(0);
                let mut answer = match op {
                    "open" if abandon > 0 => {
                        let req = request_of(r, n);
                        if abandon == 1 {
                            let (response_tx, response_rx) = tokio::sync::oneshot::channel();
                            drop(response_rx);
                            let _ = client.request_tx.send(MockExchangeRequest::open_order(client.time_request(), response_tx, req));
                        } else {
                            let req_ref = OrderRequestOpen {
                                key: OrderKey { exchange: req.key.exchange, instrument: &req.key.instrument, strategy: req.key.strategy.clone(), cid: req.key.cid.clone() },
                                state: req.state.clone(),
                            };
                            let mut fut = Box::pin(client.open_order(req_ref));
                            let _ = futures::poll!(fut.as_mut()); // queues the request, then waits
                            drop(fut); // the requester stops waiting before the exchange task ran
                        }
                        // nobody awaits an answer: let the exchange handle it and its latency pass
                        tokio::time::sleep(std::time::Duration::from_millis(*lat as u64 + 1)).await;
                        Answer { out: json!("lost"), why: json!("-"), id: json!(-1), filled: json!(0), rt: json!(-1), res: empty_res(), notifs: vec![] }
                    }
                    "open" => {
                        let req = request_of(r, n);
                        let req_ref = OrderRequestOpen {
                            key: OrderKey { exchange: req.key.exchange, instrument: &req.key.instrument, strategy: req.key.strategy.clone(), cid: req.key.cid.clone() },
                            state: req.state.clone(),
                        };
                        let resp = client.open_order(req_ref).await;
                        let (out, why, id, filled, rt) = response_json(&resp);
                        Answer { out, why, id, filled, rt, res: empty_res(), notifs: vec![] }
                    }
                    "snapshot" => match client.account_snapshot(&[], &[]).await {
                        Ok(snap) => {
                            let mut res = empty_res();
                            res["bal"] = bal_json(snap.balances.iter());
                            res["open"] = snapshot_orders_json(&snap);
                            Answer::query(res)
                        }
                        Err(_) => Answer::offline(),
                    },
                    "balances" => match client.fetch_balances().await {
                        Ok(b) => {
                            let mut res = empty_res();
                            res["bal"] = bal_json(b.iter());
                            Answer::query(res)
                        }
                        Err(_) => Answer::offline(),
                    },
                    "trades" => match client.fetch_trades(time_ms(i(r, "since"))).await {
                        Ok(tr) => {
                            let mut res = empty_res();
                            res["trades"] = Value::Array(tr.iter().map(trade_json).collect());
                            Answer::query(res)
                        }
                        Err(_) => Answer::offline(),
                    },
                    o => usage(&format!("unknown op {o}")),
                };
                // let everything the exchange scheduled for this request be delivered, then take
                // what arrived on the account stream (virtual time: costs nothing)
                tokio::time::sleep(std::time::Duration::from_millis(1)).await;
                while let Some(Some(ev)) = stream.next().now_or_never() {
                    answer.notifs.push(notif_json(&ev));
                }
                // the property counts notifications per order; their mutual order is left open
                answer.notifs.sort_by(|a, b| a["k"].as_str().cmp(&b["k"].as_str()));
                if answer.out == "offline" || task.is_finished() {
                    return Err("the MockExchange::run task terminated (panic in the request loop)".into());
                }
                Ok(answer)
            }
        }
    }

    /// Projected ledger (without the notification history, which the harness accumulates).
    async fn project(&mut self) -> Result<Value, String> {
        match self {
            Sut::Direct { ex, .. } => Ok(json!({
                "bal": bal_json(ex.account.balances()),
                "open": Value::Array(ex.account.orders_open().map(open_order_json).collect()),
                "trades": Value::Array(ex.account.trades(DateTime::<Utc>::MIN_UTC).map(trade_json).collect()),
            })),
            Sut::Run { client, .. } => {
                // same client clock as the request just served: the exchange clock does not move
                let off = |_| "the MockExchange::run task terminated (panic in the request loop)".to_string();
                let bal = client.fetch_balances().await.map_err(off)?;
                let snap = client.account_snapshot(&[], &[]).await.map_err(off)?;
                let trades = client.fetch_trades(DateTime::<Utc>::MIN_UTC).await.map_err(off)?;
                Ok(json!({
                    "bal": bal_json(bal.iter()),
                    "open": snapshot_orders_json(&snap),
                    "trades": Value::Array(trades.iter().map(trade_json).collect()),
                }))
            }
        }
    }
}

fn op_of(r: &Value) -> &str {
    r.get("op").or_else(|| r.get("a")).and_then(|x| x.as_str()).unwrap_or_else(|| usage("request without op"))
}

/// One exchange life: Reset line + one line per request.
struct Segment {
    sut: Sut,
    notif: Vec<Value>,
    dead: bool,
    n: u64,
}

impl Segment {
    async fn start(out: &mut Out, mode: &str, init: &Value) -> (Self, Value) {
        let mut sut = Sut::new(mode, init).await;
        let mut post = sut.project().await.unwrap_or_else(|p| json!({"panic": p}));
        if post.get("panic").is_none() {
            post["notif"] = json!([]);
        }
        out.line(&json!({
            "a": "Reset", "fee": i(init, "fee"), "lat": i(init, "lat"),
            "cfg": {"bal": init["bal"], "open": init["open"]},
            "post": post,
        }));
        (Self { sut, notif: vec![], dead: false, n: 0 }, post)
    }

    async fn step(&mut self, out: &mut Out, r: &Value) -> Value {
        self.n += 1;
        let mut line = json!({
            "a": op_of(r), "t": i(r, "t"), "side": s(r, "side"), "p": i(r, "p"), "q": i(r, "q"),
            "instr": s(r, "instr"), "kind": s(r, "kind"), "since": i(r, "since"),
            "drop": r.get("drop").and_then(|d| d.as_i64()).unwrap_or(0),
        });
        let served = if self.dead { Err("the exchange is gone after an earlier panic".to_string()) } else { self.sut.serve(r, self.n).await };
        let post = match served {
            Ok(a) => {
                line["out"] = a.out;
                line["why"] = a.why;
                line["id"] = a.id;
                line["filled"] = a.filled;
                line["rt"] = a.rt;
                line["res"] = a.res;
                self.notif.extend(a.notifs);
                match self.sut.project().await {
                    Ok(mut p) => {
                        p["notif"] = Value::Array(self.notif.clone());
                        p
                    }
                    Err(p) => {
                        self.dead = true;
                        json!({"panic": p})
                    }
                }
            }
            Err(p) => {
                self.dead = true;
                line["out"] = json!("panic");
                line["why"] = json!("-");
                line["id"] = json!(-1);
                line["filled"] = json!(0);
                line["rt"] = json!(-1);
                line["res"] = empty_res();
                json!({"panic": p})
            }
        };
        line["post"] = post.clone();
        out.line(&line);
        post
    }

    fn end(self) {
        if let Sut::Run { task, .. } = self.sut {
            task.abort();
        }
    }
}

// ---------------------------------------------------------------------------------------------
// seeded random driver
// ---------------------------------------------------------------------------------------------
fn resting(c: &str) -> Value {
    if c == "o1" {
        json!({"cid": "o1", "instr": "btc_usdt", "side": "buy", "p": 1, "q": 1, "filled": 0, "st": "open"})
    } else {
        json!({"cid": c, "instr": "eth_btc", "side": "sell", "p": 2, "q": 2, "filled": 0, "st": "open"})
    }
}

fn random_world(rng: &mut rand::rngs::StdRng) -> Value {
    let fee = [0, 0, 1, 5, 10, 25, 50, 100][rng.random_range(0..8)];
    let lat = [0, 1, 2, 3, 10, 100][rng.random_range(0..6)];
    let mut bal = serde_json::Map::new();
    for a in ASSETS {
        let v: i64 = match rng.random_range(0..10) {
            0 => 0,
            1..=3 => 100 * rng.random_range(1..=12),
            _ => 25 * rng.random_range(0..=120),
        };
        bal.insert(a.to_string(), json!({"total": v, "free": v}));
    }
    let open: Vec<Value> = ["o1", "o2"].iter().filter(|_| rng.random_bool(0.4)).map(|c| resting(c)).collect();
    json!({"fee": fee, "lat": lat, "bal": bal, "open": open})
}

fn open_req(t: i64, side: &str, p: i64, q: i64, instr: &str, kind: &str) -> Value {
    json!({"op": "open", "t": t, "side": side, "p": p, "q": q, "instr": instr, "kind": kind, "since": 0})
}
fn query_req(op: &str, t: i64, since: i64) -> Value {
    json!({"op": op, "t": t, "side": "none", "p": 0, "q": 0, "instr": "none", "kind": "none", "since": since})
}

fn random_request(rng: &mut rand::rngs::StdRng, world: &Value, post: &Value, t: i64) -> Value {
    let fee = i(world, "fee");
    let side = if rng.random_bool(0.5) { "buy" } else { "sell" };
    let (instr, base, quote) = LISTED[rng.random_range(0..LISTED.len())];
    let mut p = rng.random_range(1..=5);
    let mut q = rng.random_range(1..=4);
    match rng.random_range(0..100) {
        0..=61 => {
            // every third market order aims at the boundary: an amount the spent asset covers exactly
            // (or misses by the smallest step), for both readings of "the spent asset"
            if rng.random_range(0..3) == 0 {
                let asset = if rng.random_bool(0.7) { if side == "buy" { quote } else { base } } else { quote };
                let have = post["bal"][asset]["free"].as_i64().unwrap_or(0);
                let mut hits = vec![];
                for pp in 1..=5 {
                    for qq in 1..=4 {
                        let need = if side == "buy" { pp * qq * (100 + fee) } else { qq * (100 + fee) };
                        if need == have || need == have + (100 + fee) || need + (100 + fee) == have {
                            hits.push((pp, qq));
                        }
                    }
                }
                if !hits.is_empty() {
                    (p, q) = hits[rng.random_range(0..hits.len())];
                }
            }
            open_req(t, side, p, q, instr, "market")
        }
        62..=69 => open_req(t, side, p, q, instr, "limit"),
        70..=77 => open_req(t, side, p, q, UNLISTED, if rng.random_bool(0.8) { "market" } else { "limit" }),
        78..=84 => query_req("snapshot", t, 0),
        85..=90 => query_req("balances", t, 0),
        _ => {
            // around the time of some fill, or anywhere
            let trades = post["trades"].as_array().cloned().unwrap_or_default();
            let since = if !trades.is_empty() && rng.random_bool(0.7) {
                trades[rng.random_range(0..trades.len())]["t"].as_i64().unwrap_or(0) + rng.random_range(-1..=1)
            } else {
                rng.random_range(0..=t + 60)
            };
            query_req("trades", t, since.max(0))
        }
    }
}

#[tokio::main(flavor = "current_thread", start_paused = true)]
async fn main() {
    let args = Args::parse();
    let mode = args.str("mode", "direct");
    let mut out = Out::create(args.req("out"));
    let mut segments = 0usize;
    match args.cmd.as_str() {
        "run" => {
            // --abandon K (mode run): every K-th open-order request of the scenarios is abandoned
            let every = if mode == "run" { args.usize("abandon", 0) } else { 0 };
            let mut opens = 0usize;
            for scn in read_ndjson(args.req("scenarios")) {
                let (mut seg, _) = Segment::start(&mut out, &mode, &scn["init"]).await;
                segments += 1;
                for e in scn["evs"].as_array().expect("evs") {
                    let mut r = e.get("req").unwrap_or(e).clone();
                    if mode != "run" {
                        r["drop"] = json!(0);
                    } else if every > 0 && op_of(&r) == "open" {
                        opens += 1;
                        if opens % every == 0 {
                            r["drop"] = json!(1 + (opens / every) % 2);
                        }
                    }
                    seg.step(&mut out, &r).await;
                }
                seg.end();
            }
        }
        "random" => {
            let mut rng = rng(args.u64("seed", 1));
            let steps = args.usize("steps", 4000);
            let seglen = args.usize("seglen", 30);
            let mut done = 0;
            while done < steps {
                let world = random_world(&mut rng);
                let (mut seg, mut post) = Segment::start(&mut out, &mode, &world).await;
                segments += 1;
                let mut t: i64 = rng.random_range(0..5);
                for _ in 0..seglen {
                    // the client clock mostly advances, sometimes stands still, sometimes jumps back
                    t = match rng.random_range(0..10) {
                        0 => rng.random_range(0..=t),
                        1..=3 => t,
                        _ => t + rng.random_range(1..=4),
                    };
                    let mut r = random_request(&mut rng, &world, &post, t);
                    if mode == "run" && op_of(&r) == "open" && rng.random_range(0..8) == 0 {
                        r["drop"] = json!(rng.random_range(1..=2));
                    }
                    post = seg.step(&mut out, &r).await;
                    done += 1;
                    if post.get("panic").is_some() {
                        break;
                    }
                }
                seg.end();
            }
        }
        c => usage(&format!("unknown command {c}")),
    }
    let n = out.finish();
    println!("{}", json!({"lines": n, "segments": segments, "mode": mode}));
}
