//! C02 / C15 — position bookkeeping and unrealised-PnL conformance driver (spec/Position.tla).
//!
//! Shared by `src/bin/c02.rs` and `src/bin/c15.rs` (included with `#[path]`).
//!
//! `replay --scenarios f.ndjson --out results.ndjson --mode pm|state|instr|engine --focus c02|c15
//!         [--scale none|p6|pm6|q6|qm6|qm9|pm9]`
//!     Pattern B: replays TLC-generated behaviours (`Gen_Position.tla`) into the real code; every
//!     step carries the complete expected `Position` / `PositionExited` (exact fractions) and, for
//!     market events, the price the data state must yield. One result line per scenario.
//!       pm     `PositionManager::update_from_trade` on a stand-alone manager (fills only)
//!       state  `EngineState::update_from_account(Trade)` / `EngineState::update_from_market`
//!       instr  as `state`, market events through `InstrumentState::update_from_market` (the
//!              instrument-level routine the engine is documented to use; diagnostic)
//!       engine a real `Engine` (trading disabled, `DefaultStrategy`): `Engine::process` of
//!              `EngineEvent::Account` / `EngineEvent::Market`; the `PositionExited` is taken
//!              from the audit (`EngineOutput::PositionExit`)
//!       algo   a real `Engine` with trading ENABLED, healthy execution links and a strategy that
//!              sends one open request in EVERY step (`vh::engine_kit::Kit`): the closed-position
//!              record is what the engine EMITS - the `EngineOutput::PositionExit` entries of
//!              `ProcessAudit.outputs`, next to the `AlgoOrders` output of the same step
//!     --scale: scale-equivariant concretisation (DESIGN 5.5): prices and fees x 10^+-6 (p6/pm6)
//!     or quantities and fees x 10^+-6 (q6/qm6), x 10^-9 (qm9/pm9: nine decimal places, finer
//!     than the 8 places venues usually quote); the expectations are rescaled the same way.
//!
//! `random --seed S --steps N --out trace.ndjson --mode state|engine [--nonpos-fills 1]`
//!     Pattern A: seeded random interleavings of fills, public trades and L1 updates with stale,
//!     duplicate and reordered exchange times on two instruments; one NDJSON line per call with
//!     the projected position in integer milli-units. `Trace_Position.tla` is the oracle.
//!
//! Projection (the only place implementation state becomes spec state): `project_pos`,
//! `project_exit`, `milli_pos`, `milli_exit`.
use barter::{
    EngineEvent,
    engine::{
        Engine, EngineOutput, Processor,
        audit::EngineAudit,
        clock::HistoricalClock,
        execution_tx::MultiExchangeTxMap,
        state::{
            EngineState,
            global::DefaultGlobalData,
            instrument::data::{DefaultInstrumentMarketData, InstrumentDataState},
            position::{Position, PositionExited, PositionManager},
            trading::TradingState,
        },
    },
    execution::{AccountStreamEvent, request::ExecutionRequest},
    risk::DefaultRiskManager,
    strategy::DefaultStrategy,
};
use barter_data::{
    books::Level,
    event::{DataKind, MarketEvent},
    streams::consumer::MarketStreamEvent,
    subscription::{book::OrderBookL1, candle::Candle, liquidation::Liquidation, trade::PublicTrade},
};
use barter_execution::{
    AccountEvent, AccountEventKind,
    order::id::{OrderId, StrategyId},
    trade::{AssetFees, Trade, TradeId},
};
use barter_instrument::{
    Side, Underlying,
    asset::{Asset, QuoteAsset},
    exchange::{ExchangeId, ExchangeIndex},
    index::IndexedInstruments,
    instrument::{
        Instrument, InstrumentIndex,
        kind::{
            InstrumentKind,
            future::FutureContract,
            option::{OptionContract, OptionExercise, OptionKind},
            perpetual::PerpetualContract,
        },
        quote::InstrumentQuoteAsset,
        spec::{InstrumentSpec, InstrumentSpecNotional, InstrumentSpecPrice, InstrumentSpecQuantity, OrderQuantityUnits},
    },
};
use barter_integration::channel::{UnboundedTx, mpsc_unbounded};
use rand::Rng;
use rust_decimal::Decimal;
use serde_json::{Map, Value, json};
use std::collections::BTreeMap;
use vh::{cmp::json_match, engine_kit, util::*, world};

type Pos = Position<QuoteAsset, InstrumentIndex>;
type Exit = PositionExited<QuoteAsset, InstrumentIndex>;
type Tr = Trade<QuoteAsset, InstrumentIndex>;
type Mk = MarketEvent<InstrumentIndex, DataKind>;
type Eng = Engine<
    HistoricalClock,
    world::State,
    MultiExchangeTxMap<UnboundedTx<ExecutionRequest>>,
    DefaultStrategy<world::State>,
    DefaultRiskManager<world::State>,
>;

const N_INSTR: usize = 6;

// ---------------------------------------------------------------------------------------------
// the instrument universe of the Position drivers: every flavour of kind / InstrumentSpec.
// C02's "size = net signed filled quantity" holds whatever the instrument's kind and spec.
//   i0 binance spot    btc/usdt  spec None
//   i1 binance spot    eth/usdt  quantity in units of the base asset
//   i2 binance perp    btc/usdt  quantity in CONTRACTS, contract_size 0.01
//   i3 kraken  spot    btc/usdt  quantity in quote units
//   i4 kraken  future  eth/usdt  quantity in CONTRACTS, contract_size 10
//   i5 kraken  option  btc/usdt  quantity in CONTRACTS, contract_size 10
// ---------------------------------------------------------------------------------------------
const FLAVOURS: [&str; N_INSTR] = [
    "spot/spec-none", "spot/asset-units", "perpetual/contract-units/size-0.01",
    "spot/quote-units", "future/contract-units/size-10", "option/contract-units/size-10",
];
const EX_OF: [usize; N_INSTR] = [0, 0, 0, 1, 1, 1];

fn ispec(unit: OrderQuantityUnits<Asset>) -> Option<InstrumentSpec<Asset>> {
    Some(InstrumentSpec::new(
        InstrumentSpecPrice::new(Decimal::new(1, 8), Decimal::new(1, 8)),
        InstrumentSpecQuantity::new(unit, Decimal::new(1, 8), Decimal::new(1, 8)),
        InstrumentSpecNotional::new(Decimal::new(1, 8)),
    ))
}

fn pos_instruments() -> IndexedInstruments {
    let usdt = || Asset::from("usdt");
    let derivative = |e, name: &str, ex: &str, base: &str, kind| {
        Instrument::new(e, name.to_string(), ex.to_string(), Underlying::new(base, "usdt"), InstrumentQuoteAsset::UnderlyingQuote, kind,
                        ispec(OrderQuantityUnits::Contract))
    };
    IndexedInstruments::builder()
        .add_instrument(Instrument::spot(ExchangeId::BinanceSpot, "p0_binance_btc_usdt", "BTCUSDT", Underlying::new("btc", "usdt"), None))
        .add_instrument(Instrument::spot(ExchangeId::BinanceSpot, "p1_binance_eth_usdt", "ETHUSDT", Underlying::new("eth", "usdt"),
                                         ispec(OrderQuantityUnits::Asset(Asset::from("eth")))))
        .add_instrument(derivative(ExchangeId::BinanceSpot, "p2_binance_btc_usdt_perp", "BTCUSDT-PERP", "btc",
                                   InstrumentKind::Perpetual(PerpetualContract { contract_size: Decimal::new(1, 2), settlement_asset: usdt() })))
        .add_instrument(Instrument::spot(ExchangeId::Kraken, "p3_kraken_btc_usdt", "XBT/USDT", Underlying::new("btc", "usdt"),
                                         ispec(OrderQuantityUnits::Quote)))
        .add_instrument(derivative(ExchangeId::Kraken, "p4_kraken_eth_usdt_future", "ETHUSDT-FUT", "eth",
                                   InstrumentKind::Future(FutureContract { contract_size: Decimal::from(10), settlement_asset: usdt(), expiry: time(86_400 * 90) })))
        .add_instrument(derivative(ExchangeId::Kraken, "p5_kraken_btc_usdt_option", "BTCUSDT-C", "btc",
                                   InstrumentKind::Option(OptionContract {
                                       contract_size: Decimal::from(10), settlement_asset: usdt(), kind: OptionKind::Call,
                                       exercise: OptionExercise::European, expiry: time(86_400 * 90), strike: Decimal::from(7),
                                   })))
        .build()
}

fn pos_world(trading: TradingState) -> world::State {
    let st: world::State = EngineState::builder(&pos_instruments(), DefaultGlobalData::default(), DefaultInstrumentMarketData::default)
        .time_engine_start(time(0))
        .trading_state(trading)
        .build();
    // layout the drivers rely on
    assert_eq!(st.instruments.0.len(), N_INSTR);
    for (i, (name, inst)) in st.instruments.0.iter().enumerate() {
        assert!(name.as_ref().starts_with(&format!("p{i}_")), "instrument {i} is {name}");
        assert_eq!(inst.instrument.exchange, ExchangeIndex(EX_OF[i]), "exchange of instrument {i}");
    }
    let ids: Vec<ExchangeId> = st.connectivity.exchange_ids().copied().collect();
    assert_eq!(ids, world::EXCHANGES.to_vec());
    st
}

// ---------------------------------------------------------------------------------------------
// projection
// ---------------------------------------------------------------------------------------------
fn side_str(s: Side) -> &'static str {
    match s {
        Side::Buy => "buy",
        Side::Sell => "sell",
    }
}

fn trade_no(id: &TradeId) -> Value {
    match id.0.strip_prefix('t').and_then(|x| x.parse::<i64>().ok()) {
        Some(n) => json!(n),
        None => json!(id.0.as_str()),
    }
}

fn dstr(d: Decimal) -> Value {
    json!(d.to_string())
}

fn project_pos(p: Option<&Pos>) -> Value {
    match p {
        None => json!({"side": "none"}),
        Some(p) => json!({
            "side": side_str(p.side),
            "qty": dstr(p.quantity_abs), "qmax": dstr(p.quantity_abs_max),
            "avg": dstr(p.price_entry_average),
            "real": dstr(p.pnl_realised), "unreal": dstr(p.pnl_unrealised),
            "feeIn": dstr(p.fees_enter.fees), "feeOut": dstr(p.fees_exit.fees),
            "trades": p.trades.iter().map(trade_no).collect::<Vec<_>>(),
            "tin": untime(p.time_enter), "tupd": untime(p.time_exchange_update),
        }),
    }
}

fn project_exit(x: Option<&Exit>) -> Value {
    match x {
        None => json!({"side": "none"}),
        Some(x) => json!({
            "side": side_str(x.side),
            "avg": dstr(x.price_entry_average), "qmax": dstr(x.quantity_abs_max),
            "real": dstr(x.pnl_realised),
            "feeIn": dstr(x.fees_enter.fees), "feeOut": dstr(x.fees_exit.fees),
            "trades": x.trades.iter().map(trade_no).collect::<Vec<_>>(),
            "tin": untime(x.time_enter), "tout": untime(x.time_exit),
        }),
    }
}

/// milli-units, rounded to the nearest integer (trace validation compares within one milli-unit)
fn milli(d: Decimal) -> Value {
    let m = (d * Decimal::from(1000)).round();
    match i64::try_from(m.mantissa() / 10i128.pow(m.scale())) {
        Ok(v) if v.abs() < 2_000_000 => json!(v),
        _ => json!(d.to_string()), // not representable for TLC: screened as an anomaly
    }
}

fn milli_pos(p: Option<&Pos>) -> Value {
    match p {
        None => json!({"side": "none", "qty": 0, "qmax": 0, "avg": 0, "real": 0, "unreal": 0, "feeIn": 0,
                       "feeOut": 0, "trades": [], "tin": 0, "tupd": 0}),
        Some(p) => json!({
            "side": side_str(p.side),
            "qty": milli(p.quantity_abs), "qmax": milli(p.quantity_abs_max),
            "avg": milli(p.price_entry_average),
            "real": milli(p.pnl_realised), "unreal": milli(p.pnl_unrealised),
            "feeIn": milli(p.fees_enter.fees), "feeOut": milli(p.fees_exit.fees),
            "trades": p.trades.iter().map(trade_no).collect::<Vec<_>>(),
            "tin": untime(p.time_enter), "tupd": untime(p.time_exchange_update),
        }),
    }
}

fn milli_exit(x: Option<&Exit>) -> Value {
    match x {
        None => json!({"side": "none", "avg": 0, "qmax": 0, "real": 0, "feeIn": 0, "feeOut": 0,
                       "trades": [], "tin": 0, "tout": 0}),
        Some(x) => json!({
            "side": side_str(x.side),
            "avg": milli(x.price_entry_average), "qmax": milli(x.quantity_abs_max),
            "real": milli(x.pnl_realised),
            "feeIn": milli(x.fees_enter.fees), "feeOut": milli(x.fees_exit.fees),
            "trades": x.trades.iter().map(trade_no).collect::<Vec<_>>(),
            "tin": untime(x.time_enter), "tout": untime(x.time_exit),
        }),
    }
}

// ---------------------------------------------------------------------------------------------
// the system under test behind the entry points the properties name
// ---------------------------------------------------------------------------------------------
fn new_engine() -> Eng {
    let state = pos_world(TradingState::Disabled);
    let (tx0, _rx0) = mpsc_unbounded();
    let (tx1, _rx1) = mpsc_unbounded();
    let txs = MultiExchangeTxMap::from_iter([
        (ExchangeId::BinanceSpot, Some(tx0)),
        (ExchangeId::Kraken, Some(tx1)),
    ]);
    Engine::new(
        HistoricalClock::new(time(0)),
        state,
        txs,
        DefaultStrategy::default(),
        DefaultRiskManager::default(),
    )
}

enum Sut {
    Pm(Box<[PositionManager<InstrumentIndex>; N_INSTR]>),
    State(Box<world::State>),
    Instr(Box<world::State>),
    Engine(Box<Eng>),
    /// trading enabled + a strategy that sends an order in every step; .1 counts the steps
    Algo(Box<engine_kit::Kit>, u64),
}

/// The closed-position records an engine step EMITTED: the `PositionExit` entries of the audit's
/// outputs. `algo`: an `AlgoOrders` output is expected next to them (and nothing else).
fn emitted_exits<A: std::fmt::Debug, B: std::fmt::Debug>(
    audit: EngineAudit<EngineEvent<DataKind>, EngineOutput<A, B>>,
    algo: bool,
) -> Result<Vec<Exit>, String> {
    let EngineAudit::Process(p) = audit else { return Err("engine audit FeedEnded".into()) };
    if !p.errors.is_empty() {
        return Err(format!("engine audit carries errors: {:?}", p.errors));
    }
    let (mut exits, mut algo_outputs) = (vec![], 0);
    for o in p.outputs {
        match o {
            EngineOutput::PositionExit(x) => exits.push(x),
            EngineOutput::AlgoOrders(_) if algo => algo_outputs += 1,
            other => return Err(format!("unexpected engine output: {other:?}")),
        }
    }
    if algo && algo_outputs != 1 {
        return Err(format!("expected one AlgoOrders output in the audit of the step, found {algo_outputs}"));
    }
    Ok(exits)
}

fn at_most_one(mut exits: Vec<Exit>) -> Result<Option<Exit>, String> {
    if exits.len() > 1 {
        return Err(format!("{} position-closed records emitted for one fill", exits.len()));
    }
    Ok(exits.pop())
}

fn exchange_index_of(i: usize) -> ExchangeIndex {
    ExchangeIndex(EX_OF[i])
}
fn exchange_id_of(i: usize) -> ExchangeId {
    world::EXCHANGES[EX_OF[i]]
}

impl Sut {
    fn new(mode: &str) -> Self {
        match mode {
            "pm" => Sut::Pm(Box::new(std::array::from_fn(|_| PositionManager::default()))),
            "state" => Sut::State(Box::new(pos_world(TradingState::Disabled))),
            "instr" => Sut::Instr(Box::new(pos_world(TradingState::Disabled))),
            "engine" => Sut::Engine(Box::new(new_engine())),
            "algo" => {
                let mut kit = engine_kit::Kit::new(TradingState::Enabled);
                kit.engine.state = pos_world(TradingState::Enabled);
                Sut::Algo(Box::new(kit), 0)
            }
            m => usage(&format!("unknown mode {m}")),
        }
    }

    fn state(&self) -> Option<&world::State> {
        match self {
            Sut::Pm(_) => None,
            Sut::State(s) | Sut::Instr(s) => Some(s),
            Sut::Engine(e) => Some(&e.state),
            Sut::Algo(k, _) => Some(&k.engine.state),
        }
    }

    /// algo mode: the strategy's output for the coming step - one fresh open request on instrument i
    fn arm_strategy(&mut self, i: usize) {
        if let Sut::Algo(k, n) = self {
            *n += 1;
            let req = engine_kit::open_req(&json!({"k": "open", "ex": EX_OF[i], "inst": i, "cid": format!("a{n}"),
                                                    "side": if *n % 2 == 0 { "buy" } else { "sell" }, "qty": 1, "hasId": false}));
            let mut sc = k.script.lock();
            sc.cancels.clear();
            sc.opens = vec![req];
        }
    }

    /// algo mode: the step's order must have reached the (healthy) execution link
    fn order_sent(&mut self) -> Result<(), String> {
        if let Sut::Algo(k, _) = self {
            let sent: usize = k.links.take().iter().map(|v| v.len()).sum();
            if sent != 1 {
                return Err(format!("the strategy's order of this step was not sent ({sent} requests on the links)"));
            }
        }
        Ok(())
    }

    fn supports_market(&self) -> bool {
        !matches!(self, Sut::Pm(_))
    }

    /// one fill through the entry point of the mode; Err = the call panicked / misbehaved
    fn fill(&mut self, i: usize, tr: Tr) -> Result<Option<Exit>, String> {
        match self {
            Sut::Pm(pms) => catch(|| pms[i].update_from_trade(&tr)),
            Sut::State(s) | Sut::Instr(s) => catch(|| {
                s.update_from_account(&AccountEvent { exchange: exchange_index_of(i), kind: AccountEventKind::Trade(tr) })
            }),
            Sut::Engine(e) => {
                let ev = EngineEvent::Account(AccountStreamEvent::Item(AccountEvent {
                    exchange: exchange_index_of(i),
                    kind: AccountEventKind::Trade(tr),
                }));
                at_most_one(emitted_exits(catch(|| e.process(ev))?, false)?)
            }
            Sut::Algo(..) => {
                self.arm_strategy(i);
                let Sut::Algo(k, _) = self else { unreachable!() };
                let ev = EngineEvent::Account(AccountStreamEvent::Item(AccountEvent {
                    exchange: exchange_index_of(i),
                    kind: AccountEventKind::Trade(tr),
                }));
                let audit = catch(|| k.engine.process(ev))?;
                self.order_sent()?;
                at_most_one(emitted_exits(audit, true)?)
            }
        }
    }

    fn market(&mut self, i: usize, ev: Mk) -> Result<(), String> {
        match self {
            Sut::Pm(_) => Err("market events are not applicable to a stand-alone PositionManager".into()),
            Sut::State(s) => catch(|| s.update_from_market(&ev)),
            Sut::Instr(s) => catch(|| {
                s.connectivity.update_from_market_event(&ev.exchange);
                s.instruments.instrument_index_mut(&InstrumentIndex(i)).update_from_market(&ev)
            }),
            Sut::Engine(e) => {
                let audit = catch(|| e.process(EngineEvent::Market(MarketStreamEvent::Item(ev))))?;
                match emitted_exits(audit, false)?.len() {
                    0 => Ok(()),
                    n => Err(format!("{n} position-closed record(s) emitted for a market event")),
                }
            }
            Sut::Algo(..) => {
                self.arm_strategy(i);
                let Sut::Algo(k, _) = self else { unreachable!() };
                let audit = catch(|| k.engine.process(EngineEvent::Market(MarketStreamEvent::Item(ev))))?;
                self.order_sent()?;
                match emitted_exits(audit, true)?.len() {
                    0 => Ok(()),
                    n => Err(format!("{n} position-closed record(s) emitted for a market event")),
                }
            }
        }
    }

    /// Persist: store and restore the state that holds the positions - a serde_json round trip of
    /// every `PositionManager` (pm) / of `EngineState.instruments` (the other routes; an EngineState as
    /// a whole has non-string map keys and does not serialise to JSON).
    fn persist(&mut self) -> Result<(), String> {
        fn round_trip<T: serde::Serialize + serde::de::DeserializeOwned>(x: &T) -> Result<T, String> {
            let text = serde_json::to_string(x).map_err(|e| format!("state does not serialise: {e}"))?;
            serde_json::from_str(&text).map_err(|e| format!("stored state does not deserialise: {e}"))
        }
        match self {
            Sut::Pm(pms) => {
                for pm in pms.iter_mut() {
                    *pm = catch(|| round_trip(&*pm))??;
                }
                Ok(())
            }
            Sut::State(s) | Sut::Instr(s) => {
                s.instruments = catch(|| round_trip(&s.instruments))??;
                Ok(())
            }
            Sut::Engine(e) => {
                e.state.instruments = catch(|| round_trip(&e.state.instruments))??;
                Ok(())
            }
            Sut::Algo(k, _) => {
                k.engine.state.instruments = catch(|| round_trip(&k.engine.state.instruments))??;
                Ok(())
            }
        }
    }

    fn position(&self, i: usize) -> Option<&Pos> {
        match self {
            Sut::Pm(pms) => pms[i].current.as_ref(),
            _ => self.state().unwrap().instruments.instrument_index(&InstrumentIndex(i)).position.current.as_ref(),
        }
    }

    /// `InstrumentDataState::price()` of instrument i, read from the same state
    fn price(&self, i: usize) -> Option<Decimal> {
        self.state().and_then(|s| s.instruments.instrument_index(&InstrumentIndex(i)).data.price())
    }

    fn snapshot_all(&self) -> Vec<Value> {
        (0..N_INSTR).map(|j| project_pos(self.position(j))).collect()
    }
}

fn mk_trade(i: usize, id: i64, t: i64, side: Side, p: Decimal, q: Decimal, fee: Decimal) -> Tr {
    Trade {
        id: TradeId::new(format!("t{id}")),
        order_id: OrderId::new(format!("o{id}")),
        instrument: InstrumentIndex(i),
        strategy: StrategyId::new("vh"),
        time_exchange: time(t),
        side,
        price: p,
        quantity: q,
        fees: AssetFees::quote_fees(fee),
    }
}

/// The levels a market event carries: bid (bp, ba) and ask (ap, aa); a public trade, candle or
/// liquidation carries the price `bp`.
#[derive(Clone, Copy)]
struct Lv {
    bp: Decimal,
    ba: Decimal,
    ap: Decimal,
    aa: Decimal,
}

impl Lv {
    fn ints(bp: i64, ba: i64, ap: i64, aa: i64) -> Self {
        Self { bp: dec(bp), ba: dec(ba), ap: dec(ap), aa: dec(aa) }
    }
}

/// A market event for instrument i:
///   trade: a public trade at lv.bp (f64, as venues deliver it)
///   l1   : a two-sided top-of-book, bid (bp, ba) / ask (ap, aa) exactly as given - normal, locked
///          (bp = ap) or crossed (bp > ap), any amounts; its price is the volume-weighted mid
fn mk_market(i: usize, kind: &str, t: i64, lv: &Lv, variant: u64) -> Mk {
    let p = lv.bp;
    let data = match kind {
        "trade" => DataKind::Trade(PublicTrade {
            id: format!("m{t}"),
            price: p.to_string().parse::<f64>().unwrap(),
            amount: 1.0 + (variant % 3) as f64,
            side: if variant % 2 == 0 { Side::Buy } else { Side::Sell },
        }),
        "l1" => DataKind::OrderBookL1(OrderBookL1 {
            last_update_time: time(t),
            best_bid: Some(Level::new(lv.bp, lv.ba)),
            best_ask: Some(Level::new(lv.ap, lv.aa)),
        }),
        // kinds without a price for DefaultInstrumentMarketData: a top-of-book with one side or no side
        // (no mid price; once adopted the price falls back to the last public trade or to none) ...
        "l1bid" | "l1ask" | "l1none" => DataKind::OrderBookL1(OrderBookL1 {
            last_update_time: time(t),
            best_bid: (kind == "l1bid").then(|| Level::new(lv.bp, lv.ba)),
            best_ask: (kind == "l1ask").then(|| Level::new(lv.ap, lv.aa)),
        }),
        // ... and kinds the default data state ignores
        "candle" => {
            let c = p.to_string().parse::<f64>().unwrap();
            DataKind::Candle(Candle { close_time: time(t), open: c, high: c + 1.0, low: c - 1.0, close: c, volume: 7.0, trade_count: 3 })
        }
        "liq" => DataKind::Liquidation(Liquidation {
            side: if variant % 2 == 0 { Side::Buy } else { Side::Sell },
            price: p.to_string().parse::<f64>().unwrap(),
            quantity: 2.0,
            time: time(t),
        }),
        k => usage(&format!("unknown market kind {k}")),
    };
    MarketEvent { time_exchange: time(t), time_received: time(t), exchange: exchange_id_of(i), instrument: InstrumentIndex(i), kind: data }
}

// ---------------------------------------------------------------------------------------------
// scenario values
// ---------------------------------------------------------------------------------------------
fn int_of(v: &Value, what: &str) -> i64 {
    // event arguments are rationals [n, d] printed by TLC; the generators use integers
    match v {
        Value::Array(a) if a.len() == 2 && a[1].as_i64() == Some(1) => a[0].as_i64().unwrap(),
        Value::Number(n) => n.as_i64().unwrap(),
        _ => usage(&format!("event argument {what} is not an integer: {v}")),
    }
}

fn pow10(d: Decimal, e: i32) -> Decimal {
    if e >= 0 { d * Decimal::from(10i64.pow(e as u32)) } else { d * Decimal::new(1, (-e) as u32) }
}

/// multiply every rational `{"n","d"}` inside an expectation by 10^e (also inside anyOf)
fn scale_exp(v: &Value, e: i32) -> Value {
    if e == 0 {
        return v.clone();
    }
    match v {
        Value::Object(o) if o.len() == 2 && o.contains_key("n") && o.contains_key("d") => {
            let (n, d) = (o["n"].as_i64().unwrap(), o["d"].as_i64().unwrap());
            let f = 10i64.pow(e.unsigned_abs());
            let (n, d) = if e > 0 { (n.checked_mul(f), Some(d)) } else { (Some(n), d.checked_mul(f)) };
            match (n, d) {
                (Some(n), Some(d)) => json!({"n": n, "d": d}),
                _ => usage("scaled expectation leaves i64"),
            }
        }
        Value::Object(o) => Value::Object(o.iter().map(|(k, x)| (k.clone(), scale_exp(x, e))).collect::<Map<_, _>>()),
        Value::Array(a) => Value::Array(a.iter().map(|x| scale_exp(x, e)).collect()),
        x => x.clone(),
    }
}

/// (price exponent, quantity exponent)
fn scale_of(name: &str) -> (i32, i32) {
    match name {
        "none" => (0, 0),
        "p6" => (6, 0),
        "pm6" => (-6, 0),
        "q6" => (0, 6),
        "qm6" => (0, -6),
        "qm9" => (0, -9),
        "pm9" => (-9, 0),
        s => usage(&format!("unknown scale {s}")),
    }
}

/// rescale an expected position / exit record: avg x 10^ep, quantities x 10^eq, money x 10^(ep+eq)
fn scale_record(rec: &Value, ep: i32, eq: i32) -> Value {
    let Some(o) = rec.as_object() else { return rec.clone() };
    let mut out = Map::new();
    for (k, v) in o {
        let e = match k.as_str() {
            "avg" => ep,
            "qty" | "qmax" => eq,
            "real" | "unreal" | "feeIn" | "feeOut" => ep + eq,
            _ => 0,
        };
        out.insert(k.clone(), scale_exp(v, e));
    }
    Value::Object(out)
}

fn without(rec: &Value, key: &str) -> Value {
    let mut o = rec.as_object().cloned().unwrap_or_default();
    o.remove(key);
    Value::Object(o)
}

// ---------------------------------------------------------------------------------------------
// replay (Pattern B)
// ---------------------------------------------------------------------------------------------
struct Mismatch {
    class: &'static str, // "book" | "unreal" | "price" | "panic"
    error: String,
    got: Value,
}

#[allow(clippy::too_many_arguments)]
fn replay_step(sut: &mut Sut, i: usize, ev: &Value, k: usize, focus: &str, ep: i32, eq: i32, before: &[Value]) -> Option<Mismatch> {
    let exp = &ev["exp"];
    let exit: Option<Exit>;
    match s(ev, "a") {
        "Fill" => {
            let side = if s(ev, "side") == "buy" { Side::Buy } else { Side::Sell };
            let p = pow10(dec(int_of(&ev["p"], "p")), ep);
            let q = pow10(dec(int_of(&ev["q"], "q")), eq);
            let fee = pow10(dec(int_of(&ev["fee"], "fee")), ep + eq);
            match sut.fill(i, mk_trade(i, vh::util::i(ev, "id"), vh::util::i(ev, "t"), side, p, q, fee)) {
                Ok(x) => exit = x,
                Err(e) => return Some(Mismatch { class: "panic", error: format!("the call panicked / failed: {e}"), got: Value::Null }),
            }
        }
        "Mkt" => {
            let lv = Lv {
                bp: pow10(dec(vh::util::i(ev, "bp")), ep),
                ba: dec(vh::util::i(ev, "ba")),
                ap: pow10(dec(vh::util::i(ev, "ap")), ep),
                aa: dec(vh::util::i(ev, "aa")),
            };
            if let Err(e) = sut.market(i, mk_market(i, s(ev, "kind"), vh::util::i(ev, "t"), &lv, k as u64)) {
                return Some(Mismatch { class: "panic", error: format!("the call panicked / failed: {e}"), got: Value::Null });
            }
            exit = None;
        }
        "Persist" => {
            if let Err(e) = sut.persist() {
                return Some(Mismatch { class: "panic", error: format!("store / restore failed: {e}"), got: Value::Null });
            }
            exit = None;
        }
        a => usage(&format!("unknown scenario event {a}")),
    }
    // --- bookkeeping (C02): every field of Position but the estimate, the PositionExited, isolation
    let got_pos = project_pos(sut.position(i));
    let got_exit = project_exit(exit.as_ref());
    let exp_pos = scale_record(&exp["pos"], ep, eq);
    let exp_exit = scale_record(&exp["exit"], ep, eq);
    if let Some(p) = sut.position(i) {
        if p.instrument != InstrumentIndex(i) {
            return Some(Mismatch { class: "book", error: format!("pos.instrument: expected {i}, got {}", p.instrument), got: got_pos });
        }
    }
    if let Some(x) = &exit {
        if x.instrument != InstrumentIndex(i) {
            return Some(Mismatch { class: "book", error: format!("exit.instrument: expected {i}, got {}", x.instrument), got: got_exit });
        }
    }
    // (under C15 the bookkeeping is only the ENVIRONMENT of the estimate: what does not enter the estimate - the
    //  time stamps and the fill ids - is C02's alone and must not keep the estimate from being judged)
    let env_only = |rec: &Value| -> Value {
        if focus == "c02" { rec.clone() } else { ["tin", "tupd", "tout", "trades"].iter().fold(rec.clone(), |r, k| without(&r, k)) }
    };
    if let Err(e) = json_match(&env_only(&without(&exp_pos, "unreal")), &env_only(&without(&got_pos, "unreal")), "pos") {
        return Some(Mismatch { class: "book", error: e, got: got_pos });
    }
    if let Err(e) = json_match(&env_only(&exp_exit), &env_only(&got_exit), "exit") {
        return Some(Mismatch { class: "book", error: e, got: got_exit });
    }
    for j in 0..N_INSTR {
        if j != i && project_pos(sut.position(j)) != before[j] {
            return Some(Mismatch { class: "book", error: format!("other[{j}]: the position of another instrument changed"), got: project_pos(sut.position(j)) });
        }
    }
    if focus == "c02" {
        return None;
    }
    // --- the data-state price the expectation was computed at (environment of C15)
    if sut.supports_market() {
        let got_price = sut.price(i).map(dstr).unwrap_or(json!("none"));
        if let Err(e) = json_match(&scale_exp(&exp["price"], ep), &got_price, "price") {
            return Some(Mismatch { class: "price", error: e, got: got_price });
        }
    }
    // --- the estimate (C15)
    if let (Some(e), Some(g)) = (exp_pos.get("unreal"), got_pos.get("unreal")) {
        if let Err(e) = json_match(e, g, "pos.unreal") {
            return Some(Mismatch { class: "unreal", error: e, got: got_pos });
        }
    }
    None
}

fn cmd_replay(a: &Args) {
    let scns = read_ndjson(a.req("scenarios"));
    let mode = a.str("mode", "pm");
    let focus = a.str("focus", "c02");
    let scale = a.str("scale", "none");
    let (ep, eq) = scale_of(&scale);
    let mut out = Out::create(a.req("out"));
    let (mut ok, mut steps) = (0usize, 0usize);
    let mut arms: BTreeMap<String, u64> = BTreeMap::new();
    let mut classes: BTreeMap<String, u64> = BTreeMap::new();
    let mut flavours: BTreeMap<String, u64> = BTreeMap::new();
    for (n, scn) in scns.iter().enumerate() {
        let i = a.get("instrument").map(|x| x.parse().unwrap()).unwrap_or(n % N_INSTR);
        *flavours.entry(FLAVOURS[i].to_string()).or_default() += 1;
        let mut sut = Sut::new(&mode);
        let evs = scn["evs"].as_array().unwrap_or_else(|| usage("scenario without evs"));
        let mut res = json!({"scn": n, "ok": true, "steps": evs.len(), "instrument": i});
        // C15: an estimate mismatch does not end the scenario (the expectations do not depend on
        // the implementation); every further one is listed in `more`. A mismatch on a `Stale`
        // step while the estimate is already out of step is its consequence (`cascade`).
        let mut more: Vec<Value> = vec![];
        let mut in_sync = true;
        for (k, ev) in evs.iter().enumerate() {
            let before = sut.snapshot_all();
            let prev_price = sut.price(i).map(dstr).unwrap_or(json!("none"));
            steps += 1;
            *arms.entry(format!("{}/{}", s(ev, "a"), s(ev, "arm"))).or_default() += 1;
            match replay_step(&mut sut, i, ev, k, &focus, ep, eq, &before) {
                None => in_sync = true,
                Some(m) => {
                    *classes.entry(m.class.to_string()).or_default() += 1;
                    // ... so is an unchanged estimate on a market event that must leave it unchanged
                    let unchanged = m.got.get("unreal").is_some() && m.got.get("unreal") == before[i].get("unreal");
                    let cascade = m.class == "unreal" && !in_sync
                        && (s(ev, "arm") == "Stale" || (unchanged && (s(ev, "arm") == "NoMark" || s(ev, "a") == "Persist")));
                    let rec = json!({"scn": n, "ok": false, "step": k, "class": m.class, "error": m.error, "cascade": cascade,
                                     "event": ev, "pre": before[i], "pre_price": prev_price, "got": m.got, "instrument": i,
                                     "got_price": sut.price(i).map(dstr).unwrap_or(json!("none"))});
                    if res["ok"] == json!(true) {
                        res = rec;
                    } else {
                        more.push(rec);
                    }
                    // a data-state price other than the one DefaultInstrumentMarketData must yield does not
                    // end the scenario either: with a position open it means the position is marked at an
                    // older price (C15), and the later steps show whether that persists
                    if m.class != "unreal" && m.class != "price" {
                        break;
                    }
                    in_sync = false;
                }
            }
        }
        if !more.is_empty() {
            res["more"] = Value::Array(more);
        }
        if res["ok"] == json!(true) {
            ok += 1;
        }
        out.line(&res);
    }
    out.finish();
    println!("{}", json!({"mode": mode, "focus": focus, "scale": scale, "scenarios": scns.len(), "ok": ok,
                          "failed": scns.len() - ok, "steps": steps, "arms": arms, "mismatch_classes": classes,
                          "instrument_flavours": if mode == "pm" { json!({"stand-alone PositionManager": scns.len()}) } else { json!(flavours) }}));
}

// ---------------------------------------------------------------------------------------------
// random driver (Pattern A): milli-unit trace for Trace_Position.tla
// ---------------------------------------------------------------------------------------------
#[allow(clippy::too_many_arguments)]
fn trace_line(a: &str, i: usize, side: &str, p: Value, q: i64, fee: i64, id: i64, t: i64, newer: bool, kind: &str,
              lv: [i64; 4], post: Value, exit: Value) -> Value {
    // p: fill price, or the data-state price read after a market event; lv: the levels the market event
    // carried [bid price, bid amount, ask price, ask amount] (whole units; a trade's price is lv[0])
    json!({"a": a, "i": i, "side": side, "p": p, "q": q, "fee": fee, "id": id, "t": t, "newer": newer, "kind": kind,
           "mp": lv[0] * 1000, "lv": lv, "post": post, "exit": exit})
}

/// The recorder shared by `random` and `retrace`: applies one call and writes its line(s).
struct Recorder {
    sut: Sut,
    tfill: [i64; N_INSTR],
    calls: u64,
}

impl Recorder {
    fn new(mode: &str, instrs: &[usize], out: &mut Out) -> Self {
        for &i in instrs {
            out.line(&trace_line("Reset", i, "", json!(0), 0, 0, 0, 0, false, "", [0; 4], milli_pos(None), milli_exit(None)));
        }
        Self { sut: Sut::new(mode), tfill: [0; N_INSTR], calls: 0 }
    }

    fn before(&self) -> Vec<Value> {
        (0..N_INSTR).map(|j| milli_pos(self.sut.position(j))).collect()
    }

    fn isolation(&self, i: usize, t: i64, before: &[Value], out: &mut Out) {
        // a call about instrument i changes no other instrument's position
        for j in 0..N_INSTR {
            if j != i && milli_pos(self.sut.position(j)) != before[j] {
                out.line(&trace_line("Foreign", j, "", json!(0), 0, 0, 0, t, false, "", [0; 4], milli_pos(self.sut.position(j)), milli_exit(None)));
            }
        }
    }

    #[allow(clippy::too_many_arguments)]
    fn fill(&mut self, i: usize, id: i64, t: i64, side: Side, p: i64, q: i64, fee: i64, out: &mut Out) {
        let before = self.before();
        self.tfill[i] = t;
        self.calls += 1;
        let r = self.sut.fill(i, mk_trade(i, id, t, side, dec(p), dec(q), dec(fee)));
        let (post, exit) = match r {
            Ok(x) => (milli_pos(self.sut.position(i)), milli_exit(x.as_ref())),
            Err(e) => (json!({"panic": e}), milli_exit(None)),
        };
        out.line(&trace_line("Fill", i, side_str(side), json!(p * 1000), q * 1000, fee * 1000, id, t, false, "", [0; 4], post, exit));
        self.isolation(i, t, &before, out);
    }

    /// store and restore the whole state: one `Persist` line per traced instrument
    fn persist(&mut self, instrs: &[usize], t: i64, out: &mut Out) {
        self.calls += 1;
        let r = self.sut.persist();
        for &i in instrs {
            let post = match &r {
                Ok(()) => milli_pos(self.sut.position(i)),
                Err(e) => json!({"panic": e}),
            };
            out.line(&trace_line("Persist", i, "", json!(0), 0, 0, 0, t, false, "", [0; 4], post, milli_exit(None)));
        }
    }

    /// returns the kind of line written ("Mark" | "Quiet")
    fn market(&mut self, i: usize, kind: &str, t: i64, lv: [i64; 4], variant: u64, out: &mut Out) -> &'static str {
        let before = self.before();
        self.calls += 1;
        let r = self.sut.market(i, mk_market(i, kind, t, &Lv::ints(lv[0], lv[1], lv[2], lv[3]), variant));
        let price = self.sut.price(i);
        let open = self.sut.position(i).is_some();
        let (act, pj) = match price {
            Some(pr) if open => ("Mark", milli(pr)),
            _ => ("Quiet", json!(0)),
        };
        let post = match r {
            Ok(()) => milli_pos(self.sut.position(i)),
            Err(e) => json!({"panic": e}),
        };
        out.line(&trace_line(act, i, "", pj, 0, 0, 0, t, t > self.tfill[i], kind, lv, post, milli_exit(None)));
        self.isolation(i, t, &before, out);
        act
    }
}

fn cmd_random(a: &Args) {
    let seed = a.u64("seed", 1);
    let steps = a.usize("steps", 2000);
    let mode = a.str("mode", "engine");
    // C15 only: fills at zero / negative prices too (C02 quantifies over price > 0)
    let nonpos_fills = a.u64("nonpos-fills", 0) == 1;
    let mut rng = rng(seed ^ 0xC02C15);
    let mut out = Out::create(a.req("out"));
    // one instrument per exchange, both traded in contracts (perpetual 0.01, future 10); the other
    // flavours are driven by the replayed TLC behaviours
    let instrs = [2usize, 4usize];
    let mut arms: BTreeMap<String, u64> = BTreeMap::new();
    let mut done = 0usize;
    let mut segments = 0usize;
    while done < steps {
        // ---- new segment: fresh system; at most 4 fills per instrument (TLC's 32-bit integers)
        let mut rec = Recorder::new(&mode, &instrs, &mut out);
        segments += 1;
        let mut now = 0i64;
        let mut nfill = [0i64; N_INSTR];
        let mut next_id = 1i64;
        let len = rng.random_range(6..=16);
        for k in 0..len {
            let i = instrs[rng.random_range(0..instrs.len())];
            let t = match rng.random_range(0..5) {
                0 | 1 => now + 1,
                2 if rec.tfill[i] > 0 => rec.tfill[i],
                _ => rng.random_range(1..=now + 1),
            };
            now = now.max(t);
            if rng.random_range(0..8) == 0 {
                // a session restart / snapshot hand-over in the middle of the history
                rec.persist(&instrs, now, &mut out);
                *arms.entry("Persist".into()).or_default() += 1;
            } else if rng.random_range(0..5) < 2 && nfill[i] < 4 {
                let side = if rng.random_bool(0.5) { Side::Buy } else { Side::Sell };
                let (mut p, q, fee) = (rng.random_range(1..=20i64), rng.random_range(1..=4i64), rng.random_range(-2..=2i64)); // fees: rebates too
                {
                    // a fill at a zero / negative price only where it increases or reduces the open position;
                    // never let the average entry price become exactly 0 (see Gen_Position.tla, SafePrice)
                    let cur = rec.sut.position(i);
                    let increase = cur.is_some_and(|c| c.side == side);
                    let reduce = cur.is_some_and(|c| c.side != side && c.quantity_abs > dec(q));
                    let avg_zero = |x: i64| {
                        increase && cur.is_some_and(|c| (c.price_entry_average * c.quantity_abs + dec(x) * dec(q)).is_zero())
                    };
                    if nonpos_fills && (increase || reduce) && rng.random_range(0..4) == 0 {
                        let np = rng.random_range(-5..=0i64);
                        if !avg_zero(np) {
                            p = np;
                        }
                    }
                    while avg_zero(p) {
                        p += 1;
                    }
                }
                nfill[i] += 1;
                rec.fill(i, next_id, t, side, p, q, fee, &mut out);
                next_id += 1;
                *arms.entry("Fill".into()).or_default() += 1;
            } else {
                // public trades and L1 updates, and events after which the data state may have NO price:
                // one-sided / empty top-of-book, candles, liquidations - also before any priced event
                let kind = ["trade", "trade", "trade", "l1", "l1", "l1", "l1bid", "l1ask", "l1none", "candle", "liq"]
                    [rng.random_range(0..11)];
                let newer = t > rec.tfill[i];
                // market prices include zero and negative ones ("any market event that yields a price")
                let price = |rng: &mut rand::rngs::StdRng| {
                    if rng.random_range(0..4) == 0 { rng.random_range(-5..=0i64) } else { rng.random_range(1..=20i64) }
                };
                // two-sided books of every shape: normal, locked (every 5th) and crossed; unequal amounts whose
                // sum keeps the volume-weighted mid exact in milli-units (2, 4, 5, 8, 10)
                let (bp, mut ap) = (price(&mut rng), price(&mut rng));
                if rng.random_range(0..5) == 0 {
                    ap = bp;
                }
                let (ba, aa) = [(1, 1), (1, 3), (3, 1), (1, 4), (4, 1), (2, 3), (3, 2), (3, 5), (5, 3), (1, 9), (7, 3)][rng.random_range(0..11)];
                let act = rec.market(i, kind, t, [bp, ba, ap, aa], k as u64 + seed, &mut out);
                *arms.entry(format!("{act}/{kind}/{}", if newer { "newer" } else { "stale" })).or_default() += 1;
            }
            done += 1;
        }
    }
    let lines = out.finish();
    println!("{}", json!({"mode": mode, "seed": seed, "lines": lines, "events": done, "segments": segments, "arms": arms}));
}

/// `retrace --in segment.ndjson --out trace.ndjson --mode M`: re-executes the calls of a recorded
/// segment (the replay file of a rejected trace line) and records them again.
fn cmd_retrace(a: &Args) {
    let lines = read_ndjson(a.req("in"));
    let mode = a.str("mode", "engine");
    let mut out = Out::create(a.req("out"));
    let mut instrs: Vec<usize> = lines.iter().map(|l| i(l, "i") as usize).collect();
    instrs.sort();
    instrs.dedup();
    let mut rec = Recorder::new(&mode, &instrs, &mut out);
    for (k, l) in lines.iter().enumerate() {
        let inst = i(l, "i") as usize;
        match s(l, "a") {
            "Fill" => {
                let side = if s(l, "side") == "buy" { Side::Buy } else { Side::Sell };
                rec.fill(inst, i(l, "id"), i(l, "t"), side, i(l, "p") / 1000, i(l, "q") / 1000, i(l, "fee") / 1000, &mut out);
            }
            "Mark" | "Quiet" => {
                let lv: Vec<i64> = l["lv"].as_array().map(|a| a.iter().map(|x| x.as_i64().unwrap_or(0)).collect()).unwrap_or_default();
                let lv = if lv.len() == 4 { [lv[0], lv[1], lv[2], lv[3]] } else { [i(l, "mp") / 1000, 1, i(l, "mp") / 1000, 1] };
                rec.market(inst, s(l, "kind"), i(l, "t"), lv, k as u64, &mut out);
            }
            // one store / restore produced a Persist line per traced instrument: redo it once
            "Persist" if k == 0 || s(&lines[k - 1], "a") != "Persist" => rec.persist(&instrs, i(l, "t"), &mut out),
            _ => {} // Reset / Foreign lines are produced, not consumed
        }
    }
    let n = out.finish();
    println!("{}", json!({"mode": mode, "lines": n, "calls": rec.calls}));
}

pub fn main() {
    let a = Args::parse();
    match a.cmd.as_str() {
        "replay" => cmd_replay(&a),
        "random" => cmd_random(&a),
        "retrace" => cmd_retrace(&a),
        c => usage(&format!("unknown command {c}")),
    }
}
