//! Shared driver of the `Indexing` area (spec/Indexing.tla): C11 (index construction) and C04
//! (index <-> exchange-name translation).  Included by `bin/c11.rs` and `bin/c04.rs` through
//! `#[path]`, each of which fixes the FOCUS - the set of comparisons that decide its verdict
//! (DESIGN 5.4, attribution):
//!
//!   C11  judges the tables of `IndexedInstruments` and everything built positionally from them;
//!        it never calls the index->name look-ups of `ExecutionInstrumentMap`.
//!   C04  takes the global tables *as the implementation built them* (entity -> actual index is
//!        read off the actual tables) and judges only the per-exchange translation.
//!
//! `<bin> replay --scenarios f.ndjson --out results.ndjson`
//!     Pattern B: every TLC-generated collection (spec/Gen_Indexing.tla) carries the expected
//!     tables / maps; the collection is rebuilt with the real builder in the same insertion order
//!     and compared.  One result line per scenario, summary JSON on stdout.
//! `<bin> trace --seed S --n N --out trace.ndjson [--collections f.ndjson]`
//!     impl -> spec: seeded random collections over a wider universe (or the given ones) are
//!     built with the real code; the projected tables, derived tables, complete look-up tables,
//!     the requests a stub client receives behind a real `ExecutionManager::run` and the indexed
//!     account events are logged, one line per collection, for spec/Trace_Indexing.tla.
#![allow(dead_code)]
use barter::{
    engine::{
        clock::LiveClock,
        execution_tx::ExecutionTxMap,
        state::{
            EngineState, connectivity::generate_empty_indexed_connectivity_states,
            global::DefaultGlobalData,
        },
    },
    execution::{
        AccountStreamEvent, builder::ExecutionBuilder, manager::ExecutionManager,
        request::ExecutionRequest,
    },
};
use barter_data::streams::reconnect::Event as ReconnectEvent;
use barter_execution::{
    AccountEvent, AccountEventKind, AccountSnapshot, InstrumentAccountSnapshot, UnindexedAccountEvent,
    UnindexedAccountSnapshot,
    balance::{AssetBalance, Balance},
    client::{ExecutionClient, mock::MockExecutionConfig},
    error::{ApiError, OrderError, UnindexedClientError, UnindexedOrderError},
    indexer::AccountEventIndexer,
    map::{ExecutionInstrumentMap, generate_execution_instrument_map},
    order::{
        Order, OrderKey, OrderKind, TimeInForce,
        id::{ClientOrderId, OrderId, StrategyId},
        request::{
            OrderRequestCancel, OrderRequestOpen, OrderResponseCancel, RequestCancel, RequestOpen,
            UnindexedOrderResponseCancel,
        },
        state::{Cancelled, Open, OrderState},
    },
    trade::{AssetFees, Trade, TradeId},
};
use barter_instrument::{
    Keyed, Side, Underlying,
    asset::{
        Asset, AssetIndex, ExchangeAsset, QuoteAsset,
        name::{AssetNameExchange, AssetNameInternal},
    },
    exchange::{ExchangeId, ExchangeIndex},
    index::IndexedInstruments,
    instrument::{
        Instrument, InstrumentIndex,
        kind::{
            InstrumentKind,
            future::FutureContract,
            option::{OptionContract, OptionExercise, OptionKind},
            perpetual::PerpetualContract,
        },
        name::{InstrumentNameExchange, InstrumentNameInternal},
        quote::InstrumentQuoteAsset,
        spec::{
            InstrumentSpec, InstrumentSpecNotional, InstrumentSpecPrice, InstrumentSpecQuantity,
            OrderQuantityUnits,
        },
    },
};
use barter_integration::{channel::mpsc_unbounded, snapshot::Snapshot};
use chrono::{DateTime, Utc};
use rand::{Rng, seq::SliceRandom};
use serde_json::{Value, json};
use std::{
    collections::{BTreeMap, HashMap},
    sync::{Arc, Mutex, atomic::{AtomicBool, Ordering}},
    time::Duration,
};
use vh::{cmp::json_match, util::*};

// ------------------------------------------------------------------------------------------------
// Concretisation (order preserving): spec integers -> barter names, and back (0 = not a spec value)
// ------------------------------------------------------------------------------------------------
/// exchanges 1..4 in the declaration order of `ExchangeId` (Mock is declared before BinanceSpot
/// although "binance_spot" < "mock" as strings)
pub const ALL_EX: [ExchangeId; 4] = [ExchangeId::Mock, ExchangeId::BinanceSpot, ExchangeId::Kraken, ExchangeId::Okx];
/// an exchange no collection ever contains
pub const ALIEN_EX: ExchangeId = ExchangeId::Poloniex;
const ASSET_INT: [&str; 5] = ["btc", "eth", "sol", "usdc", "usdt"];
/// (mixed case on purpose - Bitfinex lists both `USt` and `UST` - so that every name has distinct
/// upper- and lower-case variants; still in ascending order as strings)
const ASSET_EXC: [&str; 6] = ["BTC", "ETH", "SOL", "USDC", "USDt", "XBT"];
/// instrument names: internal `ins01..`, exchange `Sym01..`
pub const INS_MAX: i64 = 12;

fn ex_of(r: i64) -> ExchangeId {
    *ALL_EX.get((r - 1) as usize).unwrap_or_else(|| usage(&format!("exchange rank {r} out of range")))
}
fn ex_rank(e: ExchangeId) -> i64 {
    ALL_EX.iter().position(|x| *x == e).map(|p| p as i64 + 1).unwrap_or(0)
}
fn asset_int(a: i64) -> AssetNameInternal {
    AssetNameInternal::new(*ASSET_INT.get((a - 1) as usize).unwrap_or_else(|| usage("asset rank out of range")))
}
fn asset_int_rank(n: &AssetNameInternal) -> i64 {
    ASSET_INT.iter().position(|x| *x == n.name().as_str()).map(|p| p as i64 + 1).unwrap_or(0)
}
fn asset_exc(l: i64) -> AssetNameExchange {
    AssetNameExchange::new(*ASSET_EXC.get((l - 1) as usize).unwrap_or_else(|| usage("asset label out of range")))
}
fn asset_exc_rank(n: &AssetNameExchange) -> i64 {
    ASSET_EXC.iter().position(|x| *x == n.name().as_str()).map(|p| p as i64 + 1).unwrap_or(0)
}
fn ins_int(n: i64) -> InstrumentNameInternal {
    InstrumentNameInternal::new(format!("ins{n:02}"))
}
fn ins_int_rank(n: &InstrumentNameInternal) -> i64 {
    n.name().strip_prefix("ins").and_then(|s| s.parse().ok()).unwrap_or(0)
}
fn ins_exc(n: i64) -> InstrumentNameExchange {
    InstrumentNameExchange::new(format!("Sym{n:02}"))
}
fn ins_exc_rank(n: &InstrumentNameExchange) -> i64 {
    n.name().strip_prefix("Sym").and_then(|s| s.parse().ok()).unwrap_or(0)
}

fn asset_of(v: &Value) -> Option<Asset> {
    let a = i(v, "a");
    (a != 0).then(|| Asset { name_internal: asset_int(a), name_exchange: asset_exc(i(v, "nx")) })
}

/// One definition of the spec -> `Instrument<ExchangeId, Asset>`
fn instrument_of(d: &Value) -> Instrument<ExchangeId, Asset> {
    let settlement = || asset_of(&d["settle"]).unwrap_or_else(|| usage("contract without settlement asset"));
    let kind = match s(d, "kind") {
        "spot" => InstrumentKind::Spot,
        "perp" => InstrumentKind::Perpetual(PerpetualContract { contract_size: dec(1), settlement_asset: settlement() }),
        "future" => InstrumentKind::Future(FutureContract { contract_size: dec(1), settlement_asset: settlement(), expiry: time(1000) }),
        "option" => InstrumentKind::Option(OptionContract {
            contract_size: dec(1),
            settlement_asset: settlement(),
            kind: OptionKind::Call,
            exercise: OptionExercise::European,
            expiry: time(1000),
            strike: dec(100),
        }),
        k => usage(&format!("unknown kind {k}")),
    };
    let spec = asset_of(&d["unit"]).map(|unit| InstrumentSpec {
        price: InstrumentSpecPrice { min: dec(1), tick_size: dec(1) },
        quantity: InstrumentSpecQuantity { unit: OrderQuantityUnits::Asset(unit), min: dec(1), increment: dec(1) },
        notional: InstrumentSpecNotional { min: dec(1) },
    });
    Instrument {
        exchange: ex_of(i(d, "ex")),
        name_internal: ins_int(i(d, "ni")),
        name_exchange: ins_exc(i(d, "nx")),
        underlying: Underlying {
            base: asset_of(&d["base"]).unwrap_or_else(|| usage("no base")),
            quote: asset_of(&d["quote"]).unwrap_or_else(|| usage("no quote")),
        },
        quote: InstrumentQuoteAsset::UnderlyingQuote,
        kind,
        spec,
    }
}

fn defs_of(scn: &Value) -> &Vec<Value> {
    scn["defs"].as_array().unwrap_or_else(|| usage("scenario without defs"))
}

/// The real builder, fed in the scenario's insertion order.
fn build(defs: &[Value]) -> Result<IndexedInstruments, String> {
    let instruments: Vec<_> = defs.iter().map(instrument_of).collect();
    catch(move || {
        instruments
            .into_iter()
            .fold(IndexedInstruments::builder(), |b, ins| b.add_instrument(ins))
            .build()
    })
}

// ------------------------------------------------------------------------------------------------
// error collection
// ------------------------------------------------------------------------------------------------
#[derive(Default)]
pub struct Report {
    pub errors: Vec<Value>,
    pub counts: BTreeMap<String, u64>,
}
impl Report {
    fn count(&mut self, what: &str) {
        *self.counts.entry(what.to_string()).or_insert(0) += 1;
    }
    fn fail(&mut self, sig: impl Into<String>, msg: impl Into<String>) {
        if self.errors.len() < 40 {
            self.errors.push(json!({"sig": sig.into(), "msg": msg.into()}));
        }
    }
    fn failures_len(&self) -> usize {
        self.errors.len()
    }
    /// mark the failures recorded from position `from` on as belonging to another route (signature prefix)
    fn relabel_from(&mut self, from: usize, prefix: &str) {
        for e in self.errors.iter_mut().skip(from) {
            let sig = format!("{prefix}{}", e["sig"].as_str().unwrap_or("?"));
            let msg = format!("after a store / restore of the collection: {}", e["msg"].as_str().unwrap_or("?"));
            *e = json!({"sig": sig, "msg": msg});
        }
    }
    /// compare an expected spec value with a projected implementation value
    fn same(&mut self, what: &str, sig: &str, expected: &Value, actual: &Value) -> bool {
        self.count(what);
        match json_match(expected, actual, what) {
            Ok(()) => true,
            Err(e) => {
                self.fail(sig, e);
                false
            }
        }
    }
}

fn arr<'a>(v: &'a Value, k: &str) -> &'a Vec<Value> {
    v.get(k).and_then(|x| x.as_array()).unwrap_or_else(|| usage(&format!("field {k} not an array in {v}")))
}
fn int(v: &Value) -> i64 {
    v.as_i64().unwrap_or_else(|| usage(&format!("not an integer: {v}")))
}

// ------------------------------------------------------------------------------------------------
// Projection: IndexedInstruments -> the spec's `tables` (positions 1-based, 0 = none)
// ------------------------------------------------------------------------------------------------
/// a table entry is identified by exchange, both names and kind (internal names alone need not
/// be unique: spot and perpetual of one underlying)
fn def_id(defs: &[Value], ex: i64, ni: i64, nx: i64, kind: &str) -> i64 {
    defs.iter().find(|d| i(d, "ex") == ex && i(d, "ni") == ni && i(d, "nx") == nx && s(d, "kind") == kind).map(|d| i(d, "id")).unwrap_or(0)
}
fn kind_name<A>(k: &InstrumentKind<A>) -> &'static str {
    match k {
        InstrumentKind::Spot => "spot",
        InstrumentKind::Perpetual(_) => "perp",
        InstrumentKind::Future(_) => "future",
        InstrumentKind::Option(_) => "option",
    }
}

/// an expected value that may be an open point of the spec ({"anyOf": [..]}), mapped element-wise
fn lift(v: &Value, f: &dyn Fn(i64) -> Value) -> Value {
    match v.get("anyOf").and_then(|x| x.as_array()) {
        Some(alts) => json!({"anyOf": alts.iter().map(|x| f(int(x))).collect::<Vec<_>>()}),
        None => f(int(v)),
    }
}
fn is_zero(v: &Value) -> bool {
    v.as_i64() == Some(0)
}
fn is_open(v: &Value) -> bool {
    v.get("anyOf").is_some()
}

fn project_instrument(
    ins: &Instrument<Keyed<ExchangeIndex, ExchangeId>, AssetIndex>,
    defs: &[Value],
) -> Value {
    let ex = ex_rank(ins.exchange.value);
    let ni = ins_int_rank(&ins.name_internal);
    let (kind, settle) = match &ins.kind {
        InstrumentKind::Spot => ("spot", 0),
        InstrumentKind::Perpetual(c) => ("perp", c.settlement_asset.index() as i64 + 1),
        InstrumentKind::Future(c) => ("future", c.settlement_asset.index() as i64 + 1),
        InstrumentKind::Option(c) => ("option", c.settlement_asset.index() as i64 + 1),
    };
    let unit = match ins.spec.as_ref().map(|s| &s.quantity.unit) {
        Some(OrderQuantityUnits::Asset(a)) => json!(a.index() as i64 + 1),
        None => json!(0),
        Some(other) => json!(format!("{other:?}")),
    };
    json!({
        "id": def_id(defs, ex, ni, ins_exc_rank(&ins.name_exchange), kind), "ex": ex, "xk": ins.exchange.key.index() as i64 + 1,
        "ni": ni, "nx": ins_exc_rank(&ins.name_exchange), "kind": kind,
        "base": ins.underlying.base.index() as i64 + 1, "quote": ins.underlying.quote.index() as i64 + 1,
        "settle": settle, "unit": unit,
    })
}

fn project_asset(a: &ExchangeAsset<Asset>) -> Value {
    json!({"ex": ex_rank(a.exchange), "a": asset_int_rank(&a.asset.name_internal), "nx": asset_exc_rank(&a.asset.name_exchange)})
}

/// index = position is part of the projection: an entry whose key is not its position is shown
/// as a marker no spec value equals
fn project_tables(ix: &IndexedInstruments, defs: &[Value]) -> Value {
    let ex: Vec<Value> = ix.exchanges().iter().enumerate().map(|(p, k)| {
        if k.key.index() == p { json!(ex_rank(k.value)) } else { json!({"key": k.key.index(), "at_position": p}) }
    }).collect();
    let assets: Vec<Value> = ix.assets().iter().enumerate().map(|(p, k)| {
        if k.key.index() == p { project_asset(&k.value) } else { json!({"key": k.key.index(), "at_position": p}) }
    }).collect();
    let ins: Vec<Value> = ix.instruments().iter().enumerate().map(|(p, k)| {
        if k.key.index() == p { project_instrument(&k.value, defs) } else { json!({"key": k.key.index(), "at_position": p}) }
    }).collect();
    json!({"ex": ex, "as": assets, "ins": ins})
}

// ------------------------------------------------------------------------------------------------
// C11
// ------------------------------------------------------------------------------------------------
fn opt_idx<T, E>(r: Result<T, E>, f: impl Fn(T) -> usize) -> i64 {
    r.map(|x| f(x) as i64 + 1).unwrap_or(0)
}

/// accessors and find_* of IndexedInstruments against the spec's tables
fn c11_tables(rep: &mut Report, scn: &Value, ix: &IndexedInstruments) {
    let defs = defs_of(scn);
    let actual = project_tables(ix, defs);
    for (k, sig) in [("ex", "tables:exchanges"), ("as", "tables:assets"), ("ins", "tables:instruments")] {
        rep.same(k, sig, &scn[k], &actual[k]);
    }
    // OrderFree through the second constructor: same tables
    match catch(|| IndexedInstruments::new(defs.iter().map(instrument_of))) {
        Ok(other) => {
            rep.count("new==builder");
            if &other != ix {
                rep.fail("tables:constructor", "IndexedInstruments::new(..) differs from builder().add_instrument(..)..build()");
            }
        }
        Err(p) => rep.fail("tables:panic", format!("IndexedInstruments::new panicked: {p}")),
    }
    let (sx, sa, si) = (arr(scn, "ex"), arr(scn, "as"), arr(scn, "ins"));
    // find_exchange_index for every exchange of the universe (and one alien), find_exchange for every index and one past the end
    for (r, e) in ALL_EX.iter().enumerate().map(|(p, e)| (p as i64 + 1, *e)).chain([(0, ALIEN_EX)]) {
        let exp = sx.iter().position(|x| int(x) == r).map(|p| p as i64 + 1).unwrap_or(0);
        let got = opt_idx(ix.find_exchange_index(e), |k| k.index());
        rep.same(&format!("find_exchange_index({e})"), "find:exchange_index", &json!(exp), &json!(got));
    }
    for p in 0..=sx.len() {
        let exp = sx.get(p).cloned().unwrap_or(json!(0));
        let got = ix.find_exchange(ExchangeIndex(p)).map(ex_rank).unwrap_or(0);
        rep.same(&format!("find_exchange({p})"), "find:exchange", &exp, &json!(got));
    }
    // find_asset_index for every (exchange, internal asset name), find_asset for every index
    for (r, e) in ALL_EX.iter().enumerate().map(|(p, e)| (p as i64 + 1, *e)) {
        for a in 1..=ASSET_INT.len() as i64 {
            let exp = sa.iter().position(|x| i(x, "ex") == r && i(x, "a") == a).map(|p| p as i64 + 1).unwrap_or(0);
            let got = opt_idx(ix.find_asset_index(e, &asset_int(a)), |k| k.index());
            rep.same(&format!("find_asset_index({e},{})", asset_int(a)), "find:asset_index", &json!(exp), &json!(got));
        }
        for n in 1..=INS_MAX {
            let bearers: Vec<i64> = si.iter().enumerate().filter(|(_, x)| i(x, "ex") == r && i(x, "ni") == n).map(|(p, _)| p as i64 + 1).collect();
            let exp = match bearers.len() { 0 => json!(0), 1 => json!(bearers[0]), _ => json!({"anyOf": bearers}) };
            let got = opt_idx(ix.find_instrument_index(e, &ins_int(n)), |k| k.index());
            rep.same(&format!("find_instrument_index({e},{})", ins_int(n)), "find:instrument_index", &exp, &json!(got));
        }
    }
    for p in 0..=sa.len() {
        let exp = sa.get(p).cloned().unwrap_or(json!(0));
        let got = ix.find_asset(AssetIndex(p)).map(project_asset).unwrap_or(json!(0));
        rep.same(&format!("find_asset({p})"), "find:asset", &exp, &got);
    }
    for p in 0..=si.len() {
        let exp = si.get(p).cloned().unwrap_or(json!(0));
        let got = ix.find_instrument(InstrumentIndex(p)).map(|x| project_instrument(x, defs)).unwrap_or(json!(0));
        rep.same(&format!("find_instrument({p})"), "find:instrument", &exp, &got);
    }
}

fn t0() -> DateTime<Utc> {
    time(0)
}

/// EngineState::builder(..).build(): instrument / asset / connectivity tables, position by position
fn project_engine(ix: &IndexedInstruments, defs: &[Value]) -> Result<Value, String> {
    // every asset is seeded *by name* with a balance that identifies it; the table is then read *by index*
    let balances: Vec<Keyed<ExchangeAsset<AssetNameInternal>, Balance>> = ix.assets().iter().map(|k| {
        let amount = dec(1000 + 10 * ex_rank(k.value.exchange) + asset_int_rank(&k.value.asset.name_internal));
        Keyed::new(ExchangeAsset { exchange: k.value.exchange, asset: k.value.asset.name_internal.clone() }, Balance::new(amount, amount))
    }).collect();
    let ix2 = ix.clone();
    catch(move || {
        let mut counter = 0usize;
        let state: EngineState<DefaultGlobalData, usize> =
            EngineState::builder(&ix2, DefaultGlobalData, move || { counter += 1; counter })
                .time_engine_start(t0())
                .balances(balances)
                .build();
        let n_ins = state.instruments.0.len();
        let sti: Vec<Value> = (0..n_ins).map(|p| {
            let st = state.instruments.instrument_index(&InstrumentIndex(p));
            let (map_key, _) = state.instruments.0.get_index(p).expect("position exists");
            let by_name = state.instruments.instrument(&st.instrument.name_internal);
            let ex = ix2.exchanges().iter().find(|k| k.key == st.instrument.exchange).map(|k| ex_rank(k.value)).unwrap_or(0);
            let ni = ins_int_rank(&st.instrument.name_internal);
            // the state must carry the very definition of table entry p (exchange mapped to its index)
            let same_def = ix2.instruments().get(p).map(|k| k.value.clone().map_exchange_key(k.value.exchange.key) == st.instrument).unwrap_or(false);
            json!({"ni": ni, "key": st.key.index() as i64 + 1,
                   "id": def_id(defs, ex, ni, ins_exc_rank(&st.instrument.name_exchange), kind_name(&st.instrument.kind)),
                   "map_key": ins_int_rank(map_key), "by_name_key": by_name.key.index() as i64 + 1,
                   "same_def": same_def, "created": st.data})
        }).collect();
        let n_as = state.assets.0.len();
        let sta: Vec<Value> = (0..n_as).map(|p| {
            let st = state.assets.asset_index(&AssetIndex(p));
            let (map_key, _) = state.assets.0.get_index(p).expect("position exists");
            json!({"ex": ex_rank(map_key.exchange), "a": asset_int_rank(&st.asset.name_internal), "nx": asset_exc_rank(&st.asset.name_exchange),
                   "map_a": asset_int_rank(&map_key.asset),
                   "balance": st.balance.as_ref().map(|b| dec_json(b.value.total)).unwrap_or(json!("none"))})
        }).collect();
        let conn: Vec<Value> = (0..state.connectivity.exchanges.len()).map(|p| {
            let (e, _) = state.connectivity.exchanges.get_index(p).expect("position exists");
            let _ = state.connectivity.connectivity_index(&ExchangeIndex(p));
            json!(ex_rank(*e))
        }).collect();
        let free: Vec<Value> = generate_empty_indexed_connectivity_states(&ix2).exchanges.keys().map(|e| json!(ex_rank(*e))).collect();
        json!({"sti": sti, "sta": sta, "conn": conn, "conn_free": free})
    })
}

fn c11_engine(rep: &mut Report, scn: &Value, ix: &IndexedInstruments) {
    let defs = defs_of(scn);
    let got = match project_engine(ix, defs) {
        Ok(v) => v,
        Err(p) => return rep.fail("aligned:panic", format!("EngineState::builder(..).build() or a positional accessor panicked: {p}")),
    };
    let exp_sti: Vec<Value> = arr(scn, "sti").iter().enumerate().map(|(p, x)| {
        json!({"ni": x["ni"], "key": x["key"], "id": x["id"], "map_key": x["ni"], "by_name_key": x["key"], "same_def": true, "created": p + 1})
    }).collect();
    // InstrumentStates is keyed by the internal name alone: claimed only when those are distinct
    if b(scn, "uni") {
        rep.same("engine.instruments", "aligned:instrument_states", &json!(exp_sti), &got["sti"]);
    }
    let exp_sta: Vec<Value> = arr(scn, "sta").iter().map(|x| {
        json!({"ex": x["ex"], "a": x["a"], "nx": x["nx"], "map_a": x["a"], "balance": 1000 + 10 * i(x, "ex") + i(x, "a")})
    }).collect();
    rep.same("engine.assets", "aligned:asset_states", &json!(exp_sta), &got["sta"]);
    rep.same("engine.connectivity", "aligned:connectivity", &scn["conn"], &got["conn"]);
    rep.same("generate_empty_indexed_connectivity_states", "aligned:connectivity", &scn["conn"], &got["conn_free"]);
}

fn mock_config(e: ExchangeId) -> MockExecutionConfig {
    MockExecutionConfig {
        mocked_exchange: e,
        initial_state: UnindexedAccountSnapshot { exchange: e, balances: vec![], instruments: vec![] },
        latency_ms: 0,
        fees_percent: dec(0),
    }
}

/// ExecutionBuilder with mock links on the exchanges `linked` (added in reverse order, so that the
/// table order cannot come from the order of the add_mock calls)
fn project_exec_tx(rt: &tokio::runtime::Runtime, ix: &IndexedInstruments, linked: &[i64]) -> Result<Value, String> {
    let _guard = rt.enter();
    catch(|| {
        let mut b = ExecutionBuilder::new(ix);
        for r in linked.iter().rev() {
            b = b.add_mock(mock_config(ex_of(*r)), LiveClock).map_err(|e| format!("add_mock failed: {e}"))?;
        }
        let build = b.build();
        let map = &build.execution_tx_map;
        let t: Vec<Value> = map.into_iter().enumerate().map(|(p, (e, tx))| {
            // `find` is the engine's positional access
            let found = ExecutionTxMap::find(map, &ExchangeIndex(p)).is_ok();
            let k = if tx.is_some() { p as i64 + 1 } else { 0 };
            if found == tx.is_some() { json!({"ex": ex_rank(*e), "k": k}) } else { json!({"ex": ex_rank(*e), "k": k, "find_disagrees": true}) }
        }).collect();
        Ok::<_, String>(json!(t))
    }).and_then(|r| r)
}

fn c11_exec(rep: &mut Report, scn: &Value, ix: &IndexedInstruments, rt: &tokio::runtime::Runtime) {
    for entry in arr(scn, "tx") {
        let linked: Vec<i64> = arr(entry, "l").iter().map(int).collect();
        match project_exec_tx(rt, ix, &linked) {
            Ok(got) => {
                rep.same(&format!("execution_tx_map{linked:?}"), "aligned:execution_tx_map", &entry["t"], &got);
            }
            Err(p) => rep.fail("aligned:panic", format!("ExecutionBuilder with mock links on {linked:?}: {p}")),
        }
    }
}

pub fn check_c11(scn: &Value, rt: &tokio::runtime::Runtime) -> Report {
    let mut rep = Report::default();
    match build(defs_of(scn)) {
        Err(p) => rep.fail("tables:panic", format!("IndexedInstruments::builder()..build() panicked: {p}")),
        Ok(ix) => {
            c11_tables(&mut rep, scn, &ix);
            c11_engine(&mut rep, scn, &ix);
            c11_exec(&mut rep, scn, &ix, rt);
            // Persist: a collection that was stored and restored (serde round trip - how an indexed universe is shipped
            // to a replica or kept across a restart) is the same collection: equal, with the same tables, and every
            // look-up by name and by index answers as before
            let restored = catch(|| -> Result<IndexedInstruments, String> {
                let text = serde_json::to_string(&ix).map_err(|e| format!("serialise: {e}"))?;
                serde_json::from_str(&text).map_err(|e| format!("deserialise: {e}"))
            });
            match restored {
                Ok(Ok(back)) => {
                    rep.count("persist");
                    if back != ix {
                        rep.fail("persist:differs", "IndexedInstruments restored from its own serialisation differs from the original");
                    }
                    let before = rep.failures_len();
                    c11_tables(&mut rep, scn, &back);
                    rep.relabel_from(before, "persist:");
                }
                Ok(Err(e)) => rep.fail("persist:serde", format!("IndexedInstruments store / restore failed: {e}")),
                Err(p) => rep.fail("persist:panic", format!("IndexedInstruments store / restore panicked: {p}")),
            }
        }
    }
    rep
}

// ------------------------------------------------------------------------------------------------
// C04
// ------------------------------------------------------------------------------------------------
/// entity -> index *as the implementation's tables have it* (C04 takes the tables as given)
struct Given {
    ex: HashMap<i64, usize>,
    assets: HashMap<(i64, i64), usize>,
    ins: HashMap<(i64, i64, i64, String), usize>,
}

fn given(ix: &IndexedInstruments) -> Result<Given, String> {
    let mut g = Given { ex: HashMap::new(), assets: HashMap::new(), ins: HashMap::new() };
    for k in ix.exchanges() {
        if g.ex.insert(ex_rank(k.value), k.key.index()).is_some() { return Err(format!("exchange {} twice in the table", k.value)); }
    }
    for k in ix.assets() {
        let key = (ex_rank(k.value.exchange), asset_int_rank(&k.value.asset.name_internal));
        if g.assets.insert(key, k.key.index()).is_some() { return Err(format!("asset {key:?} twice in the table")); }
    }
    for k in ix.instruments() {
        let key = (ex_rank(k.value.exchange.value), ins_int_rank(&k.value.name_internal), ins_exc_rank(&k.value.name_exchange), kind_name(&k.value.kind).to_string());
        if g.ins.insert(key.clone(), k.key.index()).is_some() { return Err(format!("instrument {key:?} twice in the table")); }
    }
    Ok(g)
}

/// spec position (1-based) -> actual index, for the asset and instrument tables of the scenario
fn positions(scn: &Value, g: &Given) -> Result<(Vec<usize>, Vec<usize>), String> {
    let a = arr(scn, "as").iter().map(|x| g.assets.get(&(i(x, "ex"), i(x, "a"))).copied().ok_or(format!("asset {x} missing from the implementation's table"))).collect::<Result<Vec<_>, _>>()?;
    let n = arr(scn, "ins").iter().map(|x| g.ins.get(&(i(x, "ex"), i(x, "ni"), i(x, "nx"), s(x, "kind").to_string())).copied().ok_or(format!("instrument {x} missing from the implementation's table"))).collect::<Result<Vec<_>, _>>()?;
    Ok((a, n))
}

fn strategy() -> StrategyId {
    StrategyId::new("vh")
}

fn req_open(x: usize, n: usize, cid: &str) -> OrderRequestOpen<ExchangeIndex, InstrumentIndex> {
    OrderRequestOpen {
        key: OrderKey { exchange: ExchangeIndex(x), instrument: InstrumentIndex(n), strategy: strategy(), cid: ClientOrderId::new(cid) },
        state: RequestOpen { side: Side::Buy, price: dec(10), quantity: dec(2), kind: OrderKind::Limit, time_in_force: TimeInForce::GoodUntilCancelled { post_only: false } },
    }
}
fn req_cancel(x: usize, n: usize, cid: &str) -> OrderRequestCancel<ExchangeIndex, InstrumentIndex> {
    OrderRequestCancel {
        key: OrderKey { exchange: ExchangeIndex(x), instrument: InstrumentIndex(n), strategy: strategy(), cid: ClientOrderId::new(cid) },
        state: RequestCancel { id: Some(OrderId::new("o1")) },
    }
}

// ---- recording stub client behind a real ExecutionManager -------------------------------------
type Received = Arc<Mutex<Vec<(String, ExchangeId, InstrumentNameExchange)>>>;

#[derive(Clone)]
struct StubClient {
    log: Received,
}

impl ExecutionClient for StubClient {
    const EXCHANGE: ExchangeId = ExchangeId::Mock;
    type Config = Received;
    type AccountStream = futures::stream::Empty<UnindexedAccountEvent>;

    fn new(config: Self::Config) -> Self {
        Self { log: config }
    }
    async fn account_snapshot(&self, _: &[AssetNameExchange], _: &[InstrumentNameExchange]) -> Result<UnindexedAccountSnapshot, UnindexedClientError> {
        Err(UnindexedClientError::AccountSnapshot("stub".into()))
    }
    async fn account_stream(&self, _: &[AssetNameExchange], _: &[InstrumentNameExchange]) -> Result<Self::AccountStream, UnindexedClientError> {
        Ok(futures::stream::empty())
    }
    // the client answers for exactly the (ExchangeId, InstrumentNameExchange) it was addressed with
    async fn cancel_order(&self, request: OrderRequestCancel<ExchangeId, &InstrumentNameExchange>) -> UnindexedOrderResponseCancel {
        self.log.lock().unwrap().push(("cancel".into(), request.key.exchange, request.key.instrument.clone()));
        OrderResponseCancel {
            key: OrderKey { exchange: request.key.exchange, instrument: request.key.instrument.clone(), strategy: request.key.strategy, cid: request.key.cid },
            state: Ok(Cancelled::new(OrderId::new("o1"), time(1))),
        }
    }
    async fn open_order(&self, request: OrderRequestOpen<ExchangeId, &InstrumentNameExchange>) -> Order<ExchangeId, InstrumentNameExchange, Result<Open, UnindexedOrderError>> {
        self.log.lock().unwrap().push(("open".into(), request.key.exchange, request.key.instrument.clone()));
        // (pair route: the venue takes a moment, so that both requests of a pair are in flight together)
        let delay = STUB_DELAY_MS.load(Ordering::SeqCst);
        if delay > 0 {
            tokio::time::sleep(Duration::from_millis(delay)).await;
        }
        Order {
            key: OrderKey { exchange: request.key.exchange, instrument: request.key.instrument.clone(), strategy: request.key.strategy, cid: request.key.cid },
            side: request.state.side, price: request.state.price, quantity: request.state.quantity,
            kind: request.state.kind, time_in_force: request.state.time_in_force,
            state: Ok(Open::new(OrderId::new("o1"), time(1), dec(0))),
        }
    }
    async fn fetch_balances(&self) -> Result<Vec<AssetBalance<AssetNameExchange>>, UnindexedClientError> {
        Ok(vec![])
    }
    async fn fetch_open_orders(&self) -> Result<Vec<Order<ExchangeId, InstrumentNameExchange, Open>>, UnindexedClientError> {
        Ok(vec![])
    }
    async fn fetch_trades(&self, _: DateTime<Utc>) -> Result<Vec<Trade<QuoteAsset, InstrumentNameExchange>>, UnindexedClientError> {
        Ok(vec![])
    }
}

/// what one request did behind a real `ExecutionManager::run`
struct Outcome {
    received: Vec<(String, ExchangeId, InstrumentNameExchange)>,
    /// key of the indexed response forwarded to the engine
    response: Option<(usize, usize)>,
    panic: Option<String>,
}

pub static QUIET: AtomicBool = AtomicBool::new(false);
static STUB_DELAY_MS: std::sync::atomic::AtomicU64 = std::sync::atomic::AtomicU64::new(0);

/// Two open requests that carry the SAME client order id for two different instruments of the exchange (a client
/// order id is unique per instrument only - e.g. the two legs of a pair correlated by one id), both in flight at
/// once behind a real `ExecutionManager::run`: the keys (exchange index, instrument index) of the two indexed
/// responses, in arrival order. Every answer is indexed to the instrument IT names.
fn drive_manager_pair(rt: &tokio::runtime::Runtime, map: &ExecutionInstrumentMap, a: ExecutionRequest, b: ExecutionRequest) -> (Vec<(usize, usize)>, Option<String>) {
    let map = map.clone();
    rt.block_on(async move {
        let (req_tx, req_rx) = mpsc_unbounded::<ExecutionRequest>();
        let (resp_tx, mut resp_rx) = mpsc_unbounded::<AccountStreamEvent>();
        let log: Received = Arc::new(Mutex::new(vec![]));
        let manager = ExecutionManager::new(req_rx.into_stream(), Duration::from_secs(1), resp_tx, Arc::new(StubClient::new(log.clone())), AccountEventIndexer::new(Arc::new(map)));
        QUIET.store(true, Ordering::SeqCst);
        STUB_DELAY_MS.store(20, Ordering::SeqCst);
        let handle = tokio::spawn(manager.run());
        let _ = req_tx.tx.send(a);
        let _ = req_tx.tx.send(b);
        let mut keys = vec![];
        for _ in 0..2 {
            if let Ok(Some(ReconnectEvent::Item(AccountEvent { kind: AccountEventKind::OrderSnapshot(Snapshot(o)), .. }))) = tokio::time::timeout(Duration::from_secs(5), resp_rx.rx.recv()).await {
                keys.push((o.key.exchange.index(), o.key.instrument.index()));
            }
        }
        let _ = req_tx.tx.send(ExecutionRequest::Shutdown);
        drop(req_tx);
        let panic = match handle.await {
            Ok(()) => None,
            Err(e) if e.is_panic() => Some("panic".to_string()),
            Err(e) => Some(format!("join error: {e}")),
        };
        STUB_DELAY_MS.store(0, Ordering::SeqCst);
        QUIET.store(false, Ordering::SeqCst);
        (keys, panic)
    })
}

fn drive_manager(rt: &tokio::runtime::Runtime, map: &ExecutionInstrumentMap, request: ExecutionRequest) -> Outcome {
    let map = map.clone();
    rt.block_on(async move {
        let (req_tx, req_rx) = mpsc_unbounded::<ExecutionRequest>();
        let (resp_tx, mut resp_rx) = mpsc_unbounded::<AccountStreamEvent>();
        let log: Received = Arc::new(Mutex::new(vec![]));
        let manager = ExecutionManager::new(
            req_rx.into_stream(),
            Duration::from_secs(1),
            resp_tx,
            Arc::new(StubClient::new(log.clone())),
            AccountEventIndexer::new(Arc::new(map)),
        );
        QUIET.store(true, Ordering::SeqCst);
        let handle = tokio::spawn(manager.run());
        let _ = req_tx.tx.send(request);
        // the response (or the end of the channel when the manager died; virtual time)
        let response = match tokio::time::timeout(Duration::from_secs(5), resp_rx.rx.recv()).await {
            Ok(Some(ReconnectEvent::Item(AccountEvent { kind, .. }))) => match kind {
                AccountEventKind::OrderSnapshot(Snapshot(o)) => Some((o.key.exchange.index(), o.key.instrument.index())),
                AccountEventKind::OrderCancelled(r) => Some((r.key.exchange.index(), r.key.instrument.index())),
                _ => None,
            },
            _ => None,
        };
        let _ = req_tx.tx.send(ExecutionRequest::Shutdown);
        drop(req_tx);
        let panic = match handle.await {
            Ok(()) => None,
            Err(e) if e.is_panic() => {
                let p = e.into_panic();
                Some(p.downcast_ref::<String>().cloned().or_else(|| p.downcast_ref::<&str>().map(|s| s.to_string())).unwrap_or_else(|| "panic".into()))
            }
            Err(e) => Some(format!("join error: {e}")),
        };
        QUIET.store(false, Ordering::SeqCst);
        let received = log.lock().unwrap().clone();
        Outcome { received, response, panic }
    })
}

// ---- synthesised unindexed account events ------------------------------------------------------
fn ukey(e: ExchangeId, n: &InstrumentNameExchange) -> OrderKey<ExchangeId, InstrumentNameExchange> {
    OrderKey { exchange: e, instrument: n.clone(), strategy: strategy(), cid: ClientOrderId::new("c1") }
}
fn ubalance(a: &AssetNameExchange) -> AssetBalance<AssetNameExchange> {
    AssetBalance { asset: a.clone(), balance: Balance::new(dec(5), dec(4)), time_exchange: time(1) }
}
fn uorder(e: ExchangeId, n: &InstrumentNameExchange, variant: u64) -> Order<ExchangeId, InstrumentNameExchange, OrderState<AssetNameExchange, InstrumentNameExchange>> {
    let state = match variant % 3 {
        0 => OrderState::active(Open::new(OrderId::new("o1"), time(1), dec(1))),
        1 => OrderState::fully_filled(),
        // a rejection that names the same instrument again
        _ => OrderState::inactive(OrderError::Rejected(ApiError::InstrumentInvalid(n.clone(), "x".into()))),
    };
    Order { key: ukey(e, n), side: Side::Sell, price: dec(11), quantity: dec(3), kind: OrderKind::Market, time_in_force: TimeInForce::ImmediateOrCancel, state }
}
fn utrade(n: &InstrumentNameExchange) -> Trade<QuoteAsset, InstrumentNameExchange> {
    Trade { id: TradeId::new("t1"), order_id: OrderId::new("o1"), instrument: n.clone(), strategy: strategy(), time_exchange: time(1),
            side: Side::Buy, price: dec(10), quantity: dec(1), fees: AssetFees::quote_fees(dec(0)) }
}
fn ucancel(e: ExchangeId, n: &InstrumentNameExchange, ok: bool) -> UnindexedOrderResponseCancel {
    OrderResponseCancel { key: ukey(e, n), state: if ok { Ok(Cancelled::new(OrderId::new("o1"), time(1))) } else { Err(OrderError::Rejected(ApiError::OrderAlreadyCancelled)) } }
}

/// (exchange index, entity index) of an indexed event, 1-based; 0 when refused
fn event_result(ix: &AccountEventIndexer, kind: &str, from: ExchangeId, label: i64, variant: u64) -> Result<(i64, i64), String> {
    let ev = match kind {
        "balance" => AccountEventKind::BalanceSnapshot(Snapshot(ubalance(&asset_exc(label)))),
        "order" => AccountEventKind::OrderSnapshot(Snapshot(uorder(from, &ins_exc(label), variant))),
        "trade" => AccountEventKind::Trade(utrade(&ins_exc(label))),
        "cancel" => AccountEventKind::OrderCancelled(ucancel(from, &ins_exc(label), variant % 2 == 0)),
        k => usage(&format!("unknown event kind {k}")),
    };
    catch(|| ix.account_event(UnindexedAccountEvent { exchange: from, kind: ev })).map(|r| match r {
        Err(_) => (0, 0),
        Ok(AccountEvent { exchange, kind }) => {
            let idx = match kind {
                AccountEventKind::BalanceSnapshot(Snapshot(b)) => b.asset.index(),
                AccountEventKind::OrderSnapshot(Snapshot(o)) => {
                    // a rejection naming the instrument must have been translated to the same index
                    if let OrderState::Inactive(barter_execution::order::state::InactiveOrderState::OpenFailed(OrderError::Rejected(ApiError::InstrumentInvalid(k, _)))) = &o.state {
                        if *k != o.key.instrument { return (exchange.index() as i64 + 1, -1); }
                    }
                    if o.key.exchange != exchange { return (exchange.index() as i64 + 1, -2); }
                    o.key.instrument.index()
                }
                AccountEventKind::Trade(t) => t.instrument.index(),
                AccountEventKind::OrderCancelled(r) => {
                    if r.key.exchange != exchange { return (exchange.index() as i64 + 1, -2); }
                    r.key.instrument.index()
                }
                AccountEventKind::Snapshot(_) => usize::MAX - 1,
            };
            (exchange.index() as i64 + 1, idx as i64 + 1)
        }
    })
}

/// full snapshot of exchange `from`: the given asset / instrument names (each instrument with one order)
fn snapshot_result(ix: &AccountEventIndexer, from: ExchangeId, assets: &[i64], ins: &[i64], via_event: bool) -> Result<Value, String> {
    let snap = UnindexedAccountSnapshot {
        exchange: from,
        balances: assets.iter().map(|l| ubalance(&asset_exc(*l))).collect(),
        instruments: ins.iter().map(|l| InstrumentAccountSnapshot { instrument: ins_exc(*l), orders: vec![uorder(from, &ins_exc(*l), 0)] }).collect(),
    };
    catch(|| {
        let r = if via_event {
            ix.account_event(UnindexedAccountEvent { exchange: from, kind: AccountEventKind::Snapshot(snap) })
                .map(|e| match e.kind { AccountEventKind::Snapshot(s) => (e.exchange, s), _ => unreachable!("snapshot stays a snapshot") })
        } else {
            ix.snapshot(snap).map(|s| (s.exchange, s))
        };
        match r {
            Err(_) => json!({"ok": false, "x": 0, "a": [], "i": []}),
            Ok((x, AccountSnapshot { exchange, balances, instruments })) => json!({
                "ok": true,
                "x": if x == exchange { x.index() as i64 + 1 } else { -2 },
                "a": balances.iter().map(|b| b.asset.index() as i64 + 1).collect::<Vec<_>>(),
                // the instrument and the order inside it must agree
                "i": instruments.iter().map(|s| if s.orders.iter().all(|o| o.key.instrument == s.instrument && o.key.exchange == exchange) { s.instrument.index() as i64 + 1 } else { -1 }).collect::<Vec<_>>(),
            }),
        }
    })
}

/// a full snapshot whose orders are NOT grouped under their own instrument (a client that attaches
/// every open order to the first group, or lists an order under a neighbouring market): every order
/// still names its instrument in its key, and the indexer must translate THAT name. Result: the
/// groups' indices and, per order in listing order, the index its key was translated to.
fn snapshot_misgrouped_result(ix: &AccountEventIndexer, from: ExchangeId, ins: &[i64], rotate: usize, via_event: bool) -> Result<Value, String> {
    let n = ins.len();
    let snap = UnindexedAccountSnapshot {
        exchange: from,
        balances: vec![],
        instruments: ins.iter().enumerate().map(|(k, l)| InstrumentAccountSnapshot {
            instrument: ins_exc(*l),
            // rotate == 0: all orders under the first group; otherwise group k lists the order of instrument k + rotate
            orders: if rotate == 0 {
                if k == 0 { ins.iter().enumerate().map(|(j, o)| uorder(from, &ins_exc(*o), j as u64)).collect() } else { vec![] }
            } else {
                vec![uorder(from, &ins_exc(ins[(k + rotate) % n]), k as u64)]
            },
        }).collect(),
    };
    catch(|| {
        let r = if via_event {
            ix.account_event(UnindexedAccountEvent { exchange: from, kind: AccountEventKind::Snapshot(snap) })
                .map(|e| match e.kind { AccountEventKind::Snapshot(s) => s, _ => unreachable!("snapshot stays a snapshot") })
        } else {
            ix.snapshot(snap)
        };
        match r {
            Err(_) => json!({"ok": false, "g": [], "o": []}),
            Ok(AccountSnapshot { exchange, instruments, .. }) => json!({
                "ok": true,
                "g": instruments.iter().map(|s| s.instrument.index() as i64 + 1).collect::<Vec<_>>(),
                "o": instruments.iter().flat_map(|s| s.orders.iter().map(|o| if o.key.exchange == exchange { o.key.instrument.index() as i64 + 1 } else { -2 }).collect::<Vec<_>>()).collect::<Vec<_>>(),
            }),
        }
    })
}

/// names that differ from `name` only by ASCII case (all upper, all lower, one letter flipped),
/// by a leading / trailing blank, or are a strict prefix / an extension of it - minus those that
/// happen to be tracked names themselves
fn lookalikes(name: &str, tracked: &[String]) -> Vec<String> {
    let flip = |at: usize| name.char_indices().map(|(p, ch)| {
        if p != at { ch } else if ch.is_ascii_uppercase() { ch.to_ascii_lowercase() } else { ch.to_ascii_uppercase() }
    }).collect::<String>();
    let letters: Vec<usize> = name.char_indices().filter(|(_, ch)| ch.is_ascii_alphabetic()).map(|(p, _)| p).collect();
    let mut out = vec![name.to_ascii_uppercase(), name.to_ascii_lowercase(), format!(" {name}"), format!("{name} "),
                       format!("{name}X"), format!("{name}0")];
    if let (Some(first), Some(last)) = (letters.first(), letters.last()) {
        out.push(flip(*first));
        out.push(flip(*last));
    }
    if name.len() > 1 { out.push(name[..name.len() - 1].to_string()); }
    out.sort();
    out.dedup();
    out.retain(|v| v != name && !tracked.contains(v));
    out
}

fn cls(xk: i64) -> &'static str {
    if xk == 1 { "first-exchange" } else { "later-exchange" }
}

/// readable forms of spec labels for the comparison messages
fn aname(l: i64) -> Value {
    if l == 0 { json!("none") } else { json!(asset_exc(l).name().as_str()) }
}
fn iname(l: i64) -> Value {
    if l == 0 { json!("none") } else { json!(ins_exc(l).name().as_str()) }
}
fn xname(r: i64) -> Value {
    if r == 0 { json!("none") } else { json!(ex_of(r).to_string()) }
}

fn label_json<T>(r: Option<T>, rank: impl Fn(T) -> i64) -> Value {
    json!(r.map(rank).unwrap_or(0))
}

/// every exchange's map and indexer against the spec's maps (entity-resolved through `Given`)
pub fn check_c04(scn: &Value, rt: &tokio::runtime::Runtime) -> Report {
    let mut rep = Report::default();
    let ix = match build(defs_of(scn)) {
        Ok(ix) => ix,
        Err(p) => { rep.fail("precondition", format!("the collection cannot be built (C11): {p}")); return rep; }
    };
    let g = match given(&ix).and_then(|g| positions(scn, &g).map(|p| (g, p))) {
        Ok(x) => x,
        Err(e) => { rep.fail("precondition", format!("the implementation's tables do not contain the collection's entities (C11): {e}")); return rep; }
    };
    let (g, (apos, ipos)) = g;
    let (n_as, n_ins, n_ex) = (ix.assets().len(), ix.instruments().len(), ix.exchanges().len());
    // spec position -> actual index, plus the positions past the end
    let a_actual = |p: usize| if p < apos.len() { apos[p] } else { n_as + (p - apos.len()) };
    let i_actual = |p: usize| if p < ipos.len() { ipos[p] } else { n_ins + (p - ipos.len()) };
    // spec position (1-based, 0 none) -> actual index + 1
    let a_exp = |v: &Value| { let p = int(v); if p == 0 { 0 } else { apos[(p - 1) as usize] as i64 + 1 } };
    // (an instrument name borne by several instruments of the exchange: any of them)
    let i_exp = |v: &Value| lift(v, &|p| json!(if p == 0 { 0 } else { ipos[(p - 1) as usize] as i64 + 1 }));

    // an exchange that is not part of the collection has no map
    for e in ALL_EX.iter().chain([&ALIEN_EX]) {
        if !g.ex.contains_key(&ex_rank(*e)) {
            rep.count("generate_map(absent exchange)");
            if generate_execution_instrument_map(&ix, *e).is_ok() {
                rep.fail("generate_execution_instrument_map:absent", format!("a map was generated for {e}, which is not in the collection"));
            }
        }
    }

    for m in arr(scn, "maps") {
        let e = i(m, "e");
        let ex = ex_of(e);
        let c = cls(i(m, "xk"));
        let Some(&own_x) = g.ex.get(&e) else { rep.fail("precondition", format!("exchange {ex} missing from the implementation's table (C11)")); continue; };
        let map = match catch(|| generate_execution_instrument_map(&ix, ex)) {
            Ok(Ok(map)) => map,
            other => { rep.fail(format!("generate_execution_instrument_map:{c}"), format!("no map for {ex}: {:?}", other.map(|r| r.map(|_| ())))); continue; }
        };
        rep.same(&format!("map[{ex}].exchange"), &format!("map.exchange:{c}"), &json!([own_x, e]), &json!([map.exchange.key.index(), ex_rank(map.exchange.value)]));
        // the names handed to the client at start-up
        let mut an: Vec<i64> = map.exchange_assets().map(asset_exc_rank).collect(); an.sort();
        let mut exp_an: Vec<i64> = arr(m, "an").iter().map(int).collect(); exp_an.sort();
        rep.same(&format!("map[{ex}].exchange_assets"), &format!("map.exchange_assets:{c}"), &json!(exp_an), &json!(an));
        let mut inn: Vec<i64> = map.exchange_instruments().map(ins_exc_rank).collect(); inn.sort();
        let mut exp_inn: Vec<i64> = arr(m, "inn").iter().map(int).collect(); exp_inn.sort(); exp_inn.dedup();
        inn.dedup();
        rep.same(&format!("map[{ex}].exchange_instruments"), &format!("map.exchange_instruments:{c}"), &json!(exp_inn), &json!(inn));

        // index -> name for every global index (own, foreign, one past the end)
        for (p, exp) in arr(m, "ia").iter().enumerate() {
            let k = a_actual(p);
            let got = map.find_asset_name_exchange(AssetIndex(k)).ok().map(|n| json!(n.name().as_str())).unwrap_or(json!("none"));
            rep.same(&format!("map[{ex}].find_asset_name_exchange(AssetIndex({k}))"), &format!("find_asset_name_exchange:{c}"), &aname(int(exp)), &got);
        }
        for (p, exp) in arr(m, "ii").iter().enumerate() {
            let k = i_actual(p);
            let got = map.find_instrument_name_exchange(InstrumentIndex(k)).ok().map(|n| json!(n.name().as_str())).unwrap_or(json!("none"));
            rep.same(&format!("map[{ex}].find_instrument_name_exchange(InstrumentIndex({k}))"), &format!("find_instrument_name_exchange:{c}"), &lift(exp, &iname), &got);
        }
        // name -> index for every name of the universe (own and foreign)
        for (l, exp) in arr(m, "na").iter().enumerate() {
            let name = asset_exc(l as i64 + 1);
            let got = opt_idx(map.find_asset_index(&name), |k| k.index());
            rep.same(&format!("map[{ex}].find_asset_index({name})"), &format!("find_asset_index:{c}"), &json!(a_exp(exp)), &json!(got));
        }
        for (l, exp) in arr(m, "ni").iter().enumerate() {
            let name = ins_exc(l as i64 + 1);
            let got = opt_idx(map.find_instrument_index(&name), |k| k.index());
            rep.same(&format!("map[{ex}].find_instrument_index({name})"), &format!("find_instrument_index:{c}"), &i_exp(exp), &json!(got));
        }
        // RoundTrip, stated on the implementation alone: own index -> name -> index
        for (p, exp) in arr(m, "ia").iter().enumerate() {
            if int(exp) != 0 {
                let k = a_actual(p);
                let back = map.find_asset_name_exchange(AssetIndex(k)).ok().and_then(|n| map.find_asset_index(n).ok()).map(|x| x.index() as i64).unwrap_or(-1);
                rep.same(&format!("map[{ex}]: AssetIndex({k}) -> name -> index"), &format!("roundtrip_asset:{c}"), &json!(k), &json!(back));
            }
        }
        for (p, exp) in arr(m, "ii").iter().enumerate() {
            if !is_zero(exp) && !is_open(exp) {
                let k = i_actual(p);
                let back = map.find_instrument_name_exchange(InstrumentIndex(k)).ok().and_then(|n| map.find_instrument_index(n).ok()).map(|x| x.index() as i64).unwrap_or(-1);
                rep.same(&format!("map[{ex}]: InstrumentIndex({k}) -> name -> index"), &format!("roundtrip_instrument:{c}"), &json!(k), &json!(back));
            }
        }
        // exchange id <-> index
        for x in 0..=n_ex {
            let got = map.find_exchange_id(ExchangeIndex(x)).map(ex_rank).unwrap_or(0);
            rep.same(&format!("map[{ex}].find_exchange_id({x})"), &format!("find_exchange_id:{c}"), &json!(if x == own_x { e } else { 0 }), &json!(got));
        }
        for other in ALL_EX.iter().chain([&ALIEN_EX]) {
            let got = opt_idx(map.find_exchange_index(*other), |k| k.index());
            rep.same(&format!("map[{ex}].find_exchange_index({other})"), &format!("find_exchange_index:{c}"), &json!(if *other == ex { own_x as i64 + 1 } else { 0 }), &json!(got));
        }

        // ---- Outbound: AccountEventIndexer::order_request, every key (x, i) -----------------
        let indexer = AccountEventIndexer::new(Arc::new(map.clone()));
        for x in 0..=n_ex {
            for (p, exp) in arr(m, "ii").iter().enumerate() {
                let k = i_actual(p);
                // (an instrument whose exchange name is shared within the exchange: addressed by it, or refused)
                let want = if x == own_x && !is_zero(exp) { lift(exp, &|n| if n == 0 { json!(["none", "none"]) } else { json!([xname(e), iname(n)]) }) } else { json!(["none", "none"]) };
                let open = indexer.order_request(&req_open(x, k, "c1")).ok().map(|r| json!([r.key.exchange.to_string(), r.key.instrument.name().as_str()])).unwrap_or(json!(["none", "none"]));
                rep.same(&format!("indexer[{ex}].order_request(open, ExchangeIndex({x}), InstrumentIndex({k}))"), &format!("order_request:{c}"), &want, &open);
                let cancel = indexer.order_request(&req_cancel(x, k, "c1")).ok().map(|r| json!([r.key.exchange.to_string(), r.key.instrument.name().as_str()])).unwrap_or(json!(["none", "none"]));
                rep.same(&format!("indexer[{ex}].order_request(cancel, ExchangeIndex({x}), InstrumentIndex({k}))"), &format!("order_request:{c}"), &want, &cancel);
            }
        }
        // ---- Outbound, end to end: a real ExecutionManager around the recording stub client -----
        for (p, exp) in arr(m, "ii").iter().enumerate() {
            let k = i_actual(p);
            let own = !is_zero(exp);
            // own instruments: open and cancel; foreign / past-the-end indices: open
            for kind in if own { &["open", "cancel"][..] } else { &["open"][..] } {
                let request = if *kind == "open" { ExecutionRequest::Open(req_open(own_x, k, "c1")) } else { ExecutionRequest::Cancel(req_cancel(own_x, k, "c1")) };
                let out = drive_manager(rt, &map, request);
                let got = json!({
                    "received": out.received.iter().map(|(w, e, n)| json!([w, e.to_string(), n.name().as_str()])).collect::<Vec<_>>(),
                    "response": out.response.map(|(x, n)| json!([x, n])).unwrap_or(json!("none")),
                    "refused": out.panic.is_some(),
                });
                let refused = json!({"received": [], "response": {"any": true}, "refused": {"any": true}});
                let want = if own && is_open(exp) {
                    // exchange name shared within the exchange: addressed by that name (the answer then
                    // comes back for one of its bearers) or refused - never another name
                    let n = arr(exp, "anyOf").iter().map(int).find(|n| *n != 0).unwrap_or(0);
                    let back = i_exp(&arr(m, "ni")[(n - 1) as usize]);
                    let back = lift(&back, &|x| json!(x - 1));
                    json!({"anyOf": [{"received": [[kind, xname(e), iname(n)]], "response": [own_x, back], "refused": false}, refused]})
                } else if own {
                    json!({"received": [[kind, xname(e), iname(int(exp))]], "response": [own_x, k], "refused": false})
                } else {
                    // not this exchange's instrument: nothing may reach the client (today the manager
                    // panics by design; what it tells the engine instead is not C04's business)
                    json!({"received": [], "response": {"any": true}, "refused": {"any": true}})
                };
                rep.same(&format!("ExecutionManager[{ex}] <- {kind} request (ExchangeIndex({own_x}), InstrumentIndex({k}))"), &format!("manager:{c}"), &want, &got);
            }
        }

        // ---- Outbound, pairs: two opens sharing one client order id, for two own instruments whose exchange names are
        //      not shared, in flight together: each answer is indexed to the instrument it names
        let plain: Vec<usize> = arr(m, "ii").iter().enumerate().filter(|(_, exp)| !is_zero(exp) && !is_open(exp)).map(|(p, _)| p).collect();
        if plain.len() >= 2 {
            let (ka, kb) = (i_actual(plain[0]), i_actual(plain[plain.len() - 1]));
            let (keys, panic) = drive_manager_pair(rt, &map, ExecutionRequest::Open(req_open(own_x, ka, "c1")), ExecutionRequest::Open(req_open(own_x, kb, "c1")));
            let mut got: Vec<Value> = keys.iter().map(|(x, n)| json!([x, n])).collect();
            got.sort_by_key(|v| v.to_string());
            let mut want: Vec<Value> = vec![json!([own_x, ka]), json!([own_x, kb])];
            want.sort_by_key(|v| v.to_string());
            rep.same(&format!("ExecutionManager[{ex}] <- two open requests sharing a client order id (InstrumentIndex({ka}), InstrumentIndex({kb})), both in flight"),
                     &format!("manager_pair:{c}"), &json!({"responses": want, "refused": false}), &json!({"responses": got, "refused": panic.is_some()}));
        }

        // ---- Inbound: synthesised unindexed events from every exchange, every name ------------
        let froms: Vec<ExchangeId> = g.ex.keys().map(|r| ex_of(*r)).chain([ALIEN_EX]).collect();
        for from in &froms {
            for (kind, tbl) in [("balance", "na"), ("order", "ni"), ("trade", "ni"), ("cancel", "ni")] {
                for (l, exp) in arr(m, tbl).iter().enumerate() {
                    let idx = if kind == "balance" { json!(a_exp(exp)) } else { i_exp(exp) };
                    let want = if *from == ex && !is_zero(&idx) { json!([own_x as i64 + 1, idx]) } else { json!([0, 0]) };
                    for variant in 0..(if kind == "order" { 3 } else if kind == "cancel" { 2 } else { 1 }) {
                        match event_result(&indexer, kind, *from, l as i64 + 1, variant) {
                            Ok((x, n)) => { rep.same(&format!("indexer[{ex}].account_event({kind} from {from} naming #{})", l + 1), &format!("account_event:{kind}:{c}"), &want, &json!([x, n])); }
                            Err(p) => rep.fail(format!("account_event:{kind}:panic"), p),
                        }
                    }
                }
            }
        }
        // direct methods (the manager calls these on responses): own names and one foreign name each
        for (l, exp) in arr(m, "na").iter().enumerate() {
            let got = opt_idx(indexer.asset_balance(ubalance(&asset_exc(l as i64 + 1))), |b| b.asset.index());
            rep.same(&format!("indexer[{ex}].asset_balance(#{})", l + 1), &format!("asset_balance:{c}"), &json!(a_exp(exp)), &json!(got));
        }
        for (l, exp) in arr(m, "ni").iter().enumerate() {
            let name = ins_exc(l as i64 + 1);
            for from in &froms {
                let want = if *from == ex { i_exp(exp) } else { json!(0) };
                let got = opt_idx(indexer.order_key(ukey(*from, &name)), |k| k.instrument.index());
                rep.same(&format!("indexer[{ex}].order_key({from},{name})"), &format!("order_key:{c}"), &want, &json!(got));
                let got = opt_idx(indexer.order_response_cancel(ucancel(*from, &name, true)), |k| k.key.instrument.index());
                rep.same(&format!("indexer[{ex}].order_response_cancel({from},{name})"), &format!("order_response_cancel:{c}"), &want, &json!(got));
            }
            let got = opt_idx(indexer.trade(utrade(&name)), |t| t.instrument.index());
            rep.same(&format!("indexer[{ex}].trade({name})"), &format!("trade:{c}"), &i_exp(exp), &json!(got));
        }
        // ---- names that merely resemble a tracked name are unknown names ------------------------
        // (NameToIndex is defined on the exact names: other case, surrounding blanks, prefixes and
        //  extensions of a tracked name must be refused on every by-name and inbound route)
        let tracked_a: Vec<String> = arr(m, "an").iter().map(|l| asset_exc(int(l)).name().to_string()).collect();
        let tracked_i: Vec<String> = arr(m, "inn").iter().map(|l| ins_exc(int(l)).name().to_string()).collect();
        let carrier = tracked_i.first().map(|n| InstrumentNameExchange::new(n.as_str()));
        for name in &tracked_a {
            for v in lookalikes(name, &tracked_a) {
                let unknown = AssetNameExchange::new(v.as_str());
                let mut probe = |what: &str, got: i64| {
                    rep.same(&format!("{what}[{ex}](\"{v}\" - resembles tracked \"{name}\")"), &format!("unknown_name:{what}:{c}"), &json!(0), &json!(got));
                };
                probe("find_asset_index", opt_idx(map.find_asset_index(&unknown), |k| k.index()));
                probe("asset_balance", opt_idx(indexer.asset_balance(ubalance(&unknown)), |b| b.asset.index()));
                probe("account_event_balance", opt_idx(indexer.account_event(UnindexedAccountEvent { exchange: ex, kind: AccountEventKind::BalanceSnapshot(Snapshot(ubalance(&unknown))) }), |_| 0));
                let snap = UnindexedAccountSnapshot { exchange: ex, balances: vec![ubalance(&AssetNameExchange::new(name.as_str())), ubalance(&unknown)], instruments: vec![] };
                probe("snapshot_balance", opt_idx(indexer.snapshot(snap), |_| 0));
                if let Some(carrier) = &carrier {
                    // error payloads naming the asset, on an order / cancel response of a tracked instrument
                    let rejected = OrderError::Rejected(ApiError::BalanceInsufficient(unknown.clone(), "x".into()));
                    let mut order = uorder(ex, carrier, 0);
                    order.state = OrderState::inactive(rejected.clone());
                    probe("order_snapshot_error_asset", opt_idx(indexer.order_snapshot(order), |_| 0));
                    let cancel = OrderResponseCancel { key: ukey(ex, carrier), state: Err(OrderError::Rejected(ApiError::AssetInvalid(unknown.clone(), "x".into()))) };
                    probe("cancel_response_error_asset", opt_idx(indexer.order_response_cancel(cancel), |_| 0));
                }
            }
            // (the exact name inside an error payload is translated to the asset it names)
            if let Some(carrier) = &carrier {
                let exact = AssetNameExchange::new(name.as_str());
                let mut order = uorder(ex, carrier, 0);
                order.state = OrderState::inactive(OrderError::Rejected(ApiError::BalanceInsufficient(exact.clone(), "x".into())));
                let got = indexer.order_snapshot(order).ok().and_then(|o| match o.state {
                    OrderState::Inactive(barter_execution::order::state::InactiveOrderState::OpenFailed(OrderError::Rejected(ApiError::BalanceInsufficient(a, _)))) => Some(a.index() as i64 + 1),
                    _ => None,
                }).unwrap_or(0);
                let want = a_exp(&arr(m, "na")[(asset_exc_rank(&exact) - 1) as usize]);
                rep.same(&format!("indexer[{ex}].order_snapshot(error payload naming {name})"), &format!("order_snapshot_error_asset:{c}"), &json!(want), &json!(got));
            }
        }
        for name in &tracked_i {
            for v in lookalikes(name, &tracked_i) {
                let unknown = InstrumentNameExchange::new(v.as_str());
                let mut probe = |what: &str, got: i64| {
                    rep.same(&format!("{what}[{ex}](\"{v}\" - resembles tracked \"{name}\")"), &format!("unknown_name:{what}:{c}"), &json!(0), &json!(got));
                };
                probe("find_instrument_index", opt_idx(map.find_instrument_index(&unknown), |k| k.index()));
                probe("order_key", opt_idx(indexer.order_key(ukey(ex, &unknown)), |_| 0));
                probe("trade", opt_idx(indexer.trade(utrade(&unknown)), |_| 0));
                probe("order_response_cancel", opt_idx(indexer.order_response_cancel(ucancel(ex, &unknown, true)), |_| 0));
                for variant in 0..3 {
                    probe("account_event_order", opt_idx(indexer.account_event(UnindexedAccountEvent { exchange: ex, kind: AccountEventKind::OrderSnapshot(Snapshot(uorder(ex, &unknown, variant))) }), |_| 0));
                }
                let tracked = InstrumentNameExchange::new(name.as_str());
                let mut order = uorder(ex, &tracked, 0);
                order.state = OrderState::inactive(OrderError::Rejected(ApiError::InstrumentInvalid(unknown.clone(), "x".into())));
                probe("order_snapshot_error_instrument", opt_idx(indexer.order_snapshot(order), |_| 0));
                let snap = UnindexedAccountSnapshot { exchange: ex, balances: vec![], instruments: vec![
                    InstrumentAccountSnapshot { instrument: tracked.clone(), orders: vec![] },
                    InstrumentAccountSnapshot { instrument: unknown.clone(), orders: vec![] },
                ] };
                probe("snapshot_instrument", opt_idx(indexer.snapshot(snap), |_| 0));
            }
        }

        // full snapshots: all own names; plus one further asset / instrument name (own -> fine, foreign -> refused)
        let own_a: Vec<i64> = arr(m, "an").iter().map(int).collect();
        let own_i: Vec<i64> = arr(m, "inn").iter().map(int).collect();
        let at = |k: &str, l: i64| arr(m, k).get((l - 1) as usize).cloned().unwrap_or_else(|| usage(&format!("scenario names label {l} outside its own {k} table")));
        let exp_a: Vec<i64> = own_a.iter().map(|l| a_exp(&at("na", *l))).collect();
        let exp_i: Vec<Value> = own_i.iter().map(|l| i_exp(&at("ni", *l))).collect();
        for from in &froms {
            for via_event in [false, true] {
                let want = if *from == ex { json!({"ok": true, "x": own_x + 1, "a": exp_a, "i": exp_i}) } else { json!({"ok": false, "x": 0, "a": [], "i": []}) };
                match snapshot_result(&indexer, *from, &own_a, &own_i, via_event) {
                    Ok(got) => { rep.same(&format!("indexer[{ex}].snapshot(all own names, from {from})"), &format!("snapshot:{c}"), &want, &got); }
                    Err(p) => rep.fail("snapshot:panic", p),
                }
            }
        }
        // orders listed under another group than their own instrument's: each order is indexed to the instrument ITS key names
        if own_i.len() >= 2 {
            for rotate in 0..own_i.len().min(3) {
                let n = own_i.len();
                let exp_o: Vec<Value> = if rotate == 0 { exp_i.clone() } else { (0..n).map(|k| exp_i[(k + rotate) % n].clone()).collect() };
                let want = json!({"ok": true, "g": exp_i, "o": exp_o});
                match snapshot_misgrouped_result(&indexer, ex, &own_i, rotate, rotate % 2 == 1) {
                    Ok(got) => { rep.same(&format!("indexer[{ex}].snapshot(orders listed under another instrument's group, rotation {rotate})"), &format!("snapshot_misgrouped:{c}"), &want, &got); }
                    Err(p) => rep.fail("snapshot_misgrouped:panic", p),
                }
            }
        }
        for (l, exp) in arr(m, "na").iter().enumerate() {
            let mut names = own_a.clone(); names.push(l as i64 + 1);
            let want = if int(exp) != 0 { let mut a = exp_a.clone(); a.push(a_exp(exp)); json!({"ok": true, "x": own_x + 1, "a": a, "i": exp_i}) } else { json!({"ok": false, "x": 0, "a": [], "i": []}) };
            match snapshot_result(&indexer, ex, &names, &own_i, l % 2 == 0) {
                Ok(got) => { rep.same(&format!("indexer[{ex}].snapshot(own names + asset #{})", l + 1), &format!("snapshot:{c}"), &want, &got); }
                Err(p) => rep.fail("snapshot:panic", p),
            }
        }
        for (l, exp) in arr(m, "ni").iter().enumerate() {
            let mut names = own_i.clone(); names.push(l as i64 + 1);
            let want = if !is_zero(exp) { let mut n = exp_i.clone(); n.push(i_exp(exp)); json!({"ok": true, "x": own_x + 1, "a": exp_a, "i": n}) } else { json!({"ok": false, "x": 0, "a": [], "i": []}) };
            match snapshot_result(&indexer, ex, &own_a, &names, l % 2 == 1) {
                Ok(got) => { rep.same(&format!("indexer[{ex}].snapshot(own names + instrument #{})", l + 1), &format!("snapshot:{c}"), &want, &got); }
                Err(p) => rep.fail("snapshot:panic", p),
            }
        }
    }
    rep
}

// ------------------------------------------------------------------------------------------------
// impl -> spec: one trace line per collection (spec/Trace_Indexing.tla)
// ------------------------------------------------------------------------------------------------
const ASSET_LABELS: i64 = ASSET_EXC.len() as i64;

fn a_label(e: i64, a: i64) -> i64 {
    if e == 3 && a == 1 { 6 } else { a }
}
fn a_json(e: i64, a: i64) -> Value {
    if a == 0 { json!({"a": 0, "nx": 0}) } else { json!({"a": a, "nx": a_label(e, a)}) }
}

/// a random collection that satisfies the environment assumptions of the spec (EnvOK)
fn random_collection(rng: &mut rand::rngs::StdRng) -> Vec<Value> {
    let n_defs = rng.random_range(0..=8);
    let mut names: Vec<i64> = (1..=INS_MAX).collect();
    names.shuffle(rng);
    let mut used_nx: HashMap<i64, Vec<i64>> = HashMap::new();
    let mut pool = vec![];
    for id in 1..=n_defs {
        let e = rng.random_range(1..=ALL_EX.len() as i64);
        let taken = used_nx.entry(e).or_default();
        let mut nx = loop { let c = rng.random_range(1..=INS_MAX); if !taken.contains(&c) { break c; } };
        taken.push(nx);
        let mut ni = names[id as usize - 1];
        // now and then two distinct definitions of one exchange share their internal name (spot and
        // perpetual of one underlying) or their exchange name
        let earlier: Vec<(i64, i64)> = pool.iter().filter(|d: &&Value| i(d, "ex") == e).map(|d| (i(d, "ni"), i(d, "nx"))).collect();
        if !earlier.is_empty() {
            let (oni, onx) = earlier[rng.random_range(0..earlier.len())];
            match rng.random_range(0..8) { 0 => ni = oni, 1 => nx = onx, _ => {} }
        }
        let base = rng.random_range(1..=5);
        let quote = loop { let q = rng.random_range(1..=5); if q != base { break q; } };
        let kind = match rng.random_range(0..20) { 0..=10 => "spot", 11..=13 => "perp", 14..=16 => "future", _ => "option" };
        let settle = if kind != "spot" { rng.random_range(1..=5) } else { 0 };
        let unit = if rng.random_bool(0.35) { rng.random_range(1..=5) } else { 0 };
        pool.push(json!({"id": id, "ex": e, "ni": ni, "nx": nx, "base": a_json(e, base), "quote": a_json(e, quote),
                         "kind": kind, "settle": a_json(e, settle), "unit": a_json(e, unit)}));
    }
    if pool.is_empty() { return vec![]; }
    // insertion sequence: any order, with duplicates
    let len = rng.random_range(1..=pool.len() + 3);
    (0..len).map(|_| pool[rng.random_range(0..pool.len())].clone()).collect()
}

/// complete look-up tables of one exchange's map, in the implementation's own index space
fn project_map(rt: &tokio::runtime::Runtime, ix: &IndexedInstruments, ex: ExchangeId, froms: &[ExchangeId], focus_c04: bool) -> Value {
    let e = ex_rank(ex);
    let blank = json!({"e": e, "xk": 0, "an": [], "inn": [], "ia": [], "ii": [], "na": [], "ni": [], "rq": [], "ev": []});
    if !focus_c04 { return blank; }
    let map = match catch(|| generate_execution_instrument_map(ix, ex)) { Ok(Ok(m)) => m, _ => return blank };
    let (n_as, n_ins) = (ix.assets().len(), ix.instruments().len());
    let mut an: Vec<i64> = map.exchange_assets().map(asset_exc_rank).collect(); an.sort();
    let mut inn: Vec<i64> = map.exchange_instruments().map(ins_exc_rank).collect(); inn.sort();
    let ia: Vec<Value> = (0..=n_as).map(|k| label_json(map.find_asset_name_exchange(AssetIndex(k)).ok(), asset_exc_rank)).collect();
    let ii: Vec<Value> = (0..=n_ins).map(|k| label_json(map.find_instrument_name_exchange(InstrumentIndex(k)).ok(), ins_exc_rank)).collect();
    let na: Vec<i64> = (1..=ASSET_LABELS).map(|l| opt_idx(map.find_asset_index(&asset_exc(l)), |k| k.index())).collect();
    let ni: Vec<i64> = (1..=INS_MAX).map(|l| opt_idx(map.find_instrument_index(&ins_exc(l)), |k| k.index())).collect();
    // every instrument index through a real manager: what the client received
    let own_x = map.exchange.key.index();
    let rq: Vec<Value> = (0..=n_ins).map(|k| {
        let out = drive_manager(rt, &map, ExecutionRequest::Open(req_open(own_x, k, "c1")));
        match (out.received.as_slice(), out.panic.is_some()) {
            ([(_, e, n)], false) => json!({"ok": true, "re": ex_rank(*e), "rn": ins_exc_rank(n), "back": out.response.map(|(_, n)| n as i64 + 1).unwrap_or(0)}),
            ([], _) => json!({"ok": false, "re": 0, "rn": 0, "back": 0}),
            (r, p) => json!({"ok": false, "re": -1, "rn": r.len(), "back": if p { -1 } else { -2 }}),
        }
    }).collect();
    let indexer = AccountEventIndexer::new(Arc::new(map.clone()));
    let ev: Vec<Value> = ["balance", "order", "trade", "cancel"].iter().map(|kind| {
        let labels = if *kind == "balance" { ASSET_LABELS } else { INS_MAX };
        json!(froms.iter().map(|from| {
            json!((1..=labels).map(|l| event_result(&indexer, kind, *from, l, l as u64).map(|(x, n)| json!([x, n])).unwrap_or(json!([-9, -9]))).collect::<Vec<_>>())
        }).collect::<Vec<_>>())
    }).collect();
    json!({"e": e, "xk": own_x as i64 + 1, "an": an, "inn": inn, "ia": ia, "ii": ii, "na": na, "ni": ni, "rq": rq, "ev": ev})
}

pub fn trace_line(defs: &[Value], rt: &tokio::runtime::Runtime, link_mask: u64, focus: &str) -> Value {
    let empty = json!({"defs": defs, "panic": "none", "ex": [], "as": [], "ins": [], "sti": [], "sta": [], "conn": [],
                       "tx": {"l": [], "t": []}, "maps": []});
    let ix = match build(defs) {
        Ok(ix) => ix,
        Err(p) => { let mut l = empty; l["panic"] = json!(p); return l; }
    };
    let mut line = empty;
    let tables = project_tables(&ix, defs);
    for k in ["ex", "as", "ins"] { line[k] = tables[k].clone(); }
    if focus == "C11" {
        match project_engine(&ix, defs) {
            Ok(v) => {
                line["sti"] = json!(arr(&v, "sti").iter().map(|x| json!({"ni": x["ni"], "key": x["key"], "id": x["id"],
                    "ok": x["map_key"] == x["ni"] && x["by_name_key"] == x["key"] && x["same_def"] == true})).collect::<Vec<_>>());
                line["sta"] = json!(arr(&v, "sta").iter().map(|x| json!({"ex": x["ex"], "a": x["a"], "nx": x["nx"],
                    "ok": x["map_a"] == x["a"] && x["balance"] == json!(1000 + 10 * x["ex"].as_i64().unwrap_or(0) + x["a"].as_i64().unwrap_or(0))})).collect::<Vec<_>>());
                line["conn"] = v["conn"].clone();
            }
            Err(p) => line["panic"] = json!(format!("engine state: {p}")),
        }
        // mock links on a seeded subset of the exchanges whose instruments are all spot
        let linkable: Vec<i64> = ix.exchanges().iter().map(|k| ex_rank(k.value)).filter(|r| {
            ix.instruments().iter().all(|k| ex_rank(k.value.exchange.value) != *r || matches!(k.value.kind, InstrumentKind::Spot))
        }).collect();
        let linked: Vec<i64> = linkable.iter().enumerate().filter(|(p, _)| link_mask >> p & 1 == 1).map(|(_, r)| *r).collect();
        match project_exec_tx(rt, &ix, &linked) {
            Ok(t) => line["tx"] = json!({"l": linked, "t": t}),
            Err(p) => line["panic"] = json!(format!("execution builder: {p}")),
        }
    }
    let froms: Vec<ExchangeId> = ix.exchanges().iter().map(|k| k.value).collect();
    line["maps"] = json!(ix.exchanges().iter().map(|k| project_map(rt, &ix, k.value, &froms, focus == "C04")).collect::<Vec<_>>());
    line
}

// ------------------------------------------------------------------------------------------------
pub fn runtime() -> tokio::runtime::Runtime {
    tokio::runtime::Builder::new_current_thread().enable_time().start_paused(true).build().expect("tokio runtime")
}

pub fn main(focus: &str) {
    // panics inside spawned manager tasks are data; everything else is reported as usual
    let default_hook = std::panic::take_hook();
    std::panic::set_hook(Box::new(move |info| {
        if !QUIET.load(Ordering::SeqCst) { default_hook(info); }
    }));
    let args = Args::parse();
    let rt = runtime();
    let mut out = Out::create(args.req("out"));
    match args.cmd.as_str() {
        "replay" => {
            let scenarios = read_ndjson(args.req("scenarios"));
            let (mut failed, mut counts) = (0usize, BTreeMap::<String, u64>::new());
            for (n, scn) in scenarios.iter().enumerate() {
                // a panic of the code under test outside the places where it is expected is a finding too
                let rep = catch(|| if focus == "C11" { check_c11(scn, &rt) } else { check_c04(scn, &rt) }).unwrap_or_else(|p| {
                    QUIET.store(false, Ordering::SeqCst);
                    let mut rep = Report::default();
                    rep.fail("panic", format!("the code under test panicked: {p}"));
                    rep
                });
                for (k, v) in &rep.counts {
                    // aggregate per function, not per argument
                    let mut key = String::new();
                    let mut depth = 0;
                    for ch in k.chars() {
                        match ch {
                            '[' => depth += 1,
                            ']' => depth -= 1,
                            '(' | ':' if depth == 0 => break,
                            c if depth == 0 => key.push(c),
                            _ => {}
                        }
                    }
                    let key = key.trim().to_string();
                    *counts.entry(key).or_insert(0) += v;
                }
                if !rep.errors.is_empty() { failed += 1; }
                out.line(&json!({"scn": n, "ok": rep.errors.is_empty(), "errors": rep.errors,
                                 "defs": defs_of(scn).iter().map(|d| d["id"].clone()).collect::<Vec<_>>()}));
            }
            out.finish();
            println!("{}", json!({"focus": focus, "scenarios": scenarios.len(), "failed": failed,
                                  "comparisons": counts.values().sum::<u64>(), "comparisons_by_entry_point": counts}));
        }
        "trace" => {
            let mut rng = rng(args.u64("seed", 1));
            let collections: Vec<Vec<Value>> = match args.get("collections") {
                Some(f) => read_ndjson(f).iter().map(|c| defs_of(c).clone()).collect(),
                None => (0..args.usize("n", 200)).map(|_| random_collection(&mut rng)).collect(),
            };
            let mut exchanges_seen = BTreeMap::<usize, u64>::new();
            for defs in &collections {
                let line = trace_line(defs, &rt, rng.random_range(0..16), focus);
                *exchanges_seen.entry(arr(&line, "ex").len()).or_insert(0) += 1;
                out.line(&line);
            }
            out.finish();
            println!("{}", json!({"focus": focus, "collections": collections.len(), "collections_by_number_of_exchanges": exchanges_seen}));
        }
        c => usage(&format!("unknown command {c}")),
    }
}
