//! C17 conformance driver: see `src/stats_driver.rs` (shared by c16 / c17 / c18).
#[path = "../stats_driver.rs"]
mod stats_driver;

fn main() {
    stats_driver::main_for("C17")
}
