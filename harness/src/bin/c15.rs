//! C15 conformance driver: see `src/position_drv.rs` (shared with the other Position property).
#[path = "../position_drv.rs"]
mod position_drv;

fn main() {
    position_drv::main()
}
