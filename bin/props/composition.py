"""The REAL composition (SystemBuilder: engine + TWO exchanges, each with its own request channel, ExecutionManager and
MockExchange behind a MockExecution client + merged account feed, HistoricalClock, balances seeded through the builder) driven by
harness/src/bin/system.rs and validated against spec/BarterSystem.tla (requests answered exactly once,
in flight => resolved at quiescence, the disconnect notice of a killed execution link) and
spec/Freshness.tla (seeded and exchange-delivered balances). One set of runs, several verdicts:
each property reports only its own tags."""
import json

C07_TAGS = {"request_never_answered", "answer_without_request", "in_flight_never_resolved"}
C14_TAGS = {"link_down_notice", "link_down_count", "conn_view"}
# an account event that comes back in the name of another exchange than the one the request was addressed to
C04_TAGS = {"wrong_exchange"}
# the System API hands exactly the commands it was given to the engine, in order (cancel-orders / close-positions with their filter)
C19_TAGS = {"command_fidelity"}


def run(ctx, own_tags, runs=None, fresh=False):
    ctx.build("system")
    runs = runs or (6 if ctx.quick else 60)
    merged, merged_f = ctx.path("trace_system.ndjson"), ctx.path("trace_system_fresh.ndjson")
    n_lines = 0
    with open(merged, "w") as f, open(merged_f, "w") as ff:
        for k in range(runs):
            out, outf = ctx.path("trace_system_%d.ndjson" % k), ctx.path("trace_system_fresh_%d.ndjson" % k)
            ctx.harness("system", "record", "--seed", ctx.seed * 100 + k, "--rounds", 80 if ctx.quick else 120,
                        "--latency", k % 4, "--out", out, "--fresh-out", outf, timeout=300)
            f.write(json.dumps({"a": "Reset", "run": k}) + "\n")
            for l in ctx.read_trace(out):
                f.write(json.dumps(l) + "\n")
                n_lines += 1
            for l in ctx.read_trace(outf):
                l["run"] = k
                ff.write(json.dumps(l) + "\n")
    rp = {"kind": "system", "seed": ctx.seed}
    if own_tags:
        # (an anomaly that belongs to another property's verdict is not this check's business)
        lines = [l for l in ctx.read_trace(merged) if not (l.get("a") == "Anomaly" and l.get("tag") and l["tag"] not in own_tags)]
        clean = ctx.path("clean_system.ndjson")
        found, keep = ctx.screen_anomalies(lines, clean, lambda l: l.get("anomaly"))
        for n, d, seg in found:
            tag = lines[n - 1].get("tag")
            ctx.violation("composition:anomaly" + (":" + tag if tag else ""), "real system run: %s [line %d]" % (d, n), dict(rp, run=seg[0].get("run")))
        n, bad, _ = ctx.tlc_trace("Trace_BarterSystem", "Trace_BarterSystem.cfg", clean)
        foreign = 0
        for b in bad:
            tags = set(ctx.last_tags.get(b, ["unconsumed"]))
            own = tags & (set(own_tags) | {"unconsumed"})
            if not own:
                foreign += 1      # e.g. engine_view: the engine's own order bookkeeping (C01 / C03)
                continue
            seg = ctx.segment(keep, b)
            ctx.violation("composition:" + "+".join(sorted(own)),
                          "real system (SystemBuilder + MockExchange): %s at %s - not a behaviour of BarterSystem.tla [run %s, line %d]" % (
                              sorted(own), json.dumps(keep[b - 1]), seg[0].get("run"), b), dict(rp, run=seg[0].get("run")))
        ctx.cov["composition"] = {"runs": runs, "lines": n_lines, "rejected_lines_owned_by_other_properties": foreign}
    if fresh:
        lines = ctx.read_trace(merged_f)
        clean = ctx.path("clean_system_fresh.ndjson")
        found, keep = ctx.screen_anomalies(lines, clean, lambda l: l.get("anomaly"))
        for n, d, seg in found:
            ctx.violation("composition:seeded-balance", "real system run: %s [line %d]" % (d, n), dict(rp, run=seg[0].get("run")))
        n, bad, _ = ctx.tlc_trace("Trace_Freshness", "Trace_Freshness_sys.cfg", clean)
        for b in bad:
            line = keep[b - 1]
            ctx.violation("composition:balance:" + "+".join(ctx.last_tags.get(b, ["unconsumed"])),
                          "real system: balance messages %s -> engine holds %s: not allowed by Freshness [run %s, line %d]" % (
                              json.dumps(line.get("ms")), json.dumps(line.get("post")), line.get("run"), b), dict(rp, run=line.get("run")))
        ctx.cov["composition_freshness"] = {"runs": runs, "lines": len(keep)}
    ctx.cov["traces_validated_against_impl"] += runs
