------------------------- MODULE Gen_OrderLifecycle -------------------------
(* Scenario generation for the conformance harness: behaviours of            *)
(* OrderLifecycle printed as JSON, one line per behaviour.                   *)
(*  GSpec  (exhaustive, AllPre): every state of one id x every event -        *)
(*         transition coverage of the decision tables.                       *)
(*  GSpecR (simulation): long random behaviours over all ids; the event is   *)
(*         drawn with RandomElement so a step has one successor per allowed  *)
(*         outcome instead of one per possible event.                        *)
EXTENDS OrderLifecycle, Sequences, Json
CONSTANTS MaxLen, AllPre
VARIABLES init, hist, done

gvars == <<orders, last, init, hist, done>>

GInit == /\ orders \in (IF AllPre
                        THEN {[c \in CID |-> IF c = "c1" THEN s ELSE U] : s \in OrderStates}
                        ELSE {[c \in CID |-> U]})
         /\ last = NoEvent
         /\ init = orders
         /\ hist = <<>>
         /\ done = FALSE

GStep == /\ ~done /\ Len(hist) < MaxLen
         /\ Next
         /\ hist' = Append(hist, last')
         /\ UNCHANGED <<init, done>>

GStepR == /\ ~done /\ Len(hist) < MaxLen
          \* (bound through singleton sets: a LET would re-draw at every reference)
          /\ \E c \in {RandomElement(CID)} : \E e \in {RandomElement(EventsFor(c, orders[c]))} : Apply(e)
          /\ hist' = Append(hist, last')
          /\ UNCHANGED <<init, done>>

GFinish == /\ ~done /\ Len(hist) = MaxLen
           /\ done' = TRUE
           /\ UNCHANGED <<orders, last, init, hist>>

GSpec  == GInit /\ [][GStep \/ GFinish]_gvars
GSpecR == GInit /\ [][GStepR \/ GFinish]_gvars

Emit == done => PrintT(<<"SCN", ToJson([init |-> init, evs |-> hist])>>)
=============================================================================
