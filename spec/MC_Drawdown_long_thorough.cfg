SPECIFICATION Spec
CONSTANTS
  Values = {1, 2, 3, 4}
  NegMag = {2}
  Gaps = {2}
  MaxLen = 6
INVARIANTS TypeOK RunIsRef ReadIsCurrent PeakToTrough Recovery OnePerPeak NoneIffMonotone MaxIsLargest ClassicMDD
PROPERTIES ReadingIsPure
CHECK_DEADLOCK FALSE
