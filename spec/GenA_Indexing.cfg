SPECIFICATION GSpec
CONSTANTS
  Universe <- U7
  MaxLen = 4
INVARIANTS Dense Unique Inverse Resolve OrderFree Sorted Aligned RoundTrip OnlyOwn Emit
CHECK_DEADLOCK FALSE
