------------------------------ MODULE Reconnect ------------------------------
(***************************************************************************)
(* Reconnecting streams of barter-data (C12).                              *)
(*                                                                         *)
(* Code transcribed:                                                       *)
(*   barter-data/src/streams/reconnect/stream.rs                           *)
(*     init_reconnecting_stream   first init().await? ; then               *)
(*                                repeat_with(init).then(identity)         *)
(*                                            -> FirstInitFail, InitOk,    *)
(*                                               InitFail, InitPend        *)
(*     with_reconnect_backoff     Ok  => reset_backoff                     *)
(*                                Err => sleep(current); multiply_backoff  *)
(*                                            -> InitOk / InitFail,        *)
(*                                               WaitElapsed               *)
(*     with_termination_on_error  map_while: Ok / non-terminal Err pass,   *)
(*                                terminal Err ends the inner stream       *)
(*                                            -> EmitItem, NonTerminalErr, *)
(*                                               TerminalErr               *)
(*     with_reconnection_events   inner.map(Item).chain(once(Reconnecting))*)
(*                                flattened   -> the notice of End /       *)
(*                                               TerminalErr               *)
(*     with_error_handler         Err => op(error), filtered out           *)
(*                                            -> NonTerminalErr, via       *)
(*   barter-data/src/streams/consumer.rs  init_market_stream composes them *)
(*   in exactly this order.                                                *)
(*                                                                         *)
(* Input (fixed by Init): `script` = the finite list of outcomes of the    *)
(* successive calls of `init`, after which `init` pends for ever;          *)
(*   outcome = [ok, lat, ed, body]   lat = how long the call takes,        *)
(*                                   ed  = silence before the connection   *)
(*                                         ends, body = what it delivers   *)
(*   element = [k \in {"Item","Err","Term"}, v, d]                         *)
(*             v = unique value, d = silence before the element            *)
(* `policy` = [b0, mult, max] (ReconnectionBackoffPolicy), `mode` = whether*)
(* non-terminal errors are emitted ("stream") or handed to the error       *)
(* handler ("handler").                                                    *)
(*                                                                         *)
(* Back-off arithmetic exactly as ReconnectionState: the wait after a      *)
(* failure is the *current* value, which starts at b0, becomes             *)
(* min(current*mult, max) after every failure and b0 after every success.  *)
(* For b0 <= max and mult >= 1 (assumed) this is the closed form           *)
(* min(b0*mult^(n-1), max) after the n-th consecutive failure - invariant  *)
(* `BackoffClosedForm` / `BackoffTimes`.                                   *)
(*                                                                         *)
(* Deliberately nondeterministic (the property leaves it open): the        *)
(* instant at which an available element is delivered - any t not earlier  *)
(* than its availability (constant Slack; the combinators add no delay of  *)
(* their own in today's code, slack 0).  Fixed by the property and exact   *)
(* here: the waits between a failed init and the next attempt, and the     *)
(* immediate attempt after a connection ended (at the instant of its       *)
(* notice).                                                                *)
(***************************************************************************)
EXTENDS Naturals, Sequences, FiniteSets, TLC

CONSTANTS MaxOutcomes,   \* scripts have at most this many outcomes
          MaxBody,       \* a body has at most this many elements
          MaxElems,      \* a script has at most this many elements in all
          Lats,          \* init latencies
          Gaps,          \* silences before an element / before the end
          Policies,      \* set of [b0, mult, max]
          Modes,         \* subset of {"stream", "handler"}
          Slack          \* extra delivery delays explored (model checking)

ASSUME \A p \in Policies : p.b0 <= p.max /\ p.mult >= 1

VARIABLES script, policy, mode,   \* input, never changes
          phase,    \* "Init" about to call init | "Conn" a connection is live | "Wait" backing off
                    \* "Pend" init pends for ever | "NoStream" the first init failed: an error, no stream
          pos,      \* outcomes consumed so far (= index of the live connection in "Conn")
          k,        \* elements of the live connection's body consumed
          cur,      \* ReconnectionState.backoff_ms_current
          fails,    \* ghost: consecutive failures since the last success
          now,      \* virtual time (ms)
          wake,     \* end of the running back-off sleep
          out,      \* what the consumer (and the error handler) observed, in order
          calls,    \* instants at which init was called
          waits     \* ghost: the sleeps scheduled so far

input == <<script, policy, mode>>
vars  == <<script, policy, mode, phase, pos, k, cur, fails, now, wake, out, calls, waits>>

Min(a, b) == IF a <= b THEN a ELSE b
Last(s)   == s[Len(s)]

(***************************************************************************)
(* The bounded set of scripts (model checking / scenario generation).      *)
(***************************************************************************)
Kinds == {"Item", "Err", "Term"}

RECURSIVE SeqsUpTo(_, _)
SeqsUpTo(S, n) == IF n = 0 THEN {<<>>}
                  ELSE LET P == SeqsUpTo(S, n - 1)
                       IN P \cup {Append(s, x) : s \in {p \in P : Len(p) = n - 1}, x \in S}

ElemShapes    == {[k |-> kd, d |-> d, v |-> 0] : kd \in Kinds, d \in Gaps}
OutcomeShapes == {[ok |-> FALSE, lat |-> l, ed |-> 0, body |-> <<>>] : l \in Lats}
            \cup {[ok |-> TRUE, lat |-> l, ed |-> e, body |-> b] :
                      l \in Lats, e \in Gaps, b \in SeqsUpTo(ElemShapes, MaxBody)}

RECURSIVE ShapesWith(_, _)      \* n outcomes and m elements left
ShapesWith(n, m) ==
  IF n = 0 THEN {<<>>}
  ELSE {<<>>} \cup UNION {{<<o>> \o s : s \in ShapesWith(n - 1, m - Len(o.body))} :
                               o \in {x \in OutcomeShapes : Len(x.body) <= m}}

RECURSIVE SumLen(_, _)
SumLen(s, j) == IF j = 0 THEN 0 ELSE SumLen(s, j - 1) + Len(s[j].body)

\* every element gets a value of its own: 1, 2, 3 ... in script order
Numbered(s) == [j \in 1..Len(s) |->
                  [s[j] EXCEPT !.body = [i \in 1..Len(s[j].body) |->
                      [s[j].body[i] EXCEPT !.v = SumLen(s, j - 1) + i]]]]

Scripts == {Numbered(s) : s \in ShapesWith(MaxOutcomes, MaxElems)}

(***************************************************************************)
(* Behaviour.                                                              *)
(***************************************************************************)
Init == /\ script \in Scripts
        /\ policy \in Policies
        /\ mode \in Modes
        /\ phase = "Init" /\ pos = 0 /\ k = 0
        /\ cur = policy.b0 /\ fails = 0
        /\ now = 0 /\ wake = 0
        /\ out = <<>> /\ calls = <<>> /\ waits = <<>>

Upcoming == script[pos + 1]              \* the outcome of the next call of init
Body     == script[pos].body             \* of the live connection
Elem     == Body[k + 1]

Entry(kd, v, t, via) == [k |-> kd, v |-> v, at |-> t, via |-> via, c |-> pos]

\* init_reconnecting_stream: `init_stream().await?` - the first call fails: the caller gets
\* the error and no stream exists.
FirstInitFail ==
    /\ phase = "Init" /\ pos = 0 /\ pos < Len(script) /\ ~Upcoming.ok
    /\ calls' = Append(calls, now)
    /\ now' = now + Upcoming.lat
    /\ pos' = pos + 1
    /\ phase' = "NoStream"
    /\ UNCHANGED <<input, k, cur, fails, wake, out, waits>>

\* scan arm `Ok(stream)`: reset_backoff, the connection goes live.
InitOk ==
    /\ phase = "Init" /\ pos < Len(script) /\ Upcoming.ok
    /\ calls' = Append(calls, now)
    /\ now' = now + Upcoming.lat
    /\ pos' = pos + 1 /\ k' = 0
    /\ phase' = "Conn"
    /\ cur' = policy.b0 /\ fails' = 0
    /\ UNCHANGED <<input, wake, out, waits>>

\* scan arm `Err(error)`: generate_sleep_future() with the current value, then
\* multiply_backoff(); the error itself is filtered out (nothing is emitted).
InitFail ==
    /\ phase = "Init" /\ 0 < pos /\ pos < Len(script) /\ ~Upcoming.ok
    /\ calls' = Append(calls, now)
    /\ now' = now + Upcoming.lat
    /\ pos' = pos + 1
    /\ phase' = "Wait"
    /\ wake' = now' + cur
    /\ waits' = Append(waits, cur)
    /\ cur' = Min(cur * policy.mult, policy.max)
    /\ fails' = fails + 1
    /\ UNCHANGED <<input, k, out>>

\* the sleep elapses; only then is init polled again.
WaitElapsed ==
    /\ phase = "Wait"
    /\ now' = wake
    /\ phase' = "Init"
    /\ UNCHANGED <<input, pos, k, cur, fails, wake, out, calls, waits>>

\* the script is exhausted: init is called and never returns.
InitPend ==
    /\ phase = "Init" /\ pos = Len(script)
    /\ calls' = Append(calls, now)
    /\ phase' = "Pend"
    /\ UNCHANGED <<input, pos, k, cur, fails, now, wake, out, waits>>

\* map_while arm `Ok(item) => Some(Ok(item))`, then Event::Item.
EmitItem(t) ==
    /\ phase = "Conn" /\ k < Len(Body) /\ Elem.k = "Item"
    /\ t >= now + Elem.d
    /\ now' = t
    /\ out' = Append(out, Entry("Item", Elem.v, t, "stream"))
    /\ k' = k + 1
    /\ UNCHANGED <<input, phase, pos, cur, fails, wake, calls, waits>>

\* map_while arm `Err(error) => Some(Err(error))`: passed through as Event::Item(Err) or, with
\* with_error_handler, handed to the handler; the connection stays live.
NonTerminalErr(t) ==
    /\ phase = "Conn" /\ k < Len(Body) /\ Elem.k = "Err"
    /\ t >= now + Elem.d
    /\ now' = t
    /\ out' = Append(out, Entry("Err", Elem.v, t, IF mode = "handler" THEN "handler" ELSE "stream"))
    /\ k' = k + 1
    /\ UNCHANGED <<input, phase, pos, cur, fails, wake, calls, waits>>

\* map_while arm `Err(error) if is_terminal(&error) => None`: the inner stream ends here (the
\* rest of the body is never delivered), the chained notice follows.
TerminalErr(t) ==
    /\ phase = "Conn" /\ k < Len(Body) /\ Elem.k = "Term"
    /\ t >= now + Elem.d
    /\ now' = t
    /\ out' = Append(out, Entry("Notice", 0, t, "stream"))
    /\ k' = k + 1
    /\ phase' = "Init"
    /\ UNCHANGED <<input, pos, cur, fails, wake, calls, waits>>

\* the connection ends by itself: the chained notice.
End(t) ==
    /\ phase = "Conn" /\ k = Len(Body)
    /\ t >= now + script[pos].ed
    /\ now' = t
    /\ out' = Append(out, Entry("Notice", 0, t, "stream"))
    /\ phase' = "Init"
    /\ UNCHANGED <<input, pos, k, cur, fails, wake, calls, waits>>

Deliver == \E x \in Slack :
              \/ EmitItem(now + Elem.d + x)
              \/ NonTerminalErr(now + Elem.d + x)
              \/ TerminalErr(now + Elem.d + x)

Ends == \E x \in Slack : End(now + script[pos].ed + x)

Next == FirstInitFail \/ InitOk \/ InitFail \/ WaitElapsed \/ InitPend \/ Deliver \/ Ends

Spec == Init /\ [][Next]_vars /\ WF_vars(Next)

(***************************************************************************)
(* The property (C12), as formulas over the observations.                  *)
(***************************************************************************)
TypeOK == /\ phase \in {"Init", "Conn", "Wait", "Pend", "NoStream"}
          /\ pos \in 0..Len(script)
          /\ phase = "Conn" => pos >= 1 /\ script[pos].ok /\ k \in 0..Len(Body)
          /\ Len(calls) = (IF phase = "Pend" THEN pos + 1 ELSE pos)

OkConn(j) == script[j].ok
Live(j)   == j = pos /\ phase = "Conn"

FirstTerm(b) == IF \E i \in 1..Len(b) : b[i].k = "Term"
                THEN CHOOSE i \in 1..Len(b) : b[i].k = "Term" /\ \A h \in 1..(i - 1) : b[h].k # "Term"
                ELSE 0
\* what a connection must deliver: its body up to its end or first terminal error
Cut(b) == IF FirstTerm(b) = 0 THEN b ELSE SubSeq(b, 1, FirstTerm(b) - 1)
Due(j) == IF Live(j) THEN SubSeq(script[j].body, 1, k) ELSE Cut(script[j].body)

Shown(e)  == [k |-> e.k, v |-> e.v, via |-> IF e.k = "Err" /\ mode = "handler" THEN "handler" ELSE "stream"]
Strip(o)  == [k |-> o.k, v |-> o.v, via |-> o.via]
Notice    == [k |-> "Notice", v |-> 0, via |-> "stream"]
OutOf(j)  == SelectSeq(out, LAMBDA o : o.c = j)
Seen(j)   == [i \in 1..Len(OutOf(j)) |-> Strip(OutOf(j)[i])]
Want(j)   == [i \in 1..Len(Due(j)) |-> Shown(Due(j)[i])] \o (IF Live(j) THEN <<>> ELSE <<Notice>>)

\* every item (and non-terminal error) of every connection once, in order, up to its end or
\* first terminal error, then its notice ...
Conserve == \A j \in 1..pos : OkConn(j) => Seen(j) = Want(j)
\* ... and nothing of connection j+1 before the notice of j.
Ordered  == \A i \in 1..(Len(out) - 1) :
               /\ out[i].c <= out[i + 1].c
               /\ out[i].k = "Notice" => out[i].c < out[i + 1].c
OneNotice == \A j \in 1..pos : OkConn(j) =>
               Cardinality({i \in 1..Len(out) : out[i].c = j /\ out[i].k = "Notice"}) = (IF Live(j) THEN 0 ELSE 1)
\* a non-terminal error is observed (stream or handler) and the elements after it still arrive
ErrPassThrough == \A j \in 1..pos : OkConn(j) /\ ~Live(j) =>
               \A i \in 1..Len(Cut(script[j].body)) :
                   \E h \in 1..Len(out) : out[h].c = j /\ out[h].v = Cut(script[j].body)[i].v
                                          /\ out[h].k = Cut(script[j].body)[i].k
\* failed attempts deliver nothing, not even a notice
FailedSilent == \A i \in 1..Len(out) : OkConn(out[i].c)
\* delivery never runs ahead of the connection
Causal == \A i \in 1..Len(out) : calls[out[i].c] + script[out[i].c].lat <= out[i].at

\* Back-off: closed form of the current value, of every scheduled sleep ...
\* Min(b0 * mult^n, max), computed so that no intermediate leaves TLC's 32-bit integers however long
\* the failure run is (b0 * mult^n itself overflows after a few dozen failures; the law saturates
\* at max long before): "multiply up to the configured maximum"
RECURSIVE SatPow(_)
SatPow(n) == IF n = 0 THEN Min(policy.b0, policy.max)
             ELSE LET p == SatPow(n - 1) IN IF p >= policy.max THEN policy.max ELSE Min(p * policy.mult, policy.max)
BackoffClosedForm == /\ cur = (IF fails = 0 THEN policy.b0 ELSE SatPow(fails))
                     /\ fails = 0 => cur = policy.b0
RECURSIVE FailRun(_)            \* consecutive failures ending with outcome j
FailRun(j) == IF j = 0 \/ script[j].ok THEN 0 ELSE 1 + FailRun(j - 1)
ExpWait(j) == SatPow(FailRun(j) - 1)
NoticeAt(j) == LET i == CHOOSE i \in 1..Len(out) : out[i].c = j /\ out[i].k = "Notice" IN out[i].at
\* ... and of the instants at which init is called: after a failure exactly the sleep later,
\* after an ended connection at the instant of its notice.
BackoffTimes == \A i \in 2..Len(calls) :
                   IF script[i - 1].ok
                   THEN calls[i] = NoticeAt(i - 1)
                   ELSE calls[i] = calls[i - 1] + script[i - 1].lat + ExpWait(i - 1)
WaitsClosedForm == /\ Len(waits) = Cardinality({j \in 2..pos : ~script[j].ok})
                   /\ \A j \in 2..pos : ~script[j].ok =>
                          waits[Cardinality({h \in 2..j : ~script[h].ok})] = ExpWait(j)

\* the first init failing is an error, not a stream
FirstFailure == (phase = "NoStream") <=> (pos >= 1 /\ ~script[1].ok)
NoStreamSilent == phase = "NoStream" => out = <<>> /\ Len(calls) = 1

\* the stream never ends by itself: no action ends it; the only quiescent situations are "init
\* pends" and "no stream was ever created", they are final, and every script is worked off
\* completely (liveness under weak fairness).
NeverEnds == [][(phase \in {"Pend", "NoStream"}) => (vars' = vars)]_vars
Progress  == <>(phase \in {"Pend", "NoStream"})
Exhausted == phase = "Pend" => pos = Len(script) /\ \A j \in 1..pos : OkConn(j) => ~Live(j)
=============================================================================
