SPECIFICATION Spec
CONSTANTS
  PRICE = {1, 2}
  AMOUNT = {0, 1}
  SEQS = {1}
  MaxLong = 2
  MaxShort = 0
  MaxSnap = 1
  StableUpTo = 1
INVARIANTS TypeOK Strict DerivedOK
PROPERTIES SeqIsLast SnapshotReplaces UpdatePointwise LastWins
CHECK_DEADLOCK FALSE
