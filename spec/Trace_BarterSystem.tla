-------------------------- MODULE Trace_BarterSystem --------------------------
(* Trace validation of the REAL composition (SystemBuilder: engine + request    *)
(* channel + ExecutionManager + MockExchange + account feed) against            *)
(* BarterSystem.tla.  The engine side is observed through the audit stream and   *)
(* the strategy (which is handed the engine state after every event):           *)
(*   {"a":"SendOpen","c":cid,"x":exchange}  the engine reported an open request   *)
(*        as sent; x = the exchange of the instrument the driver addressed       *)
(*   {"a":"SendCancel","c":cid}    ... a cancel request as sent                  *)
(*   {"a":"Process","c":cid,"kind":k,"x":exchange}  the engine processed an       *)
(*        account event about cid stamped with exchange x, k in open_ok |        *)
(*        open_filled | open_failed | cancel_ok | cancel_err                     *)
(*   {"a":"Item","x":exchange}     the engine processed an account item of        *)
(*        exchange x (the first one is the client's account snapshot)             *)
(*   {"a":"State","post":{cid: kind},"conn":{exchange: bool},"global":bool}      *)
(*        engine view afterwards: every order, each exchange's account-link      *)
(*        health ("market": the market-data links, not modelled here), global    *)
(*        connectivity - healthy exactly when every link of both kinds is        *)
(*   {"a":"LinkDown","x":exchange}  the engine processed an account-stream        *)
(*        disconnect notice naming x (the driver kills exchange tasks one by one)  *)
(*   {"a":"LinkDownCount","killed":[exchange..]}  end of run: the links the driver *)
(*        killed - each must have been noticed exactly once                       *)
(*   {"a":"Quiescent"}             the run was left alone long enough: nothing   *)
(*        may be outstanding and no order may still be in flight                 *)
(* The execution manager and the exchange client are NOT observed.  Their steps  *)
(* are placed just in time: the account event the engine processes must be the   *)
(* answer to the OLDEST outstanding request of that kind for that id, i.e. the   *)
(* composition  MgrAccept^j . (ClientResponds | TimeoutFires)(r) . EngineProcess *)
(* (requests are accepted in channel order, answers may overtake one another).   *)
(* An account event that answers no outstanding request, a request that is       *)
(* answered twice, or one that is never answered (Quiescent) is rejected.        *)
EXTENDS BarterSystem, Json, IOUtils

Log == ndJsonDeserialize(IOEnv.TRACE)

VARIABLES l, bad
tvars == <<vars, l, bad>>

TInit == Init /\ l = 1 /\ bad = <<>>
Note(tags) == bad' = IF tags = {} THEN bad ELSE Append(bad, <<l, tags>>)

ReqKindOf(k) == IF k \in {"open_ok", "open_filled", "open_failed"} THEN "open" ELSE "cancel"
ChanSet == UNION {{chan[x][j] : j \in 1..Len(chan[x])} : x \in EXCH}
Outstanding(c, rk) == {r \in ChanSet \cup pending : r.c = c /\ r.k = rk}
Oldest(S) == CHOOSE r \in S : \A q \in S : r.n <= q.n
IndexIn(r) == CHOOSE j \in 1..Len(chan[r.x]) : chan[r.x][j] = r
KnownX(x) == x \in EXCH

TSendOpen == /\ Log[l].a = "SendOpen"
             /\ LET c == Log[l].c  x == Log[l].x IN
                IF KnownX(x) /\ orders[c] = "U" /\ sends[c] < MaxSends /\ home[c] \in {NoExch, x} /\ link[x] # "dead"
                THEN EngineSendOpen(c, x) /\ Note({})
                ELSE \* an id re-used while tracked / beyond the modelled bound: outside the model, adopt
                     /\ KnownX(x)
                     /\ orders' = [orders EXCEPT ![c] = "OIF"]
                     /\ home' = [home EXCEPT ![c] = x]
                     /\ chan' = [chan EXCEPT ![x] = Append(@, Req("open", c, sends[c] + 1, x))]
                     /\ sends' = [sends EXCEPT ![c] = @ + 1]
                     /\ UNCHANGED <<pending, feed, answered, link, conn>>
                     /\ Note({"send_open_outside_model"})
TSendCancel == /\ Log[l].a = "SendCancel"
               /\ LET c == Log[l].c IN
                  IF sends[c] > 0 /\ sends[c] < MaxSends /\ link[home[c]] # "dead"
                  THEN EngineSendCancel(c) /\ Note({})
                  ELSE /\ UNCHANGED vars
                       /\ Note({"send_cancel_outside_model"})

\* MgrAccept^j . Answer(r) . EngineProcess, as one step
TProcess == /\ Log[l].a = "Process"
            /\ LET c == Log[l].c  k == Log[l].kind  x == Log[l].x  S == Outstanding(c, ReqKindOf(k)) IN
               \* an account item proves the link of the exchange it is stamped with alive
               /\ conn' = [y \in EXCH |-> IF y = x THEN "up" ELSE conn[y]]
               /\ IF S = {}
                  THEN \* an account event that answers nothing outstanding: a second answer / a phantom
                       /\ orders' = [orders EXCEPT ![c] = After(@, k)]
                       /\ UNCHANGED <<home, chan, pending, feed, sends, answered, link>>
                       /\ Note({"answer_without_request"})
                  ELSE LET r == Oldest(S)
                           j == IF r \in ChanSet THEN IndexIn(r) ELSE 0
                           accepted == {chan[r.x][i] : i \in 1..j}
                       IN /\ chan' = [chan EXCEPT ![r.x] = SubSeq(@, j + 1, Len(@))]
                          /\ pending' = (pending \cup accepted) \ {r}
                          /\ answered' = (r :> 1) @@ answered
                          /\ orders' = [orders EXCEPT ![c] = After(@, k)]
                          /\ UNCHANGED <<home, feed, sends, link>>
                          \* the answer must come back in the name of the exchange the request went to
                          \* (the event's own stamp and the exchange inside the order key it carries: both)
                          /\ Note(IF x = r.x /\ Log[l].key_x = r.x THEN {} ELSE {"wrong_exchange"})
MarketUp(r, x) == x \in DOMAIN r.market /\ r.market[x]
ConnOf(r) == [x \in EXCH |-> IF x \in DOMAIN r.conn /\ r.conn[x] THEN "up" ELSE "down"]
TState == /\ Log[l].a = "State"
          /\ Note((IF \A c \in CID : orders[c] = (IF c \in DOMAIN Log[l].post THEN Log[l].post[c] ELSE "U")
                   THEN {} ELSE {"engine_view"})
                  \* C14 in the composition: per-exchange account-link health as the notices and items
                  \* imply, global connectivity healthy exactly when every link is
                  \cup (IF conn = ConnOf(Log[l]) /\ (Log[l].global <=> \A x \in EXCH : ConnOf(Log[l])[x] = "up" /\ MarketUp(Log[l], x))
                        THEN {} ELSE {"conn_view"}))
          \* adopt the observed view so that one divergence is reported once
          /\ orders' = [c \in CID |-> IF c \in DOMAIN Log[l].post THEN Log[l].post[c] ELSE "U"]
          /\ conn' = ConnOf(Log[l])
          /\ UNCHANGED <<home, chan, pending, feed, sends, answered, link>>
TQuiescent == /\ Log[l].a = "Quiescent"
              /\ Note((IF ChanSet = {} /\ pending = {} THEN {} ELSE {"request_never_answered"})
                      \cup (IF \A c \in CID : ~InFlight(c) THEN {} ELSE {"in_flight_never_resolved"}))
              /\ UNCHANGED vars

\* a new run of the real system starts
TReset == /\ Log[l].a = "Reset"
          /\ orders' = [c \in CID |-> "U"] /\ home' = [c \in CID |-> NoExch]
          /\ chan' = [x \in EXCH |-> <<>>] /\ pending' = {} /\ feed' = <<>>
          /\ sends' = [c \in CID |-> 0] /\ answered' = [r \in {} |-> 0]
          /\ link' = [x \in EXCH |-> "connecting"] /\ conn' = [x \in EXCH |-> "down"]
          /\ UNCHANGED bad

\* an account item of exchange x: (Connect(x) .) EngineProcess
TItem == /\ Log[l].a = "Item"
         /\ LET x == Log[l].x IN
            /\ KnownX(x)
            /\ link' = [link EXCEPT ![x] = IF @ = "connecting" THEN "up" ELSE @]
            /\ conn' = [conn EXCEPT ![x] = "up"]
            /\ UNCHANGED <<orders, home, chan, pending, feed, sends, answered>>
            \* a dead link delivers nothing any more
            /\ Note(IF link[x] = "dead" THEN {"item_from_dead_link"} ELSE {})

\* the driver killed an exchange's task (only once that link was quiet): KillLink(x) . EngineProcess,
\* as one step.  Exactly one disconnect notice may reach the engine per killed link, naming THAT
\* exchange; the engine's view (next State line) must then show that account link - and global
\* connectivity - down, the other exchange's link untouched.
TLinkDown == /\ Log[l].a = "LinkDown"
             /\ LET x == Log[l].x IN
                IF KnownX(x) /\ link[x] = "up"
                THEN /\ link' = [link EXCEPT ![x] = "dead"]
                     /\ conn' = [conn EXCEPT ![x] = "down"]
                     /\ UNCHANGED <<orders, home, chan, pending, feed, sends, answered>>
                     /\ Note(IF Quiet(x) THEN {} ELSE {"link_down_outside_model"})
                ELSE \* a second notice for one death, or a notice naming an exchange that is not there
                     /\ UNCHANGED vars /\ Note({"link_down_notice"})
TLinkDownCount == /\ Log[l].a = "LinkDownCount"
                  /\ LET killed == {Log[l].killed[j] : j \in 1..Len(Log[l].killed)} IN
                     Note(IF \A x \in EXCH : (x \in killed) <=> (link[x] = "dead") THEN {} ELSE {"link_down_count"})
                  /\ UNCHANGED vars

TNext == /\ l <= Len(Log) /\ l' = l + 1
         /\ (TReset \/ TSendOpen \/ TSendCancel \/ TItem \/ TProcess \/ TState \/ TQuiescent \/ TLinkDown \/ TLinkDownCount)
TSpec == TInit /\ [][TNext]_tvars

Done == l = Len(Log) + 1 => PrintT(<<"TRACE_END", ToJson(bad)>>)
Post == PrintT(<<"TRACE_DONE", TLCGet("stats").diameter, Len(Log)>>)
=============================================================================
