SPECIFICATION Spec
CONSTANTS
  PRICE <- PriceNonPos
  QTY = {1, 2}
  FEE <- FeeSigned
  MARK <- MarkNonPos
  MaxFills = 3
INVARIANTS TypeOK SideSize Conservation FeesConserved
PROPERTIES ExitIff Ids QmaxAvg FreshUnreal MarkOnlyUnreal NoPriceStutter PersistIsStutter
VIEW View
CHECK_DEADLOCK FALSE
