SPECIFICATION GSpec
CONSTANTS
  MaxL = 3
  MaxR = 3
  MaxLen = 8
INVARIANT Emit
CHECK_DEADLOCK FALSE
