//! C20 — backtests consume their whole dataset in order and do not affect one another
//! (spec/Backtest.tla, spec/Trace_Backtest.tla).
//!
//! `c20 run --seed S --tier quick|thorough --out trace.ndjson --results results.ndjson`
//!     builds the scenario matrix from the seed and runs every scenario
//! `c20 run --scenarios f.json --out .. --results ..`
//!     runs the scenarios of a JSON file (replay)
//! `c20 plan --seed S --tier T`   prints the scenario matrix
//!
//! Every scenario is ONE call of the real `barter::backtest::run_backtests` on a multi-thread tokio
//! runtime with the scenario's number of worker threads, over
//!   * mode "inmem": the repository's `MarketDataInMemory` shared by all K runs (nothing gated:
//!     only the dataset-consumption clauses are judged - fills may legitimately arrive after
//!     Shutdown, DESIGN C20), or
//!   * mode "gated": the harness `GatedMarketData` (a `BacktestMarketData`): the same shared dataset,
//!     each `stream()` call gets its own tag; the stream holds back its first item until the
//!     initial account snapshot has been processed and the item after every decision point
//!     until every order the run has sent so far is fully answered (response + balance + trade
//!     processed by THAT run's engine). `backtest()`, `SystemBuild::init`,
//!     `shutdown_after_backtest` are untouched; the scenario becomes deterministic.
//!     (Why the FIRST item waits for the snapshot: the mock exchange stamps every balance with the
//!     request time of the wall-clock driven `HistoricalClock`; the first market event re-anchors
//!     that clock at its seed, so an order sent on it before the snapshot is processed gets a
//!     balance stamped OLDER than the snapshot and the engine keeps the snapshot's pre-order
//!     balance - measured once in ~500 concurrent runs, a timing dependence of the scenario.)
//!
//!   * mode "paused": ONE `current_thread` runtime with tokio's clock PAUSED (`start_paused`), over
//!     the harness `SlowMarketData` whose stream sleeps (virtual time) before every item and
//!     before it ends - gaps from a millisecond to hours, days in total, zero wall cost. Any
//!     finite cap on how long `shutdown_after_backtest` waits for the market forwarder makes the
//!     engine stop on a prefix. (HistoricalClock reads `Utc::now`, which is not tokio time - it
//!     merely stamps; nothing in `backtest()` needs a multi-thread runtime.) Judged on the
//!     dataset-consumption clauses.
//!
//! Observation: the engine state type is `EngineState<RecGlobal, RecInst>` - recording data states
//! implemented here (every market event / account event the engine hands them, in order; every
//! in-flight order record). The state lives in the constant arguments and is CLONED per run by
//! `backtest()`, so the recorders are plain values; they leave a run through the run's own
//! strategy object (`ActStrategy`, part of the dynamic arguments), which is handed `&EngineState`
//! after every processed event and copies the new entries into its per-run sink.
//!
//! Output: `--out` one trace segment per run (`Reset` line with the parameters, one line per
//! processed event, `End` with the summary check) for `Trace_Backtest.tla`; `--results` one line
//! per run with the schedule-independent facts (fills, positions, balances, realised PnL, summary
//! digest) that python compares between a concurrent run and the same parameters run alone.
#![recursion_limit = "256"]
use barter::{
    backtest::{
        BacktestArgsConstant, BacktestArgsDynamic,
        market_data::{BacktestMarketData, MarketDataInMemory},
        backtest, run_backtests,
        summary::BacktestSummary,
    },
    engine::{
        Engine, Processor,
        state::{
            EngineState,
            instrument::{data::InstrumentDataState, filter::InstrumentFilter},
            order::in_flight_recorder::InFlightRequestRecorder,
            trading::TradingState,
        },
    },
    error::BarterError,
    risk::DefaultRiskManager,
    statistic::time::Daily,
    strategy::{
        algo::AlgoStrategy,
        close_positions::{ClosePositionsStrategy, close_open_positions_with_market_orders},
        on_disconnect::OnDisconnectStrategy,
        on_trading_disabled::OnTradingDisabled,
    },
    system::config::ExecutionConfig,
};
use barter_data::{event::MarketEvent, streams::consumer::MarketStreamEvent};
use barter_execution::{
    AccountEvent, AccountEventKind, UnindexedAccountSnapshot,
    balance::{AssetBalance, Balance},
    client::mock::MockExecutionConfig,
    order::{
        OrderKey, OrderKind, TimeInForce,
        id::{ClientOrderId, StrategyId},
        request::{OrderRequestCancel, OrderRequestOpen, RequestOpen},
        state::{ActiveOrderState, InactiveOrderState, OrderState},
    },
};
use barter_instrument::{
    Side, Underlying,
    asset::{AssetIndex, name::AssetNameExchange},
    exchange::{ExchangeId, ExchangeIndex},
    index::IndexedInstruments,
    instrument::{Instrument, InstrumentIndex},
};
use chrono::{DateTime, Utc};
use futures::Stream;
use parking_lot::Mutex;
use rand::Rng;
use rust_decimal::Decimal;
use serde_json::{Value, json};
use smol_str::SmolStr;
use std::{
    sync::{
        Arc,
        atomic::{AtomicUsize, Ordering},
    },
    time::Duration,
};
use tokio::sync::watch;
use vh::util::*;

const EXCHANGE: ExchangeId = ExchangeId::BinanceSpot;
/// a venue that is tracked for its market data only: instruments and dataset items, but no ExecutionConfig
const DATA_ONLY_EXCHANGE: ExchangeId = ExchangeId::Kraken;
/// dataset items are one hour of exchange time apart; the wall-clock delta `HistoricalClock` adds
/// on top of the exchange time of the last processed event must stay below this slack
const SPACING_S: i64 = 3600;
const CLOCK_SLACK_MS: i64 = 300_000;
/// wall-clock bounds: exceeding one is a tool error (exit 2), never a verdict
const GATE_TIMEOUT: Duration = Duration::from_secs(120);
const SCENARIO_TIMEOUT: Duration = Duration::from_secs(600);

// ------------------------------------------------------------------------------------------
// market data kind + recording data states
// ------------------------------------------------------------------------------------------
/// The market event kind of the harness: which stream it came from, which dataset item it is.
#[derive(Debug, Clone, PartialEq)]
pub struct Tick {
    pub tag: u32,
    pub id: u32,
    pub price: Decimal,
}

#[derive(Debug, Clone)]
pub enum Obs {
    Market { tag: u32, id: u32, inst: usize },
    Disc,
    /// the account stream of the execution link reconnected (never expected: tool-level event)
    AcctDisc,
    Account { kind: &'static str, cid: String, detail: Value },
}

/// `GlobalData`: everything the engine state was handed, in processing order.
#[derive(Debug, Clone, Default)]
pub struct RecGlobal {
    pub log: Vec<Obs>,
    /// an account event was processed since the last account-stream disconnect
    pub acct_healthy: bool,
}

/// `InstrumentDataState`: what this instrument's data state was handed.
#[derive(Debug, Clone, Default)]
pub struct RecInst {
    pub markets: Vec<(u32, u32)>,
    pub accounts: usize,
    pub opens: Vec<String>,
    pub cancels: usize,
    pub last_price: Option<Decimal>,
}

impl Processor<&MarketEvent<InstrumentIndex, Tick>> for RecGlobal {
    type Audit = ();
    fn process(&mut self, e: &MarketEvent<InstrumentIndex, Tick>) {
        self.log.push(Obs::Market { tag: e.kind.tag, id: e.kind.id, inst: e.instrument.index() });
    }
}

fn d(x: Decimal) -> Value {
    Value::from(x.normalize().to_string())
}

impl Processor<&AccountEvent> for RecGlobal {
    type Audit = ();
    fn process(&mut self, e: &AccountEvent) {
        let (kind, cid, detail) = match &e.kind {
            AccountEventKind::Snapshot(s) => (
                "snapshot",
                String::new(),
                json!({"balances": s.balances.iter().map(|b| json!([b.asset.index(), d(b.balance.total), d(b.balance.free)])).collect::<Vec<_>>(),
                       "orders": s.instruments.iter().map(|i| i.orders.len()).sum::<usize>()}),
            ),
            AccountEventKind::BalanceSnapshot(b) => (
                "balance",
                String::new(),
                json!({"asset": b.0.asset.index(), "total": d(b.0.balance.total), "free": d(b.0.balance.free), "ts_ms": untime_ms(b.0.time_exchange)}),
            ),
            AccountEventKind::OrderSnapshot(o) => {
                let st = match &o.0.state {
                    OrderState::Active(ActiveOrderState::OpenInFlight(_)) => "open_in_flight".to_string(),
                    OrderState::Active(ActiveOrderState::Open(_)) => "open".to_string(),
                    OrderState::Active(ActiveOrderState::CancelInFlight(_)) => "cancel_in_flight".to_string(),
                    OrderState::Inactive(InactiveOrderState::FullyFilled) => "fully_filled".to_string(),
                    OrderState::Inactive(InactiveOrderState::Cancelled(_)) => "cancelled".to_string(),
                    OrderState::Inactive(InactiveOrderState::Expired) => "expired".to_string(),
                    OrderState::Inactive(InactiveOrderState::OpenFailed(err)) => format!("failed: {err:?}"),
                };
                ("order", o.0.key.cid.0.to_string(), json!({"inst": o.0.key.instrument.index(), "state": st}))
            }
            AccountEventKind::OrderCancelled(c) => ("cancel", c.key.cid.0.to_string(), json!({})),
            AccountEventKind::Trade(t) => (
                "trade",
                String::new(),
                json!({"order_id": t.order_id.0.as_str(), "inst": t.instrument.index(), "side": format!("{:?}", t.side),
                       "price": d(t.price), "qty": d(t.quantity), "fees": d(t.fees.fees), "ts_ms": untime_ms(t.time_exchange)}),
            ),
        };
        self.acct_healthy = true;
        self.log.push(Obs::Account { kind, cid, detail });
    }
}

impl Processor<&MarketEvent<InstrumentIndex, Tick>> for RecInst {
    type Audit = ();
    fn process(&mut self, e: &MarketEvent<InstrumentIndex, Tick>) {
        self.markets.push((e.kind.tag, e.kind.id));
        self.last_price = Some(e.kind.price);
    }
}

impl Processor<&AccountEvent> for RecInst {
    type Audit = ();
    fn process(&mut self, _: &AccountEvent) {
        self.accounts += 1;
    }
}

impl InFlightRequestRecorder for RecInst {
    fn record_in_flight_cancel(&mut self, _: &OrderRequestCancel<ExchangeIndex, InstrumentIndex>) {
        self.cancels += 1;
    }
    fn record_in_flight_open(&mut self, r: &OrderRequestOpen<ExchangeIndex, InstrumentIndex>) {
        self.opens.push(r.key.cid.0.to_string());
    }
}

impl InstrumentDataState for RecInst {
    type MarketEventKind = Tick;
    fn price(&self) -> Option<Decimal> {
        self.last_price
    }
}

type State = EngineState<RecGlobal, RecInst>;

// ------------------------------------------------------------------------------------------
// per-run sink + strategy
// ------------------------------------------------------------------------------------------
#[derive(Debug, Clone)]
pub struct Act {
    pub k: u32,
    pub inst: usize,
    pub side: Side,
    pub qty: Decimal,
}

#[derive(Debug, Clone, Copy, Default)]
pub struct Progress {
    pub snap: bool,
    /// largest market id after which every order sent so far is fully answered (0: none yet)
    pub settled: u32,
}

#[derive(Debug)]
pub struct Shared {
    /// slot j-1 belongs to the stream with tag j (gated mode); empty in inmem mode
    pub slots: Vec<watch::Sender<Progress>>,
}

#[derive(Debug, Default)]
pub struct Sink {
    pub lines: Vec<Value>,
    pub copied: usize,
    pub nc: usize,
    pub na: usize,
    pub tags: Vec<u32>,
    pub fired: Vec<u32>,
    pub n_snap: usize,
    pub n_resp: usize,
    pub n_bal: usize,
    pub n_trade: usize,
    pub n_refused: usize,
    pub last_market: u32,
    pub fills: Vec<Value>,
    pub order_states: Vec<Value>,
    pub facts: Value,
    pub digest: Value,
    pub anomalies: Vec<String>,
    pub calls: usize,
    pub account_reconnects: usize,
    pub tag_mismatch: bool,
    pub balance_ts: Vec<i64>,
    pub fill_ts: Vec<Value>,
    pub times: Value,
}

#[derive(Debug, Clone)]
pub struct ActStrategy {
    pub id: StrategyId,
    pub run: usize,
    pub acts: Arc<Vec<Act>>,
    pub sink: Arc<Mutex<Sink>>,
    pub shared: Arc<Shared>,
}

/// The dataset item at whose exchange time a timestamp lies (within the slack), 0 if at none.
fn window_of(ts_ms: i64) -> i64 {
    if ts_ms < 0 {
        return 0;
    }
    let j = ts_ms / (SPACING_S * 1000);
    if j >= 1 && ts_ms - j * SPACING_S * 1000 <= CLOCK_SLACK_MS { j } else { 0 }
}

fn cid_of(run: usize, k: u32) -> String {
    format!("r{run}-k{k}")
}
fn k_of_cid(cid: &str) -> i64 {
    cid.rsplit_once("-k").and_then(|(_, k)| k.parse().ok()).unwrap_or(-1)
}

/// Trace line with every field present (TLC reads records uniformly).
fn line(a: &str) -> Value {
    json!({"a": a, "id": 0, "tag": 0, "kind": "-", "k": 0, "sent": [], "nc": 0, "na": 0,
           "n": 0, "recs": [], "acts": [], "fail": [], "sumok": true, "tsk": 0, "ck": false, "ts_ms": 0})
}

/// Projection of the schedule-independent facts of a run's engine state.
fn project_facts(state: &State) -> (Value, Value) {
    let mut positions = vec![];
    let mut pnl = vec![];
    for (name, is) in state.instruments.0.iter() {
        let cur = match &is.position.current {
            None => json!("flat"),
            Some(p) => json!({"side": format!("{:?}", p.side), "qty": d(p.quantity_abs), "qty_max": d(p.quantity_abs_max),
                              "entry": d(p.price_entry_average), "pnl_realised": d(p.pnl_realised),
                              "fees_enter": d(p.fees_enter.fees), "fees_exit": d(p.fees_exit.fees), "trades": p.trades.len()}),
        };
        positions.push(json!({"instrument": name.to_string(), "position": cur}));
        pnl.push(json!({"instrument": name.to_string(), "closed_pnl": d(is.tear_sheet.pnl_returns.pnl_raw),
                        "closed_positions": is.tear_sheet.pnl_returns.total.count.to_string()}));
    }
    let mut balances = vec![];
    let mut bal_end = vec![];
    for (key, a) in state.assets.0.iter() {
        let b = match &a.balance {
            None => json!("none"),
            Some(t) => json!({"total": d(t.value.total), "free": d(t.value.free)}),
        };
        balances.push(json!({"asset": format!("{}:{}", key.exchange, key.asset), "balance": b}));
        let e = match &a.statistics.balance_now {
            None => json!("none"),
            Some(b) => json!({"total": d(b.total), "free": d(b.free)}),
        };
        bal_end.push(json!({"asset": format!("{}:{}", key.exchange, key.asset), "balance_end": e}));
    }
    let digest = json!({
        "pnl": state.instruments.0.iter().map(|(n, is)| json!({"instrument": n.to_string(), "pnl": d(is.tear_sheet.pnl_returns.pnl_raw)})).collect::<Vec<_>>(),
        "balance_end": bal_end,
    });
    (json!({"positions": positions, "balances": balances, "realised_pnl": pnl}), digest)
}

fn project_summary(s: &BacktestSummary<Daily>) -> Value {
    json!({
        "pnl": s.trading_summary.instruments.iter().map(|(n, t)| json!({"instrument": n.to_string(), "pnl": d(t.pnl)})).collect::<Vec<_>>(),
        "balance_end": s.trading_summary.assets.iter().map(|(k, t)| {
            let e = match &t.balance_end { None => json!("none"), Some(b) => json!({"total": d(b.total), "free": d(b.free)}) };
            json!({"asset": format!("{}:{}", k.exchange, k.asset), "balance_end": e})
        }).collect::<Vec<_>>(),
    })
}

impl ActStrategy {
    /// Copies what the engine state has recorded since the last call into the sink (one trace
    /// line per processed event) and returns the dataset id of the event just processed, if it
    /// was a market event.
    fn observe(&self, s: &mut Sink, state: &State) -> Option<u32> {
        s.calls += 1;
        let log = &state.global.log;
        if log.len() < s.copied {
            s.anomalies.push(format!("state-log-shrank: engine state log shrank from {} to {} entries", s.copied, log.len()));
            s.copied = log.len();
        }
        // orders recorded in flight so far = orders sent in earlier steps
        let mut inflight: Vec<i64> = state.instruments.0.values().flat_map(|is| is.data.opens.iter().map(|c| k_of_cid(c))).collect();
        inflight.sort();
        for (_, is) in state.instruments.0.iter() {
            for c in &is.data.opens {
                if !c.starts_with(&format!("r{}-", self.run)) {
                    s.anomalies.push(format!("foreign-order-in-flight: in-flight record of a foreign order {c} in run {}", self.run));
                }
            }
        }
        let mut last = None;
        let new: Vec<Obs> = log[s.copied..].to_vec();
        if new.len() != 1 {
            s.anomalies.push(format!("entries-per-step: {} new engine-state entries between two strategy calls (every processed event must show exactly one)", new.len()));
        }
        for o in new {
            let mut l = line("Market");
            l["sent"] = json!(inflight);
            match o {
                Obs::Market { tag, id, inst } => {
                    s.nc += 1;
                    if !s.tags.contains(&tag) {
                        s.tags.push(tag);
                    }
                    // routed to its own instrument's data state as well
                    let routed = state.instruments.0.get_index(inst).map(|(_, is)| is.data.markets.last() == Some(&(tag, id))).unwrap_or(false);
                    if !routed {
                        s.anomalies.push(format!("misrouted-market-event: market event {id} not seen last by the data state of instrument {inst}"));
                    }
                    l["id"] = json!(id);
                    l["tag"] = json!(tag);
                    s.last_market = id;
                    last = Some(id);
                }
                Obs::Disc => {
                    s.nc += 1;
                    l["a"] = json!("Disc");
                    l["tag"] = json!(s.tags.first().copied().unwrap_or(0));
                    last = None;
                }
                Obs::AcctDisc => {
                    s.account_reconnects += 1;
                    continue;
                }
                Obs::Account { kind, cid, detail } => {
                    s.na += 1;
                    l["a"] = json!("Account");
                    l["kind"] = json!(kind);
                    let k: i64 = match kind {
                        "snapshot" => {
                            s.n_snap += 1;
                            0
                        }
                        "order" => {
                            s.n_resp += 1;
                            // every order of a scenario is for a listed instrument and well within the funds of the
                            // account: an order the simulated exchange REFUSES was not handled by this run's own exchange
                            // (request time-outs are judged separately)
                            let state_str = detail["state"].as_str().unwrap_or("");
                            if state_str.starts_with("failed") && !state_str.contains("Timeout") {
                                s.n_refused += 1;
                                s.anomalies.push(format!("order-refused: order {cid} was refused by the run's simulated exchange: {state_str}"));
                            }
                            s.order_states.push(json!({"cid": cid, "detail": detail}));
                            if cid.starts_with(&format!("r{}-", self.run)) { k_of_cid(&cid) } else { -1 }
                        }
                        "balance" => {
                            // the j-th balance snapshot answers the j-th order the exchange accepted
                            s.n_bal += 1;
                            l["ts_ms"] = detail["ts_ms"].clone();
                            l["tsk"] = json!(window_of(detail["ts_ms"].as_i64().unwrap_or(-1)));
                            s.balance_ts.push(detail["ts_ms"].as_i64().unwrap_or(-1));
                            s.fired.get(s.n_bal - 1).map(|k| *k as i64).unwrap_or(-1)
                        }
                        "trade" => {
                            s.n_trade += 1;
                            l["ts_ms"] = detail["ts_ms"].clone();
                            l["tsk"] = json!(window_of(detail["ts_ms"].as_i64().unwrap_or(-1)));
                            // the mock exchange numbers accepted orders 0,1,2.. in arrival order
                            let k = detail["order_id"].as_str().and_then(|x| x.parse::<usize>().ok())
                                .and_then(|j| s.fired.get(j)).map(|k| *k as i64).unwrap_or(-1);
                            let mut f = detail.clone();
                            f["k"] = json!(k);
                            // (timestamps are judged by the clock clause, not compared exactly)
                            s.fill_ts.push(json!({"k": k, "ts_ms": f["ts_ms"].clone()}));
                            f.as_object_mut().unwrap().remove("ts_ms");
                            s.fills.push(f);
                            k
                        }
                        _ => -1,
                    };
                    l["k"] = json!(k);
                    last = None;
                }
            }
            l["nc"] = json!(s.nc);
            l["na"] = json!(s.na);
            s.lines.push(l);
        }
        s.copied = log.len();
        let (facts, digest) = project_facts(state);
        s.facts = facts;
        s.digest = digest;
        s.times = json!({"position_enter_ms": state.instruments.0.values().map(|is| match &is.position.current {
            None => Value::Null,
            Some(p) => json!(untime_ms(p.time_enter)),
        }).collect::<Vec<_>>()});
        last
    }

    /// Tells the data source of this run how far the run has got. `stream()` calls are made in
    /// argument order (`try_join_all` polls the backtest futures in order and nothing yields
    /// before `stream()`), so run r is fed by stream r+1; the tag carried by every event verifies
    /// it - a mismatch is a tool error, never a verdict.
    fn report(&self, s: &mut Sink) {
        if self.shared.slots.is_empty() {
            return;
        }
        if let Some(tag) = s.tags.first().copied() {
            if tag as usize != self.run + 1 {
                s.tag_mismatch = true;
            }
        }
        let Some(slot) = self.shared.slots.get(self.run) else { return };
        let n = s.fired.len();
        let settled = s.n_resp >= n && s.n_bal + s.n_refused >= n && s.n_trade + s.n_refused >= n;
        slot.send_modify(|p| {
            p.snap = s.n_snap > 0;
            if settled {
                p.settled = p.settled.max(s.last_market);
            }
        });
    }
}

impl AlgoStrategy for ActStrategy {
    type State = State;
    fn generate_algo_orders(
        &self,
        state: &Self::State,
    ) -> (
        impl IntoIterator<Item = OrderRequestCancel<ExchangeIndex, InstrumentIndex>>,
        impl IntoIterator<Item = OrderRequestOpen<ExchangeIndex, InstrumentIndex>>,
    ) {
        let mut s = self.sink.lock();
        let last = self.observe(&mut s, state);
        let mut opens = vec![];
        if let Some(id) = last {
            if let Some(act) = self.acts.iter().find(|a| a.k == id) {
                if !s.fired.contains(&id) {
                    s.fired.push(id);
                    let inst = InstrumentIndex(act.inst);
                    let price = state.instruments.instrument_index(&inst).data.price().unwrap_or(Decimal::from(100));
                    opens.push(OrderRequestOpen {
                        key: OrderKey {
                            exchange: ExchangeIndex(if act.inst >= 2 { 1 } else { 0 }),
                            instrument: inst,
                            strategy: self.id.clone(),
                            cid: ClientOrderId::new(cid_of(self.run, id)),
                        },
                        state: RequestOpen {
                            side: act.side,
                            price,
                            quantity: act.qty,
                            kind: OrderKind::Market,
                            time_in_force: TimeInForce::ImmediateOrCancel,
                        },
                    });
                }
            }
        }
        self.report(&mut s);
        (std::iter::empty(), opens)
    }
}

impl ClosePositionsStrategy for ActStrategy {
    type State = State;
    fn close_positions_requests<'a>(
        &'a self,
        state: &'a Self::State,
        filter: &'a InstrumentFilter<ExchangeIndex, AssetIndex, InstrumentIndex>,
    ) -> (
        impl IntoIterator<Item = OrderRequestCancel<ExchangeIndex, InstrumentIndex>> + 'a,
        impl IntoIterator<Item = OrderRequestOpen<ExchangeIndex, InstrumentIndex>> + 'a,
    )
    where
        ExchangeIndex: 'a,
        AssetIndex: 'a,
        InstrumentIndex: 'a,
    {
        close_open_positions_with_market_orders(&self.id, state, filter, |_| ClientOrderId::random())
    }
}

impl<Clock, ExecutionTxs, Risk> OnDisconnectStrategy<Clock, State, ExecutionTxs, Risk> for ActStrategy {
    type OnDisconnect = ();
    /// A `Reconnecting` item of the dataset reaches the engine here: record it in the run's own
    /// engine state, like the data states record market events.
    fn on_disconnect(engine: &mut Engine<Clock, State, ExecutionTxs, Self, Risk>, exchange: ExchangeId) {
        use barter::engine::state::connectivity::Health;
        // (the hook does not say which link dropped: the account link did iff it was healthy
        //  after the last account event and is reconnecting now)
        // (a data-only venue has no account link that could drop: its notice is a market-data notice)
        let account_down = exchange == EXCHANGE && engine.state.connectivity.connectivity(&exchange).account == Health::Reconnecting;
        if engine.state.global.acct_healthy && account_down {
            engine.state.global.acct_healthy = false;
            engine.state.global.log.push(Obs::AcctDisc);
        } else {
            engine.state.global.log.push(Obs::Disc);
        }
    }
}

impl<Clock, ExecutionTxs, Risk> OnTradingDisabled<Clock, State, ExecutionTxs, Risk> for ActStrategy {
    type OnTradingDisabled = ();
    fn on_trading_disabled(_: &mut Engine<Clock, State, ExecutionTxs, Self, Risk>) {}
}

// ------------------------------------------------------------------------------------------
// gated market data source
// ------------------------------------------------------------------------------------------
type Item = MarketStreamEvent<InstrumentIndex, Tick>;

#[derive(Debug)]
pub struct GatedMarketData {
    events: Arc<Vec<Item>>,
    time_first: DateTime<Utc>,
    /// decision points (dataset ids, ascending): the item after one is held back until settled
    gates: Arc<Vec<u32>>,
    slots: Vec<watch::Receiver<Progress>>,
    next: AtomicUsize,
    pub gate_timeouts: Arc<AtomicUsize>,
    pub extra_streams: Arc<AtomicUsize>,
    /// probe only: `stream()` takes this long (like a source that loads its data lazily)
    pub stream_delay: Duration,
}

impl BacktestMarketData for GatedMarketData {
    type Kind = Tick;

    async fn time_first_event(&self) -> Result<DateTime<Utc>, BarterError> {
        Ok(self.time_first)
    }

    async fn stream(&self) -> Result<impl Stream<Item = Item> + Send + 'static, BarterError> {
        let j = self.next.fetch_add(1, Ordering::SeqCst);
        let tag = (j + 1) as u32;
        if !self.stream_delay.is_zero() {
            tokio::time::sleep(self.stream_delay).await;
        }
        let rx = self.slots.get(j).cloned();
        if rx.is_none() {
            self.extra_streams.fetch_add(1, Ordering::SeqCst);
        }
        let events = Arc::clone(&self.events);
        let gates = Arc::clone(&self.gates);
        let timeouts = Arc::clone(&self.gate_timeouts);
        // state: (next 0-based index, receiver)
        Ok(futures::stream::unfold((0usize, rx), move |(idx, mut rx)| {
            let events = Arc::clone(&events);
            let gates = Arc::clone(&gates);
            let timeouts = Arc::clone(&timeouts);
            async move {
                // dataset ids are 1-based: `idx` items are out, the one about to be emitted is idx+1
                if let Some(rx) = rx.as_mut() {
                    let emitted = idx as u32;
                    // nothing is emitted before the run has processed its initial account snapshot
                    let need_snap = true;
                    let need_settled = gates.iter().rev().find(|g| **g <= emitted).copied().unwrap_or(0);
                    let wait = rx.wait_for(|p| (!need_snap || p.snap) && p.settled >= need_settled);
                    match tokio::time::timeout(GATE_TIMEOUT, wait).await {
                        Ok(Ok(_)) => {}
                        _ => {
                            timeouts.fetch_add(1, Ordering::SeqCst);
                        }
                    }
                }
                if idx >= events.len() {
                    return None;
                }
                let mut ev = events[idx].clone();
                if let MarketStreamEvent::Item(e) = &mut ev {
                    e.kind.tag = tag;
                }
                Some((ev, (idx + 1, rx)))
            }
        }))
    }
}

/// Data source whose stream takes (virtual) time: sleeps `gaps[i]` ms before item i and
/// `gaps[n]` ms before it ends.
#[derive(Debug)]
pub struct SlowMarketData {
    events: Arc<Vec<Item>>,
    time_first: DateTime<Utc>,
    gaps_ms: Arc<Vec<u64>>,
    /// the j-th stream is (1 + j % 3) times slower: concurrent runs progress at different rates
    next: AtomicUsize,
    /// fail_after[j] = Some(k): the j-th stream PANICS after having yielded k items (a lazily
    /// decoded source hitting a corrupt record)
    fail_after: Arc<Vec<Option<usize>>>,
}

impl BacktestMarketData for SlowMarketData {
    type Kind = Tick;

    async fn time_first_event(&self) -> Result<DateTime<Utc>, BarterError> {
        Ok(self.time_first)
    }

    async fn stream(&self) -> Result<impl Stream<Item = Item> + Send + 'static, BarterError> {
        let events = Arc::clone(&self.events);
        let gaps = Arc::clone(&self.gaps_ms);
        let j = self.next.fetch_add(1, Ordering::SeqCst);
        let pace = 1 + (j % 3) as u64;
        let tag = (j + 1) as u32;
        let fail_after = self.fail_after.get(j).copied().flatten();
        Ok(futures::stream::unfold(0usize, move |idx| {
            let events = Arc::clone(&events);
            let gaps = Arc::clone(&gaps);
            async move {
                tokio::time::sleep(Duration::from_millis(pace * gaps[idx.min(gaps.len() - 1)])).await;
                if fail_after == Some(idx) {
                    panic!("c20 harness: the market data source of stream {tag} fails after {idx} items");
                }
                if idx >= events.len() {
                    return None;
                }
                let mut ev = events[idx].clone();
                if let MarketStreamEvent::Item(e) = &mut ev {
                    e.kind.tag = tag;
                }
                Some((ev, idx + 1))
            }
        }))
    }
}

/// Gaps (ms) before items 1..n and before the end of the stream.
fn gaps(n: usize, data_seed: u64, profile: &str) -> Vec<u64> {
    let mut rng = vh::util::rng(data_seed ^ 0x6A95);
    let short = [1u64, 3, 20, 50, 120, 400];
    let long = [1u64, 50, 900, 4_000, 6_000, 30_000, 600_000, 3_600_000, 21_600_000];
    (0..=n)
        .map(|j| match profile {
            // every gap well below any plausible cap, the total far above it
            "short" => short[rng.random_range(0..short.len())],
            // a single long pause in an otherwise instantaneous stream
            "one" => if j == n / 2 { 7_200_000 } else { 0 },
            // only the END of the stream is late
            "tail" => if j == n { 86_400_000 } else { 1 },
            _ => long[rng.random_range(0..long.len())],
        })
        .collect()
}

fn first_item_time(events: &[Item]) -> DateTime<Utc> {
    events.iter().find_map(|e| match e { MarketStreamEvent::Item(e) => Some(e.time_exchange), _ => None }).unwrap_or(time(0))
}

/// panic of the whole call / wall-clock bound exceeded / one result per run
/// (the second component: `num_backtests` and the number of summaries of a `MultiBacktestSummary`)
type CallOutcome = Result<Result<(Vec<Result<BacktestSummary<Daily>, String>>, Option<(usize, usize)>), ()>, String>;

/// THE call under test: `run_backtests` over all runs (one batch result: an error is every run's
/// result) or, `each`, one `backtest()` per run joined concurrently (one result per run).
/// `bounded`: wrap it in the (tokio-time) scenario bound - not under the paused clock, where
/// tokio time is virtual and datasets last days.
fn call_backtests<MD>(
    rt: &tokio::runtime::Runtime,
    args: Arc<BacktestArgsConstant<MD, Daily, State>>,
    dynamics: Vec<BacktestArgsDynamic<ActStrategy, DefaultRiskManager<State>>>,
    bounded: bool,
    each: bool,
) -> CallOutcome
where
    MD: BacktestMarketData<Kind = Tick>,
{
    let k = dynamics.len();
    catch(|| {
        rt.block_on(async {
            let run = async {
                if each {
                    let v = futures::future::join_all(dynamics.into_iter().map(|d| backtest(Arc::clone(&args), d)))
                        .await
                        .into_iter()
                        .map(|r| r.map_err(|e| format!("{e:?}")))
                        .collect::<Vec<_>>();
                    (v, None)
                } else {
                    match run_backtests(args, dynamics).await {
                        // the batch result is a SEQUENCE: position r holds the summary of run r
                        Ok(m) => {
                            let shape = Some((m.num_backtests, m.summaries.len()));
                            let got = m.summaries.len();
                            let mut it = m.summaries.into_iter();
                            let v = (0..k).map(|_| it.next().ok_or_else(|| format!("missing: the batch result holds {got} summaries for {k} runs"))).collect();
                            (v, shape)
                        }
                        Err(e) => ((0..k).map(|_| Err(format!("{e:?}"))).collect(), None),
                    }
                }
            };
            if bounded { tokio::time::timeout(SCENARIO_TIMEOUT, run).await.map_err(|_| ()) } else { Ok(run.await) }
        })
    })
}

// ------------------------------------------------------------------------------------------
// world
// ------------------------------------------------------------------------------------------
fn instruments(untraded_exchange: bool, narrow: bool) -> IndexedInstruments {
    if narrow {
        // a universe of ONE instrument (the first scenario of a process runs over it: what a backtest's exchange
        // lists is the universe of THAT backtest, whatever ran in the process before)
        return IndexedInstruments::builder()
            .add_instrument(Instrument::spot(EXCHANGE, "binance_spot_btc_usdt", "BTCUSDT", Underlying::new("btc", "usdt"), None))
            .build();
    }
    let b = IndexedInstruments::builder()
        .add_instrument(Instrument::spot(EXCHANGE, "binance_spot_btc_usdt", "BTCUSDT", Underlying::new("btc", "usdt"), None))
        .add_instrument(Instrument::spot(EXCHANGE, "binance_spot_eth_usdt", "ETHUSDT", Underlying::new("eth", "usdt"), None));
    if untraded_exchange {
        // instrument index 2 on an exchange that is tracked but has no execution link (a data-only venue)
        b.add_instrument(Instrument::spot(DATA_ONLY_EXCHANGE, "kraken_spot_btc_usdt", "XBT/USDT", Underlying::new("btc", "usdt"), None)).build()
    } else {
        b.build()
    }
}

fn mock_config(latency_ms: u64, narrow: bool) -> MockExecutionConfig {
    // balances large enough for every order of a scenario whichever asset the sell arm debits
    // (F3 / C08) - before and after that fix every order is accepted
    let bal = |a: &str, x: i64| AssetBalance {
        asset: AssetNameExchange::new(a),
        balance: Balance { total: dec(x), free: dec(x) },
        time_exchange: time(0),
    };
    MockExecutionConfig {
        mocked_exchange: EXCHANGE,
        initial_state: UnindexedAccountSnapshot {
            exchange: EXCHANGE,
            // (the account lists the assets of the run's own universe)
            balances: if narrow { vec![bal("btc", 100_000), bal("usdt", 100_000_000)] } else { vec![bal("btc", 100_000), bal("eth", 100_000), bal("usdt", 100_000_000)] },
            instruments: vec![],
        },
        latency_ms,
        fees_percent: Decimal::new(1, 3),
    }
}

/// Dataset item `id` (1-based): instrument and price are functions of (data_seed, id).
/// `late`: (id, lag): item id is `lag` seconds OLDER than its predecessor's slot (a late / re-published
/// tick) - exchange times need not increase along a dataset.
/// `data_only`: about a third of the items (ticks and `Reconnecting` notices alike) belong to instrument 2 on
/// `DATA_ONLY_EXCHANGE` - a venue the engine tracks for its prices but that has NO execution link (a reference
/// market). They are items of the dataset like any other and must reach the engine, in order.
/// `points`: the shared decision points of a gated scenario are items of TRADED instruments (the gate after a
/// decision point is released by the run's own progress on it, so it must be an item the strategy acts on).
fn dataset(n: usize, data_seed: u64, recs: &[u32], late: &[(u32, i64)], data_only: bool, points: &[u32]) -> Vec<Item> {
    let mut rng = vh::util::rng(data_seed ^ 0xC20);
    let mut price = [100i64, 50i64, 101i64];
    (1..=n as u32)
        .map(|id| {
            let inst = if id <= 2 { (id - 1) as usize } else { rng.random_range(0..if data_only { 3usize } else { 2usize }) };
            let inst = if points.contains(&id) { inst % 2 } else { inst };
            price[inst] = (price[inst] + rng.random_range(-3..=3i64)).clamp(10, 400);
            let exchange = if inst == 2 { DATA_ONLY_EXCHANGE } else { EXCHANGE };
            if recs.contains(&id) {
                return MarketStreamEvent::Reconnecting(exchange);
            }
            let t = match late.iter().find(|l| l.0 == id) {
                Some((_, lag)) => time(SPACING_S * (id as i64 - 1) - lag),
                None => time(SPACING_S * id as i64),
            };
            MarketStreamEvent::Item(MarketEvent {
                time_exchange: t,
                time_received: t,
                exchange,
                instrument: InstrumentIndex(inst),
                kind: Tick { tag: 0, id, price: dec(price[inst]) },
            })
        })
        .collect()
}

// ------------------------------------------------------------------------------------------
// scenarios
// ------------------------------------------------------------------------------------------
fn acts_of(v: &Value) -> Vec<Act> {
    v.as_array()
        .unwrap_or_else(|| usage("acts must be an array"))
        .iter()
        .map(|a| Act {
            k: i(a, "k") as u32,
            inst: i(a, "inst") as usize,
            side: if s(a, "side") == "buy" { Side::Buy } else { Side::Sell },
            qty: dec(i(a, "qty")),
        })
        .collect()
}

/// Random strategy parameters: acts on a subset of the allowed decision points; buys, sells that
/// close or flip the position (realised PnL), on both instruments; one order per decision point.
fn random_acts(rng: &mut impl Rng, points: &[u32], max_orders: usize) -> Value {
    let mut acts = vec![];
    let mut pos = [0i64, 0i64];
    let want = rng.random_range(0..=max_orders.min(points.len()));
    let mut chosen: Vec<u32> = points.to_vec();
    while chosen.len() > want {
        let j = rng.random_range(0..chosen.len());
        chosen.remove(j);
    }
    for k in chosen {
        let inst = rng.random_range(0..2usize);
        let qty = rng.random_range(1..=3i64);
        // close / reduce / flip an open position half of the time
        let side = if pos[inst] > 0 && rng.random_bool(0.6) { "sell" } else if pos[inst] < 0 && rng.random_bool(0.6) { "buy" } else if rng.random_bool(0.7) { "buy" } else { "sell" };
        pos[inst] += if side == "buy" { qty } else { -qty };
        acts.push(json!({"k": k, "inst": inst, "side": side, "qty": qty}));
    }
    Value::from(acts)
}

/// Ids of the runs of one batch: ids are labels, not keys - all distinct / all the empty id (the
/// repository example's template) / equal in pairs / two equal ids and the empty id among distinct ones.
fn batch_ids(k: usize, pattern: usize) -> Vec<String> {
    (0..k)
        .map(|r| match pattern % 4 {
            0 => format!("{r}"),
            1 => String::new(),
            2 => format!("sweep-{}", r / 2),
            _ => if r == 0 || r == k - 1 { "template".to_string() } else if r == 1 { String::new() } else { format!("{r}") },
        })
        .collect()
}

/// Late / re-published ticks: `count` items (never the first, a Reconnecting item, a forbidden
/// id, or the successor of another late item) that are 30 s ... a day older than their predecessor.
fn random_late(rng: &mut impl Rng, n: usize, recs: &[u32], forbidden: &[u32], count: usize) -> Vec<(u32, i64)> {
    let lags = [30i64, 31, 45, 60, 300, 1800, 3600, 7200, 20_000, 86_400];
    let mut late: Vec<(u32, i64)> = vec![];
    let mut tries = 0;
    while late.len() < count && tries < 20 * count + 20 {
        tries += 1;
        let id = rng.random_range(2..=n as u32);
        let pred_plain = !recs.contains(&(id - 1)) && !late.iter().any(|l| l.0 == id - 1 || l.0 == id + 1);
        if recs.contains(&id) || forbidden.contains(&id) || late.iter().any(|l| l.0 == id) || !pred_plain {
            continue;
        }
        late.push((id, lags[rng.random_range(0..lags.len())]));
    }
    late.sort();
    late
}

fn plan(seed: u64, tier: &str) -> Vec<Value> {
    let mut rng = vh::util::rng(seed.wrapping_mul(0x9E37_79B9).wrapping_add(20));
    let thorough = tier == "thorough";
    let mut out = vec![];
    let mut name = 0;
    // the FIRST scenario of the process runs over a universe of one instrument; the scenarios after it trade a
    // second instrument the first one never listed
    {
        let acts = random_acts(&mut rng, &[3, 10, 20], 3);
        out.push(json!({"name": "n0", "mode": "inmem", "workers": 1, "n": 30, "data_seed": seed * 1000 + 999, "recs": [5], "points": [],
                        "latency_ms": 0, "alone": true, "late": [], "narrow": true, "runs": [{"variant": 0, "acts": acts}]}));
    }
    // (dataset size, [(K, workers)]) - the cost of validating a run's log grows with n^2
    let gated: Vec<(usize, Vec<(usize, usize)>)> = if thorough {
        vec![
            (50, vec![(2, 1), (2, 16), (8, 2), (8, 4), (32, 1), (32, 4), (32, 16)]),
            (200, vec![(2, 2), (8, 1), (8, 16), (32, 2), (32, 4)]),
            (500, vec![(2, 4), (8, 2), (32, 16)]),
            (2000, vec![(2, 2), (8, 4)]),
        ]
    } else {
        vec![(50, vec![(2, 1), (2, 4), (8, 2)]), (200, vec![(2, 2), (8, 1), (8, 4)]), (300, vec![(8, 2)])]
    };
    for (dsi, (n, grid)) in gated.iter().enumerate() {
        let n = *n;
        let data_seed = seed * 1000 + dsi as u64;
        let mut recs: Vec<u32> = (0..(1 + n / 100)).map(|_| rng.random_range(3..=n as u32)).collect();
        recs.sort();
        recs.dedup();
        // shared decision points (never a Reconnecting item)
        let mut points: Vec<u32> = vec![];
        while points.len() < 6 {
            // (never the first market item: see ASSUMPTIONS in bin/props/c20.py - HistoricalClock)
            let k = rng.random_range(2..=n as u32);
            if !recs.contains(&k) && !points.contains(&k) {
                points.push(k);
            }
        }
        // the last item of the dataset is a decision point in every other dataset: the fills of
        // an order sent on the very last event must still be processed before Shutdown
        if dsi % 2 == 0 && !recs.contains(&(n as u32)) && !points.contains(&(n as u32)) {
            points[0] = n as u32;
        }
        points.sort();
        let kmax = grid.iter().map(|g| g.0).max().unwrap();
        let mut variants: Vec<Value> = (0..kmax).map(|_| random_acts(&mut rng, &points, 5)).collect();
        // one strategy never trades: its run is never held back and races through the dataset
        // (concurrent runs progress at very different rates)
        variants[1] = json!([]);
        let latency = if dsi % 2 == 0 { 0 } else { 2 };
        // late ticks: right after a decision point (they follow the fill / balance events of the
        // order, stamped at the clock) and elsewhere; no order is opened on a late tick
        let mut late: Vec<(u32, i64)> = points.iter().filter(|d| **d < n as u32 && !recs.contains(&(**d + 1)) && !points.contains(&(**d + 1)))
            .take(2).enumerate().map(|(j, d)| (*d + 1, if j == 0 { 30 } else { 7_200 })).collect();
        let taken: Vec<u32> = points.iter().copied().chain(late.iter().flat_map(|l| [l.0 - 1, l.0, l.0 + 1])).collect();
        late.extend(random_late(&mut rng, n, &recs, &taken, 1 + n / 40));
        late.sort();
        late.dedup_by_key(|l| l.0);
        // every parameter set alone
        for (vi, v) in variants.iter().enumerate() {
            name += 1;
            out.push(json!({"name": format!("g{name}"), "mode": "gated", "workers": 1, "n": n, "data_seed": data_seed, "recs": recs,
                            "points": points, "latency_ms": latency, "alone": true, "late": late, "data_only": dsi % 2 == 1, "runs": [{"variant": vi, "acts": v}]}));
        }
        for (gi, (k, w)) in grid.iter().enumerate() {
            name += 1;
            // rotate so that argument order differs between scenarios
            let runs: Vec<Value> = (0..*k).map(|r| { let vi = (r + gi) % kmax; json!({"variant": vi, "acts": variants[vi]}) }).collect();
            out.push(json!({"name": format!("g{name}"), "mode": "gated", "workers": w, "n": n, "data_seed": data_seed, "recs": recs,
                            "points": points, "latency_ms": latency, "alone": false, "late": late, "data_only": dsi % 2 == 1, "ids": batch_ids(*k, gi + dsi + 1), "runs": runs}));
        }
    }
    // ---- in-memory (the repository's MarketDataInMemory): consumption clauses only ------------
    let inmem: Vec<(usize, Vec<(usize, usize)>)> = if thorough {
        vec![
            (50, vec![(1, 1), (2, 2), (8, 4), (32, 1), (32, 16)]),
            (500, vec![(1, 4), (2, 1), (8, 16), (32, 2), (32, 4)]),
            (1000, vec![(8, 1), (32, 4), (32, 16)]),
            (2000, vec![(1, 1), (2, 16), (8, 2), (8, 4)]),
            (4100, vec![(2, 4)]),
            (9000, vec![(1, 2), (2, 16)]),
            (13000, vec![(1, 1)]),
        ]
    } else {
        vec![
            (50, vec![(1, 1), (2, 4), (8, 2), (8, 1)]),
            (500, vec![(1, 2), (2, 1), (8, 4)]),
            (1000, vec![(2, 2)]),
            (2000, vec![(1, 4)]),
            // beyond one and two 4096-item chunks of a chunked reader
            (4100, vec![(1, 2)]),
            (9000, vec![(1, 1)]),
        ]
    };
    for (dsi, (n, grid)) in inmem.iter().enumerate() {
        let n = *n;
        let data_seed = seed * 1000 + 500 + dsi as u64;
        let mut recs: Vec<u32> = (0..(1 + n / 100).min(30)).map(|_| rng.random_range(2..=n as u32)).collect();
        // every other dataset BEGINS with one or two Reconnecting items (a recording that starts
        // while the link is still connecting): they are dataset items like any other
        if dsi % 2 == 0 {
            recs.push(1);
            if dsi % 4 == 0 {
                recs.push(2);
            }
        }
        recs.sort();
        recs.dedup();
        let late = random_late(&mut rng, n, &recs, &[], (2 + n / 25).min(60));
        let all: Vec<u32> = (1..=n as u32).filter(|k| !recs.contains(k) && !late.iter().any(|l| l.0 == *k)).collect();
        for (gi, (k, w)) in grid.iter().enumerate() {
            name += 1;
            let runs: Vec<Value> = (0..*k)
                .map(|r| {
                    // orders anywhere, including the first and the very last event
                    let mut pts: Vec<u32> = (0..5).map(|_| all[rng.random_range(0..all.len())]).collect();
                    if r % 3 == 0 { pts.push(*all.last().unwrap()); }
                    if r % 4 == 1 { pts.push(all[0]); }
                    pts.sort();
                    pts.dedup();
                    json!({"variant": r, "acts": random_acts(&mut rng, &pts, 6)})
                })
                .collect();
            out.push(json!({"name": format!("m{name}"), "mode": "inmem", "workers": w, "n": n, "data_seed": data_seed, "recs": recs,
                            "points": [], "latency_ms": gi % 2, "alone": *k == 1, "late": late, "data_only": dsi % 2 == 1, "ids": batch_ids(*k, gi + dsi), "runs": runs}));
        }
    }
    // ---- paused clock: the data source takes (virtual) milliseconds to days ---------------------
    let paused: Vec<(usize, usize, &str)> = if thorough {
        vec![(60, 2, "long"), (300, 8, "short"), (40, 1, "one"), (50, 2, "tail"), (500, 32, "long"), (1000, 2, "short"), (200, 8, "one"), (120, 4, "tail")]
    } else {
        vec![(60, 2, "long"), (300, 8, "short"), (40, 1, "one"), (50, 2, "tail"), (150, 4, "long")]
    };
    for (dsi, (n, k, profile)) in paused.iter().enumerate() {
        let n = *n;
        let data_seed = seed * 1000 + 700 + dsi as u64;
        let mut recs: Vec<u32> = (0..(1 + n / 50)).map(|_| rng.random_range(2..=n as u32)).collect();
        if dsi % 2 == 1 {
            recs.push(1);
        }
        recs.sort();
        recs.dedup();
        let late = random_late(&mut rng, n, &recs, &[], 2 + n / 25);
        let all: Vec<u32> = (1..=n as u32).filter(|k| !recs.contains(k) && !late.iter().any(|l| l.0 == *k)).collect();
        name += 1;
        let runs: Vec<Value> = (0..*k)
            .map(|r| {
                let mut pts: Vec<u32> = (0..4).map(|_| all[rng.random_range(0..all.len())]).collect();
                if r % 2 == 0 { pts.push(*all.last().unwrap()); }
                pts.sort();
                pts.dedup();
                json!({"variant": r, "acts": random_acts(&mut rng, &pts, 5)})
            })
            .collect();
        out.push(json!({"name": format!("p{name}"), "mode": "paused", "workers": 1, "n": n, "data_seed": data_seed, "recs": recs,
                        "points": [], "latency_ms": dsi % 3, "gaps": profile, "alone": *k == 1, "late": late, "data_only": dsi % 2 == 0, "ids": batch_ids(*k, dsi + 1), "runs": runs}));
    }
    // ---- market-data-only back-tests (no execution link): slow and in-memory sources, several concurrent runs
    for (j, (mode, n, k, w, gaps)) in [("paused", 80usize, 3usize, 1usize, "long"), ("inmem", 3000, 4, 4, "short"), ("paused", 40, 1, 1, "tail")].iter().enumerate() {
        name += 1;
        let recs: Vec<u32> = vec![7, (*n as u32) / 2];
        let runs: Vec<Value> = (0..*k).map(|r| json!({"variant": r, "acts": []})).collect();
        out.push(json!({"name": format!("x{name}"), "mode": mode, "workers": w, "n": n, "data_seed": seed * 1000 + 900 + j as u64, "recs": recs,
                        "points": [], "latency_ms": 0, "gaps": gaps, "alone": *k == 1, "late": [], "no_exec": true, "data_only": j == 1,
                        "ids": batch_ids(*k, j + 2), "runs": runs}));
    }
    // ---- a market data source that FAILS part way (its stream panics after k of n items) --------
    // (n, gaps, api, fails per run)
    let failing: Vec<(usize, &str, &str, Vec<Option<usize>>)> = {
        let mut v = vec![
            (40, "short", "run_backtests", vec![Some(rng.random_range(1..40usize))]),
            (30, "long", "run_backtests", vec![Some(0)]),
            (60, "short", "backtest", vec![None, Some(rng.random_range(1..60usize)), None, Some(0)]),
            (50, "long", "run_backtests", vec![None, Some(rng.random_range(1..50usize)), None]),
            (25, "tail", "backtest", vec![Some(24), None]),
        ];
        if thorough {
            v.push((300, "long", "backtest", (0..16).map(|r| if r % 3 == 1 { Some(rng.random_range(0..300usize)) } else { None }).collect()));
            v.push((120, "short", "run_backtests", (0..8).map(|r| if r == 5 { Some(77) } else { None }).collect()));
            for kf in [1usize, 2, 3, 10, 11] {
                v.push((12, "short", "backtest", vec![Some(kf), None]));
            }
        }
        v
    };
    for (dsi, (n, profile, api, fails)) in failing.iter().enumerate() {
        let n = *n;
        let data_seed = seed * 1000 + 800 + dsi as u64;
        let mut recs: Vec<u32> = (0..(1 + n / 30)).map(|_| rng.random_range(2..=n as u32)).collect();
        recs.sort();
        recs.dedup();
        let all: Vec<u32> = (1..=n as u32).filter(|k| !recs.contains(k)).collect();
        name += 1;
        let runs: Vec<Value> = (0..fails.len())
            .map(|r| {
                let mut pts: Vec<u32> = (0..4).map(|_| all[rng.random_range(0..all.len())]).collect();
                pts.push(all[0]);
                pts.sort();
                pts.dedup();
                json!({"variant": r, "acts": random_acts(&mut rng, &pts, 5)})
            })
            .collect();
        out.push(json!({"name": format!("f{name}"), "mode": "paused", "workers": 1, "n": n, "data_seed": data_seed, "recs": recs,
                        "points": [], "latency_ms": dsi % 3, "gaps": profile, "alone": fails.len() == 1, "api": api,
                        "fails": fails, "runs": runs}));
    }
    out
}

// ------------------------------------------------------------------------------------------
// running one scenario
// ------------------------------------------------------------------------------------------
struct RunOut {
    sink: Arc<Mutex<Sink>>,
    acts: Vec<Act>,
    acts_json: Value,
    variant: i64,
}

fn tool_error(msg: &str) -> ! {
    eprintln!("harness tool error: {msg}");
    std::process::exit(2)
}

fn run_scenario(scn: &Value, trace: &mut Out, results: &mut Out, totals: &mut Value) {
    let name = s(scn, "name").to_string();
    let mode = s(scn, "mode").to_string();
    let workers = i(scn, "workers") as usize;
    let n = i(scn, "n") as usize;
    let data_seed = i(scn, "data_seed") as u64;
    let recs: Vec<u32> = scn["recs"].as_array().map(|v| v.iter().map(|x| x.as_u64().unwrap() as u32).collect()).unwrap_or_default();
    let points: Vec<u32> = scn["points"].as_array().map(|v| v.iter().map(|x| x.as_u64().unwrap() as u32).collect()).unwrap_or_default();
    let latency = i(scn, "latency_ms") as u64;
    let runs_json = scn["runs"].as_array().unwrap_or_else(|| usage("runs")).clone();
    let k = runs_json.len();
    let gated = mode == "gated";
    let paused = mode == "paused";

    let late: Vec<(u32, i64)> = scn["late"].as_array().map(|v| v.iter().map(|x| (x[0].as_u64().unwrap() as u32, x[1].as_i64().unwrap())).collect()).unwrap_or_default();
    // fails[r] = k: the data source of run r fails after k items (paused family only)
    let fails: Vec<Option<usize>> = (0..k).map(|r| scn["fails"].get(r).and_then(|x| x.as_u64()).map(|x| x as usize)).collect();
    let each = scn["api"].as_str() == Some("backtest");
    let ids: Vec<String> = (0..k).map(|r| scn["ids"].get(r).and_then(|x| x.as_str()).map(|x| x.to_string()).unwrap_or_else(|| format!("{r}"))).collect();
    if fails.iter().any(|f| f.is_some()) && !paused {
        usage("a failing data source is available in the paused family only");
    }
    let data_only = scn["data_only"].as_bool().unwrap_or(false);
    let narrow = scn["narrow"].as_bool().unwrap_or(false);
    let mut events = dataset(n, data_seed, &recs, &late, data_only, &points);
    if narrow {
        for e in events.iter_mut() {
            if let MarketStreamEvent::Item(m) = e {
                m.instrument = InstrumentIndex(0);
            }
        }
    }
    let events = Arc::new(events);
    let instruments = instruments(data_only || scn["untraded_exchange"].as_bool().unwrap_or(false), narrow);
    let engine_state: State = EngineState::builder(&instruments, RecGlobal::default(), RecInst::default)
        .time_engine_start(time(3600))
        .trading_state(TradingState::Enabled)
        .build();

    let (txs, rxs): (Vec<_>, Vec<_>) = (0..if gated { k } else { 0 }).map(|_| watch::channel(Progress::default())).unzip();
    let shared = Arc::new(Shared { slots: txs });
    let mut outs: Vec<RunOut> = vec![];
    let mut dynamics = vec![];
    for (r, rj) in runs_json.iter().enumerate() {
        let mut acts = acts_of(&rj["acts"]);
        if narrow {
            for a in acts.iter_mut() {
                a.inst = 0;
            }
        }
        if gated {
            for a in &acts {
                if !points.contains(&a.k) {
                    usage("gated scenario: every act must be on a shared decision point");
                }
            }
        }
        let sink = Arc::new(Mutex::new(Sink::default()));
        dynamics.push(BacktestArgsDynamic {
            // ids are labels, not keys: a batch may carry equal ids (the repository's example
            // clones one template id) and the empty id
            id: SmolStr::new(ids[r].as_str()),
            risk_free_return: Decimal::new(5, 2),
            strategy: ActStrategy { id: StrategyId::new("c20"), run: r, acts: Arc::new(acts.clone()), sink: sink.clone(), shared: shared.clone() },
            risk: DefaultRiskManager::<State>::default(),
        });
        outs.push(RunOut { sink, acts, acts_json: rj["acts"].clone(), variant: rj["variant"].as_i64().unwrap_or(-1) });
    }

    let rt = if paused {
        tokio::runtime::Builder::new_current_thread().enable_all().start_paused(true).build()
    } else {
        tokio::runtime::Builder::new_multi_thread().worker_threads(workers).enable_all().build()
    }
    .unwrap_or_else(|e| tool_error(&format!("runtime: {e}")));
    // `no_exec`: a market-data-only back-test - no execution link at all (nothing is ever ordered): the account
    // stream has no producer, and the dataset must still be consumed to its end before Shutdown
    let no_exec = scn["no_exec"].as_bool().unwrap_or(false);
    let executions = if no_exec { vec![] } else { vec![ExecutionConfig::Mock(mock_config(latency, narrow))] };
    let gate_timeouts = Arc::new(AtomicUsize::new(0));
    let extra_streams = Arc::new(AtomicUsize::new(0));

    // the call under test
    let t0 = std::time::Instant::now();
    let outcome: CallOutcome = if gated {
        let md = GatedMarketData {
            events: events.clone(),
            time_first: first_item_time(&events),
            gates: Arc::new(points.clone()),
            slots: rxs,
            next: AtomicUsize::new(0),
            gate_timeouts: gate_timeouts.clone(),
            extra_streams: extra_streams.clone(),
            stream_delay: Duration::from_millis(scn["stream_delay_ms"].as_u64().unwrap_or(0)),
        };
        let args = Arc::new(BacktestArgsConstant { instruments, executions, market_data: md, summary_interval: Daily, engine_state });
        call_backtests(&rt, args, dynamics, true, each)
    } else if paused {
        let md = SlowMarketData {
            events: events.clone(),
            time_first: first_item_time(&events),
            gaps_ms: Arc::new(gaps(n, data_seed, scn["gaps"].as_str().unwrap_or("long"))),
            next: AtomicUsize::new(0),
            fail_after: Arc::new(fails.clone()),
        };
        let args = Arc::new(BacktestArgsConstant { instruments, executions, market_data: md, summary_interval: Daily, engine_state });
        call_backtests(&rt, args, dynamics, false, each)
    } else {
        let md = MarketDataInMemory::new(events.clone());
        let args = Arc::new(BacktestArgsConstant { instruments, executions, market_data: md, summary_interval: Daily, engine_state });
        call_backtests(&rt, args, dynamics, true, each)
    };
    let wall = t0.elapsed().as_secs_f64();
    rt.shutdown_timeout(Duration::from_secs(5));

    if gate_timeouts.load(Ordering::SeqCst) > 0 {
        tool_error(&format!("scenario {name}: a data-source gate was not released within {GATE_TIMEOUT:?} (wall-clock bound; not a verdict)"));
    }
    // one result per run
    let (per_run, shape): (Vec<Result<BacktestSummary<Daily>, String>>, Option<(usize, usize)>) = match outcome {
        Err(panic) => ((0..k).map(|_| Err(format!("panic: {panic}"))).collect(), None),
        Ok(Err(())) => tool_error(&format!("scenario {name}: run_backtests did not return within {SCENARIO_TIMEOUT:?} (wall-clock bound; not a verdict)")),
        Ok(Ok((v, shape))) => (v.into_iter().map(|r| r.map_err(|e| if e.starts_with("missing:") { e } else { format!("error: {e}") })).collect(), shape),
    };
    let injected = fails.iter().any(|f| f.is_some());

    // timestamps are schedule-independent (up to the wall-clock slack) when nothing of the dataset
    // can be processed between an order's event and the stamping of its request: gated source, or
    // paused clock with a (virtual) pause before every item
    let clock_checked = gated || (paused && scn["gaps"].as_str().unwrap_or("long") != "one");
    let recs_nonempty: Vec<u32> = recs.clone();
    for (r, o) in outs.iter().enumerate() {
        let sk = o.sink.lock();
        let acts_ks: Vec<u32> = o.acts.iter().map(|a| a.k).collect();
        let tag = sk.tags.first().copied().unwrap_or(0);
        if paused && tag != 0 && tag as usize != r + 1 {
            tool_error(&format!("scenario {name}: run {r} was fed by stream {tag} - stream() calls were not made in argument order"));
        }
        let status: String = match per_run.get(r) {
            Some(Ok(_)) => "ok".to_string(),
            Some(Err(e)) => e.clone(),
            None => "error: no result for this run".to_string(),
        };
        let mut reset = line("Reset");
        reset["fail"] = json!(fails[r].iter().collect::<Vec<_>>());
        reset["n"] = json!(n);
        reset["recs"] = json!(recs_nonempty);
        reset["acts"] = json!(acts_ks);
        reset["tag"] = json!(tag);
        reset["kind"] = json!(format!("{name}/{r}"));
        trace.line(&reset);
        for l in &sk.lines {
            if clock_checked && l["a"] == "Account" && (l["kind"] == "trade" || l["kind"] == "balance") {
                let mut l = l.clone();
                l["ck"] = json!(true);
                trace.line(&l);
            } else if l["a"] == "Disc" {
                // (a Reconnecting item carries no tag: it belongs to the stream the run is fed by)
                let mut l = l.clone();
                l["tag"] = json!(tag);
                trace.line(&l);
            } else {
                trace.line(l);
            }
        }
        // the summary of this run (summaries are returned in argument order; the id says which)
        let summary = per_run.get(r).and_then(|x| x.as_ref().ok());
        let id_ok = summary.map(|s| s.id.as_str() == ids[r]).unwrap_or(false);
        let sum_json = summary.map(project_summary).unwrap_or(json!("none"));
        // (a run whose strategy was never called has shown no engine state to compare with)
        let sumok = status == "ok" && id_ok && (sk.calls == 0 || sum_json == sk.digest);
        if status == "ok" || status.starts_with("missing:") {
            // (a batch result without this run's summary: the backtest ended, its position is empty)
            let mut end = line("End");
            let mut sent: Vec<i64> = sk.lines.last().map(|l| l["sent"].as_array().unwrap().iter().map(|x| x.as_i64().unwrap()).collect()).unwrap_or_default();
            sent.sort();
            end["sent"] = json!(sent);
            end["nc"] = json!(sk.nc);
            end["na"] = json!(sk.na);
            end["sumok"] = json!(sumok);
            end["tag"] = json!(tag);
            trace.line(&end);
        } else if fails[r].is_some() && status.contains("JoinError") {
            // the forwarder's error came back: no summary for the run whose data source failed
            let mut e = line("Fail");
            e["nc"] = json!(sk.nc);
            e["na"] = json!(sk.na);
            e["tag"] = json!(tag);
            trace.line(&e);
        } else if injected && !each && fails[r].is_none() && status.contains("JoinError") {
            // run_backtests (try_join_all) returned the failing run's error for the whole batch and
            // dropped this run's future: no summary, nothing more to judge than the prefix it saw
        } else {
            let mut e = line("Abort");
            e["kind"] = json!(status.clone());
            trace.line(&e);
        }
        for a in &sk.anomalies {
            let mut e = line("Anomaly");
            e["kind"] = json!(a);
            trace.line(&e);
        }
        if sk.tag_mismatch {
            tool_error(&format!("scenario {name}: run {r} was fed by stream {:?} - stream() calls were not made in argument order", sk.tags));
        }
        let n_orders = sk.fired.len();
        let timeouts = sk.order_states.iter().filter(|o| o["detail"]["state"].as_str().map(|x| x.contains("Timeout")).unwrap_or(false)).count();
        results.line(&json!({
            "scn": name, "run": r, "mode": mode, "k": k, "workers": workers, "n": n, "data_seed": data_seed, "latency_ms": latency,
            "variant": o.variant, "acts": o.acts_json, "status": status, "tags": sk.tags, "calls": sk.calls,
            "consumed": sk.nc, "account_events": sk.na, "orders_fired": n_orders, "order_responses": sk.n_resp,
            "balances_seen": sk.n_bal, "trades_seen": sk.n_trade, "snapshots_seen": sk.n_snap,
            "order_response_timeouts": timeouts, "account_reconnects": sk.account_reconnects,
            "fills": sk.fills, "fill_ts": sk.fill_ts, "balance_ts": sk.balance_ts, "times": sk.times, "clock_checked": clock_checked,
            "fired": sk.fired, "facts": sk.facts, "digest": sk.digest, "summary": sum_json, "summary_id_ok": id_ok, "sumok": sumok,
            "order_states": sk.order_states, "anomalies": sk.anomalies,
            "extra_streams": extra_streams.load(Ordering::SeqCst), "wall_s": wall,
            "id": ids[r], "summary_id": summary.map(|s| s.id.to_string()),
            "batch_num_backtests": shape.map(|x| x.0), "batch_summaries": shape.map(|x| x.1),
            "source_fails_after": fails[r], "scenario_has_failing_source": injected, "api": if each { "backtest" } else { "run_backtests" },
            "late_items": late.len(),
        }));
        totals["runs"] = json!(totals["runs"].as_u64().unwrap_or(0) + 1);
        totals["events"] = json!(totals["events"].as_u64().unwrap_or(0) + sk.nc as u64);
        totals["orders"] = json!(totals["orders"].as_u64().unwrap_or(0) + n_orders as u64);
        totals["fills"] = json!(totals["fills"].as_u64().unwrap_or(0) + sk.n_trade as u64);
        totals["account_events"] = json!(totals["account_events"].as_u64().unwrap_or(0) + sk.na as u64);
    }
    totals["scenarios"] = json!(totals["scenarios"].as_u64().unwrap_or(0) + 1);
}

fn main() {
    let args = Args::parse();
    match args.cmd.as_str() {
        "plan" => {
            let p = plan(args.u64("seed", 1), &args.str("tier", "quick"));
            println!("{}", serde_json::to_string(&p).unwrap());
        }
        "run" => {
            let scenarios: Vec<Value> = match args.get("scenarios") {
                Some(f) => serde_json::from_str(&std::fs::read_to_string(f).unwrap_or_else(|e| usage(&format!("{f}: {e}")))).unwrap_or_else(|e| usage(&format!("scenario file: {e}"))),
                None => plan(args.u64("seed", 1), &args.str("tier", "quick")),
            };
            let mut trace = Out::create(args.req("out"));
            let mut results = Out::create(args.req("results"));
            let mut totals = json!({"scenarios": 0, "runs": 0, "events": 0, "orders": 0, "fills": 0, "account_events": 0});
            let only = args.get("only").map(|s| s.to_string());
            for scn in &scenarios {
                if let Some(o) = &only {
                    if s(scn, "name") != o {
                        continue;
                    }
                }
                run_scenario(scn, &mut trace, &mut results, &mut totals);
            }
            totals["trace_lines"] = json!(trace.finish());
            results.finish();
            println!("{totals}");
        }
        _ => usage("commands: run | plan"),
    }
}
