"""C14 - decided on spec/EngineCore.tla (see props/enginecore.py for the shared pipeline)."""
from props import enginecore

MODULE = "EngineCore"
META = {
    "spec": ["EngineCore", "BarterSystem", "AccountLink", "Connectivity"],
    "technique": "TLA+ specs model-checked with TLC (EngineCore over a three-exchange world, BarterSystem with a data-only exchange, "
                 "AccountLink); the connectivity invariant additionally PROVED for any number of exchanges with TLAPS (inductive "
                 "invariant of Connectivity.tla; Apalache as a second engine) and tied to EngineCore by a TLC refinement check; "
                 "two-way conformance: TLC-generated behaviours replayed into the real Engine, recorded traces of the engine, of the "
                 "real SystemBuilder composition and of ExecutionManager::init's account stream validated by TLC against the specs",
}


def check(ctx):
    # any number of exchanges (spec/Connectivity.tla, props/connectivity.py): the invariant proved with TLAPS (and Apalache)
    # for an arbitrary set of exchanges, and EngineCore - the spec the traces below are validated against - refines it.
    # Specification-level only: a failure there is a tool error, never a verdict about the code.
    from props import connectivity
    connectivity.run(ctx)
    # the real composition: a killed execution link must yield exactly one disconnect notice naming
    # that exchange, and the engine must show its account link (and global health) as reconnecting
    from props import composition
    composition.run(ctx, composition.C14_TAGS, runs=4 if ctx.quick else 30)
    # the account link itself (spec/AccountLink.tla, props/acctlink.py): the disconnect notice of an ended account
    # connection names the ExchangeId of the instrument map - not the client's constant (mock clients serve any map)
    from props import acctlink
    acctlink.run(ctx, {"C14"})
    return enginecore.check(ctx)


def replay(ctx, rp):
    if rp.get("kind") == "system":
        from props import composition
        composition.run(ctx, composition.C14_TAGS, runs=4)
        return ctx.finish(write_evidence=False)
    if rp.get("kind") == "acctlink":
        from props import acctlink
        return acctlink.replay(ctx, rp, {"C14"})
    return enginecore.replay(ctx, rp)
