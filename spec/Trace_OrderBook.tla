--------------------------- MODULE Trace_OrderBook ---------------------------
(* Trace validation (impl -> spec) for C05: every line recorded from the      *)
(* implementation must be a step OrderBook allows, and the logged level       *)
(* VECTORS and derived values must be those of the resulting map.             *)
(*   {"a":"Reset",  "bl":[],"al":[],"s":0,"post":P}   book forced by harness  *)
(*   {"a":"Snapshot"|"Update","bl":[..],"al":[..],"s":n,"post":P}            *)
(*   {"a":"Noop", ...}    manager input that carries no book event            *)
(*                        (reconnect notice)                                  *)
(*   every line: "inst" = whom the event is addressed to: "own" (this book's  *)
(*   instrument), "other" (another instrument: configured in an               *)
(*   OrderBookMapMulti, or not configured in an OrderBookMapSingle),          *)
(*   "unknown" (in no map), "none".  For an event that is not this book's own *)
(*   - whatever it carries - only OrderBook!ManagerSkip is allowed.           *)
(* P = {bids:[{p,a}..], asks:[..], seq, mid2, vwm, d0, d1, d2, dL}:           *)
(*   mid2 = 2 * mid_price (integer prices), vwm = volume weighted mid in      *)
(*   milli-units truncated, -1 = None;  dN = snapshot(N) as {bids,asks,seq}.  *)
(* A line that is not a step of the spec is recorded in `bad` and the logged  *)
(* state is adopted so that one pass reports every rejected line.             *)
EXTENDS OrderBook, Json, IOUtils
CONSTANT Large

Rec == ndJsonDeserialize(IOEnv.TRACE)

VARIABLES l, bad
tvars == <<bids, asks, seq, last, l, bad>>

EvOf(r) == Ev(r.a, r.bl, r.al, r.s)

\* strictness / no-duplicate / no-zero evaluated on the logged vectors themselves
VectorsOK(p) == StrictVector(p.bids, "bids") /\ StrictVector(p.asks, "asks")

\* the logged observation p is exactly the view of book b
PostOK(p, b) ==
  /\ VectorsOK(p)
  /\ p.bids = Levels(b.bids, "bids") /\ p.asks = Levels(b.asks, "asks")
  /\ p.seq = b.seq
  /\ IF IsEmpty(b) THEN p.mid2 = -1 /\ p.vwm = -1
     ELSE /\ LET m == Mid(b) IN p.mid2 * m[2] = 2 * m[1]
          /\ LET v == VWMid(b)  e == p.vwm * v[2] - 1000 * v[1]
             IN e <= v[2] /\ -e <= v[2]                   \* |vwm - 1000 n/d| <= 1 milli-unit
  /\ p.d0 = Depth(b, 0) /\ p.d1 = Depth(b, 1) /\ p.d2 = Depth(b, 2) /\ p.dL = Depth(b, Large)

Logged(p) == MkBook(MapOfList(p.bids), MapOfList(p.asks), p.seq)
Adopt(p) == bids' = MapOfList(p.bids) /\ asks' = MapOfList(p.asks) /\ seq' = p.seq

TInit == /\ l = 1 /\ bad = << >>
         /\ Init

TReset == /\ Rec[l].a = "Reset"
          /\ Adopt(Rec[l].post)
          /\ last' = EvOf(Rec[l])
          /\ bad' = IF PostOK(Rec[l].post, Logged(Rec[l].post)) THEN bad ELSE Append(bad, l)

TSnapshot == /\ Rec[l].a = "Snapshot" /\ Rec[l].inst = "own"
             /\ Snapshot(Rec[l].bl, Rec[l].al, Rec[l].s)         \* the spec's own action
             /\ PostOK(Rec[l].post, Book')
             /\ UNCHANGED bad

TUpdate == /\ Rec[l].a = "Update" /\ Rec[l].inst = "own"
           /\ Update(Rec[l].bl, Rec[l].al, Rec[l].s)             \* the spec's own action
           /\ PostOK(Rec[l].post, Book')
           /\ UNCHANGED bad

TNoop == /\ (Rec[l].a = "Noop" \/ (Rec[l].a \in {"Snapshot", "Update"} /\ Rec[l].inst # "own"))
         /\ ManagerSkip
         /\ PostOK(Rec[l].post, Book')
         /\ UNCHANGED bad

StepOK(r) ==
  LET e == EvOf(r)  p == r.post IN
  CASE r.a \in {"Snapshot", "Update"} /\ r.inst # "own" -> PostOK(p, Book)        \* another instrument's event
    [] r.a = "Snapshot" -> CleanList(e.b) /\ CleanList(e.a) /\ PostOK(p, SnapshotResult(e.b, e.a, e.s))
    [] r.a = "Update"   -> \E b \in UpdateResults(Book, e.b, e.a, e.s) : PostOK(p, b)
    [] r.a = "Noop"     -> PostOK(p, Book)
    [] OTHER            -> FALSE

TStepBad == /\ Rec[l].a # "Reset"
            /\ ~StepOK(Rec[l])
            /\ Adopt(Rec[l].post)
            /\ last' = EvOf(Rec[l])
            /\ bad' = Append(bad, l)

TNext == /\ l <= Len(Rec)
         /\ l' = l + 1
         /\ (TReset \/ TSnapshot \/ TUpdate \/ TNoop \/ TStepBad)

TSpec == TInit /\ [][TNext]_tvars

\* the C05 formulas, evaluated on every accepted step of the implementation
TProps == [][last'.k \in {"Reset", "Noop"} \/ bad' # bad \/ StepProps]_tvars

Done == l = Len(Rec) + 1 => PrintT(<<"TRACE_END", ToJson(bad)>>)
Post == PrintT(<<"TRACE_DONE", TLCGet("stats").diameter, Len(Rec)>>)
=============================================================================
