SPECIFICATION GSpec
CONSTANTS
  Scripts = {}
  Policies = {}
  Tabs = {}
  Clients = {}
  ReqLists = {}
  RIns = {}
  Slack = {0}
  T = 50
  MaxG = 4
INVARIANTS WellFormed PrintScn
CHECK_DEADLOCK FALSE
