-------------------------------- MODULE Audit --------------------------------
(***************************************************************************)
(* C10 - the audit stream is gap-free and sufficient to replicate engine    *)
(* state.                                                                   *)
(*                                                                         *)
(* Code transcribed:                                                        *)
(*   barter/src/engine/audit/mod.rs    Auditor::audit_snapshot / audit      *)
(*                                     (sequence.fetch_add per record)      *)
(*   barter/src/engine/run.rs          {sync,async}_run_with_audit: one     *)
(*                                     record per event, the terminal one   *)
(*                                     last, FeedEnded when the feed ends   *)
(*   barter/src/engine/audit/state_replica.rs  StateReplicaManager::run:    *)
(*        record.seq <= replica.seq -> skipped;  = replica.seq+1 -> applied;*)
(*        otherwise -> Err (stream rejected);  FeedEnded / end of stream /  *)
(*        terminal record -> stop.                                          *)
(*                                                                         *)
(* Engine side: events are processed one by one; each yields exactly one    *)
(* record whose sequence number follows the previous one.  The abstract     *)
(* engine state after k events is just k ("the state after the k-th         *)
(* event"); the conformance harness supplies the real meaning: it compares  *)
(* the replica's EngineState with the engine's state cloned after event k.  *)
(* Replica side: records are delivered by an adversarial stream (in order,  *)
(* dropped, repeated).                                                      *)
(***************************************************************************)
EXTENDS Integers, Sequences, FiniteSets, TLC

CONSTANTS MaxEvents,   \* bound on processed events (model checking only)
          Seq0Set      \* possible sequence numbers of the snapshot record

VARIABLES seq0,        \* sequence number carried by the initial snapshot
          recs,        \* records emitted so far: <<[seq, term, kind]>>  kind in {"process","feedEnded"}
          ended,       \* the engine run has ended (terminal record emitted)
          rseq,        \* replica: sequence number of the last applied record (starts at seq0)
          rk,          \* replica: number of records applied = index of the engine state it must equal
          rstatus,     \* "running" | "stopped" | "rejected"
          last         \* last action, for trace validation

vars == <<seq0, recs, ended, rseq, rk, rstatus, last>>

Rec(s, term, kind) == [seq |-> s, term |-> term, kind |-> kind]
NextSeq == seq0 + Len(recs) + 1

Init == /\ seq0 \in Seq0Set
        /\ recs = <<>>
        /\ ended = FALSE
        /\ rseq = seq0 /\ rk = 0 /\ rstatus = "running"
        /\ last = [a |-> "Init"]

(***************************************************************************)
(* Engine                                                                   *)
(***************************************************************************)
\* process one event; `term`: it was Shutdown or produced an unrecoverable error
Emit(term) == /\ ~ended
              /\ recs' = Append(recs, Rec(NextSeq, term, "process"))
              /\ ended' = term
              /\ last' = [a |-> "Emit", seq |-> NextSeq, term |-> term]
              /\ UNCHANGED <<seq0, rseq, rk, rstatus>>
EmitOrdinary == Emit(FALSE)
EmitTerminal == Emit(TRUE)

\* the feed ends: a FeedEnded record closes the run
FeedEnds == /\ ~ended
            /\ recs' = Append(recs, Rec(NextSeq, TRUE, "feedEnded"))
            /\ ended' = TRUE
            /\ last' = [a |-> "FeedEnds", seq |-> NextSeq, term |-> TRUE]
            /\ UNCHANGED <<seq0, rseq, rk, rstatus>>

(***************************************************************************)
(* Replica: delivery of record r (any emitted record, any time).            *)
(***************************************************************************)
Outcome(r) ==
  IF rstatus # "running" THEN "ignored"
  ELSE IF r.kind = "feedEnded" THEN "stopped"
  ELSE IF r.seq <= rseq THEN "skipped"
  ELSE IF r.seq = rseq + 1 THEN (IF r.term THEN "applied_stop" ELSE "applied")
  ELSE "rejected"

Deliver(j) ==
  LET r == recs[j] o == Outcome(r) IN
  /\ rseq' = IF o \in {"applied", "applied_stop"} THEN r.seq ELSE rseq
  /\ rk'   = IF o \in {"applied", "applied_stop"} THEN rk + 1 ELSE rk
  /\ rstatus' = CASE o \in {"stopped", "applied_stop"} -> "stopped"
                  [] o = "rejected" -> "rejected"
                  [] OTHER -> rstatus
  /\ last' = [a |-> "Deliver", seq |-> r.seq, term |-> r.term, kind |-> r.kind, outcome |-> o]
  /\ UNCHANGED <<seq0, recs, ended>>

DeliverAny == \E j \in 1..Len(recs) : Deliver(j)

Next == EmitOrdinary \/ EmitTerminal \/ FeedEnds \/ DeliverAny

Spec == Init /\ [][Next]_vars

(***************************************************************************)
(* Properties                                                               *)
(***************************************************************************)
\* strictly consecutive sequence numbers following the snapshot
Contiguous == \A j \in 1..Len(recs) : recs[j].seq = seq0 + j
\* the run's final record is the terminal one and nothing follows it
RunEnds == /\ \A j \in 1..Len(recs) : recs[j].term => j = Len(recs)
           /\ ended <=> (Len(recs) > 0 /\ recs[Len(recs)].term)
\* the replica has applied exactly the first rk records: it equals the engine state after event rk
ReplicaPrefix == /\ rseq = seq0 + rk
                 /\ rk <= Len(recs)
\* a record is applied only if it directly follows the last applied one (no gap, no repeat)
NoGapAppliedA == (last'.a = "Deliver" /\ last'.outcome \in {"applied", "applied_stop"}) => last'.seq = rseq + 1
NoGapApplied == [][NoGapAppliedA]_vars
\* a repeated record is skipped, a gap is rejected, and after rejection nothing is applied
FaultsA == /\ (last'.a = "Deliver" /\ rstatus = "running" /\ last'.kind = "process" /\ last'.seq <= rseq
                 => last'.outcome = "skipped" /\ rk' = rk)
           /\ (last'.a = "Deliver" /\ rstatus = "running" /\ last'.kind = "process" /\ last'.seq > rseq + 1
                 => last'.outcome = "rejected" /\ rk' = rk)
           /\ (rstatus # "running" => rk' = rk /\ rseq' = rseq)
Faults == [][FaultsA]_vars

Bound == Len(recs) <= MaxEvents
=============================================================================
