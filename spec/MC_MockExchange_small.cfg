SPECIFICATION Spec
CONSTANTS
  Times = {0}
  Prices = {1, 2}
  Qtys = {0, 2}
  NegQtys = {1}
  BalInit = {300}
  FeePcts = {50}
  Lats = {2}
  Sinces = {1}
  OpenCids = {"o1", "o3"}
  MaxTrades = 2
  ClockSlack = FALSE
  IdSlack = 0
INVARIANT Inv
PROPERTIES AcceptIff ExactDebit RejectPure FreshIdsStep OneFill Notif11 QueriesReflect ConfigFixed Clock OfflineStep
VIEW View
CHECK_DEADLOCK FALSE
