"""The LIFECYCLE of the real system (SystemBuilder -> System: start, commands, audit hand-over, shutdown / abort /
shutdown_after_backtest) decided on spec/SystemLifecycle.tla and bound by harness/src/bin/system.rs `lifecycle`:

  TLC model-checks SystemLifecycle (FIFO, CommandsBeforeStop, ShutdownLast, BacktestDrains, AllStopped, AuditOnce,
  AuditGapFree, SeqCounts; liveness Returns; negative configurations that must fail),
  TLC generates schedules (Gen_SystemLifecycle) which the harness executes against the REAL system in all four
  feed-mode x audit-mode combinations and with each of the three ways to stop, plus seeded free-running scenarios over a
  slow market source; every run is recorded as one chronological log (API calls, items entering the feed, events the
  engine starts to process, what the stop call returned) and validated by Trace_SystemLifecycle.

One set of runs, several verdicts: a property reports only the tags it owns."""
import copy
import json

import vlib

# command order / loss / fidelity through the System API
C19_TAGS = {"cmd_order", "cmd_fidelity", "cmd_lost"}
# drain before Shutdown, what the stop call returns (engine alone, its log / counter / state), tasks left running, liveness
C20_TAGS = {"drain", "market_order", "market_lost", "market_phantom", "phantom_event", "phantom_shutdown", "shutdown_overtook",
            "engine_not_stopped", "task_running", "returned_log", "returned_seq", "returned_state",
            "stop_hangs", "stop_failed", "api_panicked",
            # the real system did something the recorder's own bookkeeping cannot place (a source item taken after the source
            # ended / out of order; an API call the specification has no state for): reported, never a tool error
            "source", "harness"}
# audit hand-over (Some exactly once, snapshot before the first event), gap-free records, the final record
C10_TAGS = {"audit_take", "audit_snapshot", "audit_ticks", "final_record", "after_shutdown", "P:AuditOnce", "audit_drop_stalls"}
# an account-stream disconnect notice processed although no link died
C14_TAGS = {"link_notice"}
# TLC could not take a step for the line at all (unknown line kind): the machinery, never a verdict
TOOL_TAGS = {"unconsumed"}
# meaningful only up to the first rejected line of a run (afterwards the specification state is an adopted one)
BOOKKEEPING_TAGS = {"source", "harness", "unconsumed"}

# after a rejected line the run continues in the observed (adopted) state; these later tags only restate the earlier cause
DERIVED = {"audit_take": {"returned_seq", "audit_ticks"},          # auditing other than configured: one more / fewer sequence number
           "after_shutdown": {"returned_log", "returned_seq"},
           "audit_snapshot": {"returned_seq"}}

MODULE = "SystemLifecycle"
TRACE, TRACE_CFG = "Trace_SystemLifecycle", "Trace_SystemLifecycle.cfg"
ACTIONS = ["Start", "SrcYield", "SrcEnd", "AcctArrive", "AcctFwdEnd", "SendCommand", "TakeAudit", "DropAudit", "EngineStep",
           "ExecEnd", "CallStop", "StopAwaitMarket", "StopAwaitEngine", "StopAwaitExec"]

ASSUMPTIONS = [
    "lifecycle: the instant an item enters the engine's feed is observed at the market source (the forwarder sends it within "
    "the same poll, on the driver's thread); account items enter unobserved and are placed by the validator (they only append)",
    "lifecycle: which tasks have ended is sampled after the stop call returned and the runtime polled every task once more "
    "(a cancelled task completes at its next poll); a stop call not returning within 120 virtual s (Stream mode, paused clock) / "
    "20 wall-clock s (Iterator mode, the engine spins on a blocking thread) is reported as not returning",
    "lifecycle: commands are recognised by content (Debug rendering of the command as handed to the System API); the returned "
    "engine is compared with a twin engine (same initial state, same events, fed synchronously) by derived equality of EngineState",
    "lifecycle: no execution link is killed and no task panics in these runs (the composition runs of C14 / C07 do that)",
]


def model_check(ctx, full):
    quick = ctx.quick
    res = ctx.tlc_mc(MODULE, "MC_SystemLifecycle.cfg" if quick else "MC_SystemLifecycle_thorough.cfg", timeout=900)
    missing = [a for a in ACTIONS if not res["actions"].get(a)]
    if missing:
        raise vlib.ToolError("SystemLifecycle: actions never taken: %s" % missing)
    if full:
        # BacktestDrains is not vacuous: the variant that sends Shutdown without awaiting the market forwarder violates it
        ctx.tlc_expect_violation(MODULE, "MC_SystemLifecycle_early.cfg", "Invariant BacktestDrains is violated", timeout=300)
        # liveness: every stop call returns (also with the audit receiver dropped) ...
        ctx.tlc_mc(MODULE, "MC_SystemLifecycle_live.cfg" if quick else "MC_SystemLifecycle_live_thorough.cfg", timeout=900, coverage=False)
        if not quick:
            # ... and not without a finite market source
            ctx.tlc_expect_violation(MODULE, "MC_SystemLifecycle_livesrc.cfg", "Temporal property Returns was violated", timeout=300)


def split_runs(lines):
    runs, cur = [], None
    for l in lines:
        if l.get("a") == "Start":
            cur = [l]
            runs.append(cur)
        elif cur is not None:
            cur.append(l)
    return runs


def corruptions(run):
    """Hand-made corruptions of ONE recorded run (the canonical scenario): each changes one thing the real system got
    right and names the tag the validator must answer with."""
    out = []

    def variant(what, tag, edit):
        r = copy.deepcopy(run)
        r = edit(r)
        if r is not None:
            out.append((what, tag, r))

    def idx(r, pred, start=0):
        return next((i for i in range(start, len(r)) if pred(r[i])), None)

    call = idx(run, lambda l: l["a"] == "StopCall")
    ret = idx(run, lambda l: l["a"] == "StopRet")
    if call is None or ret is None:
        return out

    def early_shutdown(r):
        sd = idx(r, lambda l: l["a"] == "Proc" and l["ev"] == "sd")
        y = idx(r, lambda l: l["a"] == "Yield", call)
        if sd is None or y is None or y > sd:
            return None
        r.insert(call + 1, r.pop(sd))
        return r
    variant("Shutdown processed before the market source was drained", "drain", early_shutdown)

    def lose_command(r):
        i = idx(r, lambda l: l["a"] == "Proc" and l["ev"].startswith("c"))
        if i is None:
            return None
        ev = r.pop(i)["ev"]
        e = r[-1]
        e["log"] = [x for x in e["log"] if x != ev]
        e["seq"] -= 1
        e["ticks"] = [t for t in e["ticks"] if t["ev"] != ev]
        for k, t in enumerate(e["ticks"]):
            t["seq"] = k + 1
        return r
    variant("a command handed over before the stop call is never processed", "cmd_lost", lose_command)

    def swap_commands(r):
        ps = [i for i, l in enumerate(r) if l["a"] == "Proc" and l["ev"].startswith("c")]
        if len(ps) < 2:
            return None
        r[ps[0]], r[ps[1]] = r[ps[1]], r[ps[0]]
        return r
    variant("two commands processed in the other order", "cmd_order", swap_commands)

    def twice(r):
        i = idx(r, lambda l: l["a"] == "Proc" and l["ev"].startswith("c"))
        if i is None:
            return None
        r.insert(i + 1, {"a": "Proc", "ev": "c?"})
        return r
    variant("a command processed twice", "cmd_fidelity", twice)

    def drop_tick(r):
        if len(r[-1]["ticks"]) < 2:
            return None
        del r[-1]["ticks"][1]
        return r
    variant("one audit record missing", "audit_ticks", drop_tick)

    def take_twice(r):
        ts = [l for l in r if l["a"] == "TakeAudit"]
        if len(ts) < 2:
            return None
        ts[1].update(some=True, snap_seq=0, snap_eq=True)
        return r
    variant("take_audit is Some a second time", "audit_take", take_twice)

    def late_snapshot(r):
        t = next((l for l in r if l["a"] == "TakeAudit" and l["some"]), None)
        if t is None:
            return None
        t["snap_seq"] = 1
        return r
    variant("the audit snapshot carries a later sequence number", "audit_snapshot", late_snapshot)

    def set_ret(field, value):
        def f(r):
            if isinstance(value, dict):
                r[-1][field].update(value)
            else:
                r[-1][field] = value
            return r
        return f
    variant("the market forwarder still runs after the call returned", "task_running", set_ret("tasks", {"marketFwd": False}))
    variant("an execution task still runs after the call returned", "task_running", set_ret("tasks", {"kraken": False}))
    variant("the returned engine differs from its twin", "returned_state", set_ret("twin", False))
    variant("the returned engine counted one event more", "returned_seq", set_ret("seq", run[-1]["seq"] + 1))
    variant("the final audit is not the Shutdown record", "final_record", set_ret("final", "feedEnded"))

    def after_sd(r):
        r.insert(ret, {"a": "Proc", "ev": "acct"})
        return r
    variant("an event processed after Shutdown", "after_shutdown", after_sd)

    def notice(r):
        r.insert(call, {"a": "Proc", "ev": "notice"})
        return r
    variant("a disconnect notice processed although no link died", "link_notice", notice)

    def skip_item(r):
        i = idx(r, lambda l: l["a"] == "Proc" and l["ev"] == "m2")
        if i is None:
            return None
        del r[i]
        r[-1]["log"] = [x for x in r[-1]["log"] if x != "m2"]
        r[-1]["seq"] -= 1
        r[-1]["ticks"] = [t for t in r[-1]["ticks"] if t["ev"] != "m2"]
        for k, t in enumerate(r[-1]["ticks"]):
            t["seq"] = k + 1
        return r
    variant("a market item the source yielded is skipped", "drain", skip_item)
    return out


def describe(run, line):
    head = run[0]
    stop = next((l.get("kind") for l in run if l.get("a") == "StopCall"), "?")
    return "mode=%s audit=%s stop=%s origin=%s" % (head.get("mode"), head.get("audit"), stop, head.get("origin")), stop


def validate(ctx, trace_path, own_tags, label, selftest=True):
    lines = ctx.read_trace(trace_path)
    runs = split_runs(lines)
    # corrupted copies of the canonical run are validated in the same TLC pass, after the real runs
    corrupt = []
    if selftest:
        canon = next((r for r in runs if r[0].get("origin") == "canonical"), None)
        if canon is None:
            raise vlib.ToolError("lifecycle: the canonical scenario was not run - no subject for the corrupted-trace self-test")
        # (a canonical run that did not complete is reported below as what it is; nothing to corrupt then)
        corrupt = corruptions(canon) if canon[-1].get("a") == "StopRet" else []
        selftest = canon[-1].get("a") == "StopRet"
    flat, owner = [], []            # owner[i] = ("real", run) | ("self", k)
    # a stop call that fails / hangs / an API call that panics ONLY in runs whose audit receiver had been dropped: the
    # dropped receiver stopped or stalled the engine (the audit clause); otherwise the stop call itself is at fault
    failing = [r for r in runs if any(l.get("a") == "Anomaly" for l in r)]
    by_drop = bool(failing) and all(any(l.get("a") == "DropAudit" for l in r) for r in failing)
    for r in runs:
        anomaly = next((l for l in r if l.get("a") == "Anomaly"), None)
        if anomaly is not None:
            # the projection cannot show TLC a stop call that did not return / panicked: reported here
            tag = "audit_drop_stalls" if by_drop else anomaly.get("tag", "stop_failed")
            desc, stop = describe(r, anomaly)
            if tag in own_tags:
                ctx.violation("lifecycle:%s:%s" % (tag, stop), "real system lifecycle (%s): %s" % (desc, anomaly.get("anomaly")),
                              {"kind": "lifecycle", "seed": ctx.seed, "scenario": r[0].get("scn")})
            elif tag not in (C19_TAGS | C20_TAGS | C10_TAGS | C14_TAGS):
                raise vlib.ToolError("lifecycle: anomaly with an unknown tag: %s" % json.dumps(anomaly))
            else:
                ctx.cov["lifecycle"]["rejected_lines_owned_by_other_properties"] += 1
            continue
        for l in [{"a": "Reset", "audit": r[0]["audit"]}] + r:
            flat.append(l)
            owner.append(("real", r))
    for k, (what, tag, r) in enumerate(corrupt):
        for l in [{"a": "Reset", "audit": r[0]["audit"]}] + r:
            flat.append(l)
            owner.append(("self", k))
    clean = ctx.path("clean_lifecycle_%s.ndjson" % label)
    with open(clean, "w") as f:
        for l in flat:
            l = dict(l)
            l.pop("scn", None)
            f.write(json.dumps(l) + "\n")
    n, bad, _ = ctx.tlc_trace(TRACE, TRACE_CFG, clean)
    hit = {}
    first = {}      # per real run: the tags of its first rejected line (later lines of that run are judged in an adopted state)
    for b in bad:
        tags = set(ctx.last_tags.get(b, ["unconsumed"]))
        kind, ref = owner[b - 1]
        if kind == "self":
            hit.setdefault(ref, set()).update(tags)
            continue
        line = flat[b - 1]
        cause = first.setdefault(id(ref), tags)
        if cause is not tags:
            # consequences of an earlier rejection in the same run that belong to another property's vocabulary
            # (and the recorder's own bookkeeping, which is only meaningful up to the first rejected line)
            tags = tags - BOOKKEEPING_TAGS
            for c, derived in DERIVED.items():
                if c in cause:
                    tags = tags - derived
            if not tags:
                continue
        if tags & TOOL_TAGS:
            raise vlib.ToolError("lifecycle: Trace_SystemLifecycle has no step for %s: %s" % (json.dumps(line)[:300], sorted(tags)))
        own = tags & set(own_tags)
        if not own:
            ctx.cov["lifecycle"]["rejected_lines_owned_by_other_properties"] += 1
            continue
        desc, stop = describe(ref, line)
        shown = {k: v for k, v in line.items() if k != "scn"}
        ctx.violation("lifecycle:%s:%s" % ("+".join(sorted(own)), stop),
                      "real system lifecycle (%s): %s at %s - not a behaviour of SystemLifecycle.tla [%s line %d]" % (
                          desc, sorted(own), json.dumps(shown)[:600], label, b),
                      {"kind": "lifecycle", "seed": ctx.seed, "scenario": ref[0].get("scn")})
    # (the self-test needs a healthy subject: if the real canonical run was itself rejected, that is the verdict)
    canon_ok = selftest and not any(owner[b - 1] == ("real", canon) for b in bad)
    if not canon_ok:
        corrupt = []
    elif len(corrupt) < 14:
        raise vlib.ToolError("lifecycle: only %d corruptions applicable to the canonical run (vacuous self-test)" % len(corrupt))
    for k, (what, tag, _) in enumerate(corrupt):
        if tag not in hit.get(k, set()):
            raise vlib.ToolError("lifecycle: the binding does not bite - corrupted trace '%s' was not rejected with '%s' (got %s)" % (
                what, tag, sorted(hit.get(k, set()))))
    ctx.cov["lifecycle"]["corrupted_traces_rejected"] = len(corrupt)
    ctx.cov["lifecycle"]["runs_validated"] = ctx.cov["lifecycle"].get("runs_validated", 0) + len(runs)
    ctx.cov["traces_validated_against_impl"] += len(runs)
    return runs


def run(ctx, own_tags, full=False):
    """full: also the liveness model and the negative configurations (the owner of the drain / liveness clauses)."""
    ctx.build("system")
    ctx.assumptions += [a for a in ASSUMPTIONS if a not in ctx.assumptions]
    ctx.cov["lifecycle"] = {"rejected_lines_owned_by_other_properties": 0}
    model_check(ctx, full)
    quick = ctx.quick
    p, scns = ctx.tlc_gen("Gen_SystemLifecycle", "Gen_SystemLifecycle.cfg", "lifecycle_schedules.ndjson",
                          simulate=(60 if quick else 1500, 80), timeout=600)
    out = ctx.path("trace_lifecycle.ndjson")
    info = ctx.harness("system", "lifecycle", "--scenarios", p, "--seeded", 96 if quick else 1440, "--seed", ctx.seed, "--out", out, timeout=600)
    ctx.cov["scenarios_replayed"] += len(scns)
    ctx.sample({"kind": "TLC-generated lifecycle schedule (executed against the real system)", "schedule": scns[0]})
    validate(ctx, out, own_tags, "runs")
    st = {k: v for k, v in info.items() if k != "lines"}
    ctx.cov["lifecycle"].update(st)
    # vacuity: every mode combination, every way to stop, the discriminating situations
    need = ["runs_%s_%s_audit_%s" % (m, k, a) for m in ("stream", "iter") for k in ("shutdown", "abort", "backtest") for a in ("on", "off")]
    need += ["backtest_stops_called_before_the_source_was_drained", "stops_called_with_commands_still_in_the_feed",
             "audit_records_received", "take_audit_some", "take_audit_none",
             "audit_receiver_dropped_while_running", "processed_account_items", "processed_market_items", "processed_commands"]
    missing = [k for k in need if not st.get(k)]
    if missing and not ctx.violations:
        raise vlib.ToolError("lifecycle: vacuous run, never exercised: %s" % missing)


def replay(ctx, rp, own_tags):
    ctx.build("system")
    ctx.cov["lifecycle"] = {"rejected_lines_owned_by_other_properties": 0}
    p = ctx.path("lifecycle_replay.ndjson")
    with open(p, "w") as f:
        f.write(json.dumps(rp["scenario"]) + "\n")
    out = ctx.path("trace_lifecycle_replay.ndjson")
    # (a few repetitions: Iterator-mode runs are scheduled by the OS)
    for k in range(3):
        ctx.harness("system", "lifecycle", "--driver", p, "--seed", rp.get("seed", ctx.seed), "--out", out, timeout=300)
        validate(ctx, out, own_tags, "replay%d" % k, selftest=False)
    return ctx.finish(write_evidence=False)
